#!/usr/bin/env python3
"""tools/manifest_add.py <ID> <level> <technique> <design_ref> <text> <note>  -- register / update a check in MANIFEST.json"""
import json, sys
pid, level, technique, ref, text, note = sys.argv[1:7]
p = '/verif/MANIFEST.json'
m = json.load(open(p))
m['checks'] = [c for c in m['checks'] if c['property_id'] != pid]
m['checks'].append({"property_id": pid, "quick_cmd": "./check %s --tier quick" % pid, "thorough_cmd": "./check %s --tier thorough" % pid,
                    "evidence_file": "/verif/evidence/%s.json" % pid, "replay_cmd_template": "./check %s --replay {path}" % pid,
                    "engine": "tlc-harness", "level_claimed": {"category": level, "text": text, "design_ref": ref},
                    "level_note": note, "technique": technique})
m['checks'].sort(key=lambda c: c['property_id'])
m['not_applicable'] = [n for n in m['not_applicable'] if n['property_id'] != pid]
m['engines'][0]['serves_properties'] = [c['property_id'] for c in m['checks']]
json.dump(m, open(p, 'w'), indent=1)
import jsonschema
jsonschema.validate(m, json.load(open('/root/.vp/MANIFEST.schema.json')))
print("ok", [c['property_id'] for c in m['checks']])
