#!/usr/bin/env python3
"""tools/eval_cmutant.py <PROP> <a|b> [extra check ids...]

Confirm a seeded mutant that (also) patches generated C files, then run our check(s) against it in /repo and restore.
The mutant lives in /tmp/mut_<PROP>/MUTANTS: mutant_<v>.diff (tracked files, git apply), mutant_<v>.c.diff (generated .c, patch -p0),
demo_<v>.py. Generated .c / .so files are git-ignored: they are backed up with cp -p and restored byte for byte."""
import glob
import os
import re
import shutil
import subprocess
import sys

P, V = sys.argv[1], sys.argv[2]
extra = sys.argv[3:]
WT = "/tmp/mut_%s" % P
M = os.path.join(WT, "MUTANTS")
PY = "/venv/bin/python"


def sh(cmd, cwd=None, env=None, timeout=3600, log=None):
    e = dict(os.environ)
    if env:
        e.update(env)
    p = subprocess.run(cmd, shell=True, cwd=cwd, env=e, stdin=subprocess.DEVNULL, stdout=subprocess.PIPE, stderr=subprocess.STDOUT, text=True, timeout=timeout)
    if log:
        open(log, "w").write(p.stdout)
    return p.returncode, p.stdout


def c_targets(root):
    f = os.path.join(M, "mutant_%s.c.diff" % V)
    if not os.path.exists(f) or os.path.getsize(f) == 0:
        return []
    out = []
    for line in open(f):
        m = re.match(r"^\+\+\+ (\S+)", line)
        if m:
            path = m.group(1)
            path = re.sub(r"^(a|b)/", "", path) if not os.path.exists(os.path.join(root, path)) else path
            path = path.replace(".c.orig", ".c")
            out.append(path)
    return out


def backup(root, rels, bdir):
    shutil.rmtree(bdir, ignore_errors=True)
    os.makedirs(bdir)
    saved = []
    for rel in rels:
        for f in [os.path.join(root, rel)] + glob.glob(os.path.join(root, rel[:-2] + ".cpython-*.so")):
            dst = os.path.join(bdir, os.path.relpath(f, root).replace("/", "__"))
            shutil.copy2(f, dst)
            saved.append((f, dst))
    return saved


def restore(saved):
    for f, dst in saved:
        shutil.copy2(dst, f)


def apply(root):
    d = os.path.join(M, "mutant_%s.diff" % V)
    if os.path.exists(d) and os.path.getsize(d) > 0:
        rc, out = sh("git apply %s" % d, cwd=root)
        if rc:
            print("PATCH DOES NOT APPLY (git apply): " + out[-300:])
            return False
    c = os.path.join(M, "mutant_%s.c.diff" % V)
    if os.path.exists(c) and os.path.getsize(c) > 0:
        rc, out = sh("patch -p0 --no-backup-if-mismatch < %s" % c, cwd=root)
        if rc:
            rc, out = sh("patch -p1 --no-backup-if-mismatch < %s" % c, cwd=root)
        if rc:
            print("C PATCH DOES NOT APPLY: " + out[-300:])
            return False
    return True


def main():
    env = {"PYTHONPATH": WT, "NUMBA_CACHE_DIR": WT + "/.nbc"}
    rels = c_targets(WT)
    print("generated C files patched:", rels)
    # ---- in the scratch worktree
    sh("git checkout -- .", cwd=WT)
    shutil.rmtree(WT + "/.nbc", ignore_errors=True)
    rc, _ = sh("timeout 1200 %s MUTANTS/demo_%s.py" % (PY, V), cwd=WT, env=env, log="/tmp/ev_%s%s.pristine.log" % (P, V))
    print("== demo on pristine exit=%d" % rc)
    saved = backup(WT, rels, WT + "/.bak")
    ok = apply(WT)
    if ok:
        rc_b, out = sh("%s MUTANTS/rebuild.py %s" % (PY, WT), cwd=WT)
        print("   rebuild:", out.strip().splitlines()[-1] if out.strip() else rc_b)
        shutil.rmtree(WT + "/.nbc", ignore_errors=True)
        rc2, out = sh("timeout 1200 %s MUTANTS/demo_%s.py" % (PY, V), cwd=WT, env=env, log="/tmp/ev_%s%s.mutant.log" % (P, V))
        print("== demo on mutant exit=%d" % rc2)
        print("\n".join(out.strip().splitlines()[-3:])[:600])
    sh("git checkout -- .", cwd=WT)
    restore(saved)
    shutil.rmtree(WT + "/.nbc", ignore_errors=True)
    if not ok:
        return 2
    if os.environ.get("EVAL_IN_WT") == "1":
        # run our checks against the scratch worktree itself (VERIF_REPO) so that /repo is left alone (a sweep may be using it)
        saved = backup(WT, rels, WT + "/.bak")
        try:
            if not apply(WT):
                return 2
            sh("%s MUTANTS/rebuild.py %s" % (PY, WT), cwd=WT)
            for c in [P] + extra:
                rc, out = sh("./check %s" % c, cwd="/verif", env={"VERIF_REPO": WT, "PYTHONPATH": WT}, log="/tmp/ev_%s%s.check_%s.log" % (P, V, c), timeout=7200)
                lines = out.splitlines()
                nv = sum(1 for ln in lines if ln.startswith("VIOLATION"))
                print("check %s exit=%d violations=%d (in worktree)" % (c, rc, nv))
                shown = 0
                for i, ln in enumerate(lines):
                    if ln.startswith("VIOLATION") and shown < 3:
                        print("   " + (lines[i + 1] if i + 1 < len(lines) else "")[:400])
                        shown += 1
                print("   " + (lines[-1] if lines else "")[:200])
        finally:
            sh("git checkout -- .", cwd=WT)
            restore(saved)
            sh("%s MUTANTS/rebuild.py %s" % (PY, WT), cwd=WT)
        return 0
    # ---- /repo
    rc, out = sh("git status --short | grep -v '^??'", cwd="/repo")
    if out.strip():
        print("/repo dirty:", out)
        return 2
    rc, out = sh("pgrep -f '[p]ytest -ra -q -p no:cacheprovider'")
    if out.strip():
        print("the repository test suite is running against /repo: not touching it")
        return 2
    saved = backup("/repo", rels, "/tmp/ev_bak_%s%s" % (P, V))
    # git checkout rewrites the tracked files it restores (new mtime): remember the mtimes so that rebuild_ext's ".pyx newer than .c" note stays quiet
    mt = {f: os.path.getmtime(f) for f in glob.glob("/repo/TidalPy/**/*.pyx", recursive=True)}
    try:
        if not apply("/repo"):
            return 2
        for c in [P] + extra:
            rc, out = sh("./check %s" % c, cwd="/verif", log="/tmp/ev_%s%s.check_%s.log" % (P, V, c), timeout=7200)
            lines = out.splitlines()
            nv = sum(1 for ln in lines if ln.startswith("VIOLATION"))
            print("check %s exit=%d violations=%d" % (c, rc, nv))
            shown = 0
            for i, ln in enumerate(lines):
                if ln.startswith("VIOLATION") and shown < 3:
                    print("   " + (lines[i + 1] if i + 1 < len(lines) else "")[:400])
                    shown += 1
            print("   " + (lines[-1] if lines else "")[:200])
    finally:
        sh("git checkout -- .", cwd="/repo")
        restore(saved)
        for f, t in mt.items():
            if os.path.exists(f) and os.path.getmtime(f) != t:
                os.utime(f, (t, t))
        rc, out = sh("git status --short | grep -v '^??'", cwd="/repo")
        print("== /repo restored", out.strip())
    return 0


if __name__ == "__main__":
    sys.exit(main())
