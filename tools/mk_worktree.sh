#!/bin/sh
# tools/mk_worktree.sh <dir>  -- scratch git worktree of /repo HEAD with the (git-ignored) built extensions copied in
set -e
D="$1"
git -C /repo worktree add --detach "$D" HEAD >/dev/null 2>&1
rsync -a --include='*/' --include='*.so' --include='*.c' --exclude='*' /repo/TidalPy/ "$D/TidalPy/"
echo "$D ready"
