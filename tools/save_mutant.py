#!/usr/bin/env python3
"""tools/save_mutant.py <PROP> <a|b> <caught:yes|no> "<needs>" "<what we ran / which check caught it>" """
import json, os, shutil, sys
P, V, caught, needs, ran = sys.argv[1:6]
src = "/tmp/mut_%s/MUTANTS" % P
dst = "/verif/seeded/%s-%s" % (P, V)
os.makedirs(dst, exist_ok=True)
shutil.copy(os.path.join(src, "mutant_%s.diff" % V), os.path.join(dst, "patch.diff"))
shutil.copy(os.path.join(src, "demo_%s.py" % V), os.path.join(dst, "demo.py"))
cdiff = os.path.join(src, "mutant_%s.c.diff" % V)
if os.path.exists(cdiff) and os.path.getsize(cdiff) > 0:
    # the mutant (also) patches a generated C file (no Cython in the sandbox): apply with `patch -p0` from the repo root, see tools/eval_cmutant.py
    shutil.copy(cdiff, os.path.join(dst, "patch.c.diff"))
# helper modules the demos import (anything else in MUTANTS/ that is a .py and not a demo / rebuild script)
import glob
for f in glob.glob(os.path.join(src, "*.py")):
    b = os.path.basename(f)
    if not b.startswith("demo_") and b != "rebuild.py":
        shutil.copy(f, os.path.join(dst, b))
readme = open(os.path.join(src, "README.md")).read()
open(os.path.join(dst, "agent_README.md"), "w").write(readme)
json.dump({"property": P, "variant": V, "needs_to_manifest": needs, "detected_by_check": caught == "yes", "what_was_run": ran,
           "confirmed": "demo exits 0 on the pristine worktree and 1 with the patch (tools/eval_mutant.sh); relevant repo tests pass with the patch (run by the authoring agent and/or tools/eval_mutant_tests.sh)"},
          open(os.path.join(dst, "meta.json"), "w"), indent=1)
print("saved", dst)
