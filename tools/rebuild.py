#!/usr/bin/env python
"""rebuild.py <repo-root>: recompile every generated C file under <repo-root>/TidalPy that is newer than its .so
(there is no Cython in this sandbox; the extension modules are built from the generated .c next to each .pyx)."""
import glob, os, subprocess, sys, sysconfig
root = os.path.abspath(sys.argv[1])
import numpy
inc = [sysconfig.get_paths()["include"], numpy.get_include(), root]
import CyRK
d = os.path.dirname(CyRK.__file__)
inc += [d, os.path.join(d, "cy"), os.path.join(d, "array")]
n = 0
for c in glob.glob(os.path.join(root, "TidalPy", "**", "*.c"), recursive=True):
    sos = glob.glob(c[:-2] + ".cpython-*.so")
    if not sos or os.path.getmtime(c) <= os.path.getmtime(sos[0]):
        continue
    cmd = ["gcc", "-shared", "-fPIC", "-O3", "-fopenmp", "-fno-strict-aliasing", "-w", "-DNPY_NO_DEPRECATED_API=NPY_1_7_API_VERSION"]
    for i in inc:
        cmd += ["-I", i]
    cmd += ["-I", os.path.dirname(c), c, "-o", sos[0] + ".tmp", "-lm"]
    p = subprocess.run(cmd, stdout=subprocess.PIPE, stderr=subprocess.STDOUT, text=True)
    if p.returncode != 0:
        print(p.stdout[-3000:]); sys.exit(1)
    os.replace(sos[0] + ".tmp", sos[0]); n += 1; print("rebuilt", os.path.relpath(sos[0], root))
print("rebuilt %d extension(s)" % n)
