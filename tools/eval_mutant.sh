#!/bin/sh
# tools/eval_mutant.sh <PROP> <a|b> [extra check ids...]  -- confirm a seeded mutant in its scratch worktree, then run our check(s) against it in /repo
P=$1; V=$2; shift 2
WT=/tmp/mut_$P
D=$WT/MUTANTS/mutant_$V.diff
RUN="env NUMBA_CACHE_DIR=$WT/.nbc PYTHONPATH=$WT timeout 900 /venv/bin/python"
cd $WT || exit 2
git checkout -- . ; rm -rf $WT/.nbc
echo "== demo on pristine"; $RUN MUTANTS/demo_$V.py < /dev/null > /tmp/ev_$P$V.pristine.log 2>&1; echo "exit=$?"
git apply $D || { echo "PATCH DOES NOT APPLY"; exit 2; }
rm -rf $WT/.nbc
echo "== demo on mutant"; $RUN MUTANTS/demo_$V.py < /dev/null > /tmp/ev_$P$V.mutant.log 2>&1; echo "exit=$?"; tail -3 /tmp/ev_$P$V.mutant.log | cut -c1-300
git checkout -- . ; rm -rf $WT/.nbc
if [ "$EVAL_IN_WT" = "1" ]; then
  # run our check(s) against the scratch worktree itself (VERIF_REPO / PYTHONPATH) and leave /repo alone
  echo "== our check(s) on the worktree with the mutant"
  git apply $D || exit 2
  for C in $P "$@"; do
    (cd /verif && VERIF_REPO=$WT PYTHONPATH=$WT ./check $C > /tmp/ev_$P$V.check_$C.log 2>&1; echo "check $C exit=$?"; grep -c "^VIOLATION" /tmp/ev_$P$V.check_$C.log; grep -A1 "^VIOLATION" /tmp/ev_$P$V.check_$C.log | head -4 | cut -c1-400; tail -1 /tmp/ev_$P$V.check_$C.log | cut -c1-200)
  done
  cd $WT && git checkout -- . ; rm -rf $WT/.nbc
  echo "== worktree restored"
  exit 0
fi
echo "== our check(s) on /repo with the mutant"
cd /repo && git status --short | grep -v '^??' && { echo "/repo dirty"; exit 2; }
git -C /repo apply $D || { echo "PATCH DOES NOT APPLY TO /repo"; exit 2; }
for C in $P "$@"; do
  (cd /verif && ./check $C > /tmp/ev_$P$V.check_$C.log 2>&1; echo "check $C exit=$?"; grep -c "^VIOLATION" /tmp/ev_$P$V.check_$C.log; grep -A1 "^VIOLATION" /tmp/ev_$P$V.check_$C.log | head -4 | cut -c1-400; tail -1 /tmp/ev_$P$V.check_$C.log | cut -c1-200)
done
git -C /repo checkout -- .
git -C /repo status --short | grep -v '^??'
echo "== /repo restored"
