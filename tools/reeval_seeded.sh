#!/bin/sh
# tools/reeval_seeded.sh <PROP> <variant> [extra check ids...]  -- rebuild a scratch worktree from seeded/<PROP>-<variant> and evaluate it there
# (EVAL_IN_WT=1: /repo is not touched). Python mutants use eval_mutant.sh, mutants with a patch.c.diff use eval_cmutant.py.
P=$1; V=$2; shift 2
S=/verif/seeded/$P-$V
[ -d "$S" ] || { echo "no $S"; exit 2; }
WT=/tmp/mut_$P
[ -d "$WT" ] || sh /verif/tools/mk_worktree.sh $WT >/dev/null
mkdir -p $WT/MUTANTS
cp $S/patch.diff $WT/MUTANTS/mutant_$V.diff
cp $S/demo.py $WT/MUTANTS/demo_$V.py
for f in $S/*.py; do case "$f" in */demo.py) ;; *) cp "$f" $WT/MUTANTS/ ;; esac; done 2>/dev/null
cp /tmp/mut_tools/rebuild.py $WT/MUTANTS/ 2>/dev/null || cp /verif/tools/rebuild.py $WT/MUTANTS/
if [ -f $S/patch.c.diff ]; then
  cp $S/patch.c.diff $WT/MUTANTS/mutant_$V.c.diff
  EVAL_IN_WT=1 python3 /verif/tools/eval_cmutant.py $P $V "$@"
else
  EVAL_IN_WT=1 sh /verif/tools/eval_mutant.sh $P $V "$@"
fi
