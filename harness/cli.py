"""/verif/check <ID> [--tier quick|thorough] [--replay path]"""
import argparse
import importlib
import os
import sys
import traceback

from . import core


def numba_cache_for_tree():
    """numba's on-disk cache is keyed on the source file of the cached function only: an edit to a *callee* module
    leaves stale machine code behind (seen: collapse_modes kept an old effective_rigidity_general). Key the cache
    directory on the state of every .py under the repo so that any edit gets a fresh cache."""
    import hashlib
    h = hashlib.sha1()
    root = os.path.join(core.REPO, "TidalPy")
    for d, dirs, files in sorted(os.walk(root)):
        dirs.sort()
        for f in sorted(files):
            if f.endswith((".py", ".toml", ".zip")):
                p = os.path.join(d, f)
                st = os.stat(p)
                h.update(("%s:%d:%d;" % (p, st.st_mtime_ns, st.st_size)).encode())
    base = os.path.join(core.VERIF, ".scratch", "numba_cache")
    os.makedirs(base, exist_ok=True)
    d = os.path.join(base, h.hexdigest()[:16])
    os.environ["VERIF_NUMBA_FRESH"] = "0" if os.path.isdir(d) and len(os.listdir(d)) > 3 else "1"
    if not os.path.isdir(d):
        import shutil
        # keep the most recent trees (several trees may be under evaluation at the same time: tools/eval_* with VERIF_REPO) and
        # never remove a directory that was used in the last two hours
        import time
        olds = sorted((os.path.join(base, x) for x in os.listdir(base)), key=os.path.getmtime)
        for o in olds[:-6]:
            if time.time() - os.path.getmtime(o) > 7200:
                shutil.rmtree(o, ignore_errors=True)
        os.makedirs(d, exist_ok=True)
    os.environ["NUMBA_CACHE_DIR"] = d
    try:
        os.utime(d, None)
    except OSError:
        pass
    # TidalPy copies its default configuration (defaultc.py) and the shipped world configurations (WorldPack.zip) into the user's
    # data directory on first use and reads THOSE copies ever after: without a fresh data directory per tree a change to the defaults
    # or to a shipped world would never reach the code under test (seen: a repaired default kept failing). platformdirs honours
    # XDG_DATA_HOME; the directory is keyed like the numba cache.
    xbase = os.path.join(core.VERIF, ".scratch", "xdg_data")
    os.makedirs(xbase, exist_ok=True)
    xd = os.path.join(xbase, h.hexdigest()[:16])
    if not os.path.isdir(xd):
        import shutil
        import time
        for o in sorted((os.path.join(xbase, x) for x in os.listdir(xbase)), key=os.path.getmtime)[:-6]:
            if time.time() - os.path.getmtime(o) > 7200:
                shutil.rmtree(o, ignore_errors=True)
        os.makedirs(xd, exist_ok=True)
    os.environ["XDG_DATA_HOME"] = xd
    try:
        os.utime(xd, None)
    except OSError:
        pass
    return d


def main():
    numba_cache_for_tree()
    ap = argparse.ArgumentParser()
    ap.add_argument("pid")
    ap.add_argument("--tier", default=os.environ.get("VERIF_TIER", "quick"), choices=["quick", "thorough"])
    ap.add_argument("--replay", default=None)
    a = ap.parse_args()
    seed = int(os.environ.get("VERIF_SEED", "0") or 0)
    pid = a.pid.upper()
    try:
        from . import rebuild_ext
        rebuild_ext.rebuild_if_needed()
        mod = importlib.import_module("harness.props.%s" % pid.lower())
        if a.replay:
            return mod.replay(a.replay)
        return mod.run(a.tier, seed)
    except core.MachineryError as ex:
        print("MACHINERY-FAILURE %s: %s" % (pid, ex))
        return 2
    except Exception:
        traceback.print_exc()
        print("MACHINERY-FAILURE %s: unexpected exception" % pid)
        return 2


if __name__ == "__main__":
    sys.exit(main())
