"""/verif/check <ID> [--tier quick|thorough] [--replay path]"""
import argparse
import importlib
import os
import sys
import traceback

from . import core


def main():
    ap = argparse.ArgumentParser()
    ap.add_argument("pid")
    ap.add_argument("--tier", default=os.environ.get("VERIF_TIER", "quick"), choices=["quick", "thorough"])
    ap.add_argument("--replay", default=None)
    a = ap.parse_args()
    seed = int(os.environ.get("VERIF_SEED", "0") or 0)
    pid = a.pid.upper()
    try:
        from . import rebuild_ext
        rebuild_ext.rebuild_if_needed()
        mod = importlib.import_module("harness.props.%s" % pid.lower())
        if a.replay:
            return mod.replay(a.replay)
        return mod.run(a.tier, seed)
    except core.MachineryError as ex:
        print("MACHINERY-FAILURE %s: %s" % (pid, ex))
        return 2
    except Exception:
        traceback.print_exc()
        print("MACHINERY-FAILURE %s: unexpected exception" % pid)
        return 2


if __name__ == "__main__":
    sys.exit(main())
