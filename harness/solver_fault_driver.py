"""Run ONE radial_solver call described by a JSON case in a fresh process (crash / hang isolation) and report what happened.

python -m harness.solver_fault_driver <case.json>  -> prints one JSON line {outcome, cls, success, message_empty, result_none,
love_none, inputs_max_ulp, inputs_restored, ...}"""
import json
import math
import sys

import numpy as np


def ulp_diff(a, b):
    a = np.asarray(a)
    b = np.asarray(b)
    if np.iscomplexobj(a):
        # an element that was NaN (in either part) and still is NaN counts as unchanged
        nan_both = (np.isnan(a.real) | np.isnan(a.imag)) & (np.isnan(b.real) | np.isnan(b.imag))
        a = np.where(nan_both, 0.0, a)
        b = np.where(nan_both, 0.0, b)
        return max(ulp_diff(a.real, b.real), ulp_diff(a.imag, b.imag))
    with np.errstate(all="ignore"):
        both_nan = np.isnan(a) & np.isnan(b)
        sp = np.spacing(np.maximum(np.abs(a), np.abs(b)))
        d = np.where(both_nan | (a == b), 0.0, np.abs(a - b) / sp)
    d = np.where(np.isnan(d), np.inf, d)
    return float(np.max(d)) if d.size else 0.0


def build(case):
    from harness.solver_lib import make_planet
    layers = case["layers"]
    for L in layers:
        L["mu"] = complex(*L["mu"])
    p = make_planet(layers, n_per_layer=case.get("n", 20), r0_frac=case.get("r0", 1e-2))
    return p


def main():
    case = json.load(open(sys.argv[1]))
    import logging
    import TidalPy  # noqa
    logging.disable(logging.CRITICAL)
    from TidalPy.RadialSolver import radial_solver
    p = build(case)
    arrs = [p.radius.copy(), p.density.copy(), p.gravity.copy(), p.bulk.copy(), p.shear.copy()]
    for name, idx, val in case.get("poke", []):          # e.g. ["shear", 5, [nan, 0]]
        k = ["radius", "density", "gravity", "bulk", "shear"].index(name)
        arrs[k][idx] = complex(*val) if isinstance(val, list) else val
    if case.get("truncate"):
        arrs = [a[:case["truncate"]].copy() for a in arrs]
    form = case.get("array_form")
    if form == "noncontiguous":           # every second element of a twice-as-long buffer
        arrs = [np.repeat(a, 2)[::2] for a in arrs]
    elif form == "float32_radius":
        arrs[0] = arrs[0].astype(np.float32)
    elif form == "fortran_2d_slice":
        arrs = [np.asfortranarray(np.vstack([a, a]))[0] for a in arrs]
    elif form == "mmap_readonly":      # genuinely read-only pages (np.load(..., mmap_mode='r')): writing into them is a segmentation fault
        import tempfile, os
        d = tempfile.mkdtemp(prefix="c06mm", dir=os.path.dirname(sys.argv[1]))
        loaded = []
        for i, a in enumerate(arrs):
            f = os.path.join(d, "a%d.npy" % i)
            np.save(f, a)
            loaded.append(np.load(f, mmap_mode="r"))
        arrs = loaded
    elif form == "readonly":
        for a in arrs:
            a.flags.writeable = False
    before = [a.copy() for a in arrs]
    kw = dict(degree_l=case.get("l", 2), solve_for=tuple(case["solve_for"]) if isinstance(case.get("solve_for"), list) and not case.get("solve_for_as_list") else case.get("solve_for"),
              use_kamata=case.get("use_kamata", False), integration_method=case.get("method", "RK45"), integration_rtol=case.get("rtol", 1e-6),
              integration_atol=case.get("atol", 1e-10), max_num_steps=case.get("max_num_steps", 500000), max_ram_MB=case.get("max_ram_MB", 500),
              nondimensionalize=case["nondim"], raise_on_fail=case["raise_on_fail"], warnings=False, verbose=False)
    if case.get("solve_for") is None:
        kw["solve_for"] = None
    if "expected_size" in case:
        kw["expected_size"] = int(case["expected_size"])
    layer_types = tuple(case.get("layer_types", p.layer_types))
    is_static = tuple(case.get("is_static", p.is_static))
    is_incomp = tuple(case.get("is_incompressible", p.is_incompressible))
    upper = tuple(case.get("upper_radius", p.upper_radius))
    freq = case.get("frequency", 1e-5)
    bulk_density = case.get("bulk_density", p.bulk_density)
    if bulk_density == "nan":
        bulk_density = float("nan")
    if freq == "nan":
        freq = float("nan")
    out = {}
    sol = None
    try:
        sol = radial_solver(arrs[0], arrs[1], arrs[2], arrs[3], arrs[4], freq, bulk_density, layer_types, is_static, is_incomp, upper, **kw)
        out["outcome"] = "returned_ok" if sol.success else "returned_fail"
        out["success"] = bool(sol.success)
        out["message_empty"] = (str(sol.message).strip() == "")
        res = sol.result
        love = sol.love
        out["result_none"] = res is None
        out["love_none"] = love is None
        if love is not None and sol.success:
            lv = np.array(love, copy=True).ravel()
            out["love"] = [[float(z.real), float(z.imag)] for z in lv]
        if res is not None:
            r = np.array(res, copy=True)
            out["result_finite"] = bool(np.all(np.isfinite(r[~np.isnan(r)]))) if r.size else True
        if case.get("check_lifetime") and sol.success:
            # the documented idiom `radial_solver(...).love`: do the arrays survive the solution object?
            import gc
            view_res, view_love = sol.result, sol.love
            keep_res, keep_love = np.array(view_res, copy=True), np.array(view_love, copy=True)
            del sol, res, love
            sol = None
            gc.collect()
            junk = [np.random.random(keep_res.size * 2) for _ in range(50)]     # reuse the freed heap
            same = bool(np.array_equal(np.asarray(view_res), keep_res, equal_nan=True) and np.array_equal(np.asarray(view_love), keep_love, equal_nan=True))
            out["lifetime_ok"] = same
            del junk
    except BaseException as ex:
        out["outcome"] = "raise"
        out["cls"] = type(ex).__name__
        out["msg"] = str(ex)[:160]
    mx = max(ulp_diff(a, b) for a, b in zip(arrs, before))
    out["inputs_max_ulp"] = mx if math.isfinite(mx) else 1e300
    out["inputs_restored"] = bool(mx <= 4)
    out["radius_top_after"] = float(arrs[0][-1]) if len(arrs[0]) else None
    print("RESULT " + json.dumps(out))


if __name__ == "__main__":
    main()
