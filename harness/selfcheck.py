"""setup_cmd: build the framework from files on disk (nothing to compile): parse every spec with SANY, make scratch dirs,
rebuild stale extensions, warm nothing else."""
import glob
import os
import subprocess
import sys

from .core import VERIF, SPECS, TLA_CP


def main():
    os.makedirs(os.path.join(VERIF, ".scratch"), exist_ok=True)
    os.makedirs(os.path.join(VERIF, "replays"), exist_ok=True)
    os.makedirs(os.path.join(VERIF, "evidence"), exist_ok=True)
    bad = 0
    mods = sorted(glob.glob(os.path.join(SPECS, "*.tla")))
    for m in mods:
        p = subprocess.run(["java", "-cp", TLA_CP, "tla2sany.SANY", os.path.basename(m)], cwd=SPECS,
                           stdout=subprocess.PIPE, stderr=subprocess.STDOUT, text=True, stdin=subprocess.DEVNULL)
        ok = p.returncode == 0 and "*** Errors" not in p.stdout and "Fatal errors" not in p.stdout
        if not ok:
            bad += 1
            print("SANY FAILED:", m)
            print(p.stdout[-1500:])
    print("selfcheck: %d spec modules parsed, %d failed" % (len(mods), bad))
    from . import rebuild_ext
    rebuild_ext.rebuild_if_needed()
    return 1 if bad else 0


if __name__ == "__main__":
    sys.exit(main())
