"""Replay driver for specs/WorldTides.tla (properties C13, C17-history): performs spec actions on real TidalPy
world / orbit objects and projects the real objects onto the spec's observables.

Run as:  python -m harness.world_driver <job.json>   (job = {config, form, behaviours:[[ [action, [params]], ...], ...]})
Writes <job>.out.json with per-step verdicts."""
import json
import math
import sys

import numpy as np

NOT_GIVEN = -1
NOSPIN = -2
RTOL = 1e-11


class World:
    def __init__(self, cfg, form):
        import logging
        import TidalPy  # noqa
        logging.disable(logging.WARNING)
        from TidalPy.structures import build_world, build_from_world
        from TidalPy.utilities.conversions import days2rads
        self.cfg, self.form = cfg, form
        self.sync, self.obl_on, self.ctl = cfg["sync"], cfg["obl_on"], bool(cfg["ctl"])
        # CTL law whose inputs are BOTH fixed_dt and fixed_q ('linear_simple_with_q'): a q id is then a (fixed_dt, fixed_q) pair and
        # moving between ids changes one of the two, or both
        self.withq = cfg["ctl"] == "withq"
        if not hasattr(World, "_star0"):
            World._star0 = build_world('55cnc')
            World._base = build_world('earth_simple')
        self.bfw = build_from_world
        w, o = self.fresh(None)
        # value tables (id -> value); id 0 is whatever the configuration gave
        self.e_vals = [w.eccentricity, 0.1, 0.3]
        self.obl_vals = [w.obliquity if w.obliquity is not None else 0.0, 0.2, 0.5]
        self.n_vals = [w.orbital_frequency, days2rads(50.), days2rads(7.3)]
        self.q_vals = [w.fixed_dt, 100., 3000.] if self.ctl else [w.fixed_q, 50., 300.]
        if self.withq:
            self.q_vals = [(w.fixed_dt, w.fixed_q), (w.fixed_dt, 40.), (250., 40.)]
        # spin values: for a forced-synchronous world spin id i IS the mean motion of orb id i (the code copies it);
        # otherwise three frequencies away from every spin-orbit resonance of the l=2, e^2 mode set, where CPL/CTL
        # responses are discontinuous and a 1-ulp difference between input paths (period vs frequency) is amplified
        if self.sync:
            self.s_vals = self.n_vals
        else:
            self.s_vals = [2.3 * self.n_vals[0], 1.37 * self.n_vals[1], 0.61 * self.n_vals[2]]
            for sv in self.s_vals:
                for nv in self.n_vals:
                    r = 2 * sv / nv
                    assert abs(r - round(r)) > 1e-2, (sv, nv)
        self.table = {}

    def tidecfg(self, qv):
        t = {'model': 'global_approx', 'fixed_q': 125.0, 'use_ctl': self.ctl, 'eccentricity_truncation_lvl': 2,
             'max_tidal_order_l': 2, 'obliquity_tides_on': self.obl_on}
        if getattr(self, "withq", False):
            t['ctl_calc_method'] = 'linear_simple_with_q'
            if qv is not None:
                t['fixed_dt'], t['fixed_q'] = qv
            return t
        if qv is not None:
            t['fixed_dt' if self.ctl else 'fixed_q'] = qv
        return t

    def fresh(self, qv):
        from TidalPy.structures.orbit import PhysicsOrbit
        cfg = {'force_spin_sync': self.sync, 'type': 'simple_tidal', 'mass': 5.972e24, 'slices': 100,
               'tides': self.tidecfg(qv)}
        w = self.bfw(World._base, new_config=cfg)
        star = self.bfw(World._star0, new_config={})
        o = PhysicsOrbit(star, tidal_host=star, tidal_bodies=w)
        return w, o

    # ---- values in the requested form
    def val(self, table, i, which):
        v = table[i]
        if self.form in ("array", "inplace") or (self.form == "mixed" and which in ("e", "spin")):
            if i == 0 and which != "spin":
                return np.array([v, v, v])          # id 0 is the (scalar) configuration value, whatever its shape
            return np.array([v, v * 1.01, v * 0.97])
        return v

    def buf(self, name, value):
        """in-place form: the caller keeps ONE array per keyword, overwrites it and hands the same object back"""
        if self.form != "inplace":
            return value
        b = getattr(self, "_bufs", None)
        if b is None:
            b = self._bufs = {}
        if name not in b:
            b[name] = np.array(value, dtype=float, copy=True)
        else:
            b[name][:] = value
        return b[name]

    def conv(self, kind, n):
        from TidalPy.utilities.conversions import rads2days
        if kind in ("n", "f"):
            return n
        if kind in ("P", "p"):
            return rads2days(n)
        raise ValueError(kind)

    def orb_arg(self, o, w, kind, i):
        n = self.val(self.n_vals, i, "orb")
        if kind == "n":
            return {"orbital_frequency": n}
        if kind == "P":
            return {"orbital_period": self.conv("P", n)}
        return {"semi_major_axis": o.orbital_motion2semi_a(w, n)}

    def spin_arg(self, kind, i):
        s = self.val(self.s_vals, i, "spin")
        return {"spin_frequency": s} if kind == "f" else {"spin_period": self.conv("p", s)}

    # ---- spec actions on the real objects
    def perform(self, w, o, act, p):
        if act == "WSetState":
            sp, spk, ob, ec, orv, ork = p
            kw = {}
            if sp != NOT_GIVEN:
                kw.update(self.spin_arg(spk, sp))
            if ob != NOT_GIVEN:
                kw["obliquity"] = self.val(self.obl_vals, ob, "obl")
            if ec != NOT_GIVEN:
                kw["eccentricity"] = self.val(self.e_vals, ec, "e")
            if orv != NOT_GIVEN:
                kw.update(self.orb_arg(o, w, ork, orv))
            w.set_state(**{k_: self.buf(k_, v_) for k_, v_ in kw.items()})
        elif act == "WorldSetSpin":
            sp, spk = p
            (k, v), = self.spin_arg(spk, sp).items()
            v = self.buf(k, v)
            if (sp + (spk == "p")) % 2 == 0:
                setattr(w, k, v)                       # property setter
            else:
                getattr(w, "set_" + k)(v)              # explicit setter
        elif act == "WorldSetObliquity":
            ob, = p
            v = self.buf("obliquity", self.val(self.obl_vals, ob, "obl"))
            if ob % 2 == 0:
                w.obliquity = v
            else:
                w.set_obliquity(v)
        elif act in ("OSetState", "OrbitSetState") and p[0] != NOT_GIVEN and p[1] != NOT_GIVEN:
            ec, orv, ork = p
            o.set_state(w, eccentricity=self.buf("eccentricity", self.val(self.e_vals, ec, "e")),
                        **{k_: self.buf(k_, v_) for k_, v_ in self.orb_arg(o, w, ork, orv).items()})
        elif act == "OrbitSetState" and p[1] == NOT_GIVEN:
            self.perform(w, o, "OrbitSetEcc", [p[0]])
        elif act == "OrbitSetState":
            self.perform(w, o, "OrbitSetOrb", [p[1], p[2]])
        elif act == "OrbitSetEcc":
            ec, = p
            v = self.buf("eccentricity", self.val(self.e_vals, ec, "e"))
            if ec == 1:
                w.eccentricity = v
            elif ec == 2:
                o.set_state(w, eccentricity=v)
            else:
                o.set_eccentricity(w, v)
        elif act == "OrbitSetOrb":
            orv, ork = p
            (k, v), = self.orb_arg(o, w, ork, orv).items()
            v = self.buf(k, v)
            if orv == 1:
                setattr(w, k, v)
            elif orv == 2:
                o.set_state(w, **{k: v})
            else:
                getattr(o, "set_" + k)(w, v)
        elif act == "WorldSetSpinDeferred":
            sp, spk = p
            (k, v), = self.spin_arg(spk, sp).items()
            getattr(w, "set_" + k)(self.buf(k, v), call_updates=False)
        elif act == "WorldSetObliquityDeferred":
            ob, = p
            w.set_obliquity(self.buf("obliquity", self.val(self.obl_vals, ob, "obl")), call_updates=False)
        elif act in ("SetQ", "SetQDeferred") and self.withq:
            nq = p[0]
            path = p[1] if act == "SetQ" else "deferred"
            dt, qq = self.q_vals[nq]
            # change only what differs from the world's current values: a fixed_q change that is NOT followed by a fixed_dt change must be enough
            todo = [(name, v) for name, v in (("fixed_q", qq), ("fixed_dt", dt)) if getattr(w, name) != v]
            if not todo:
                todo = [("fixed_q", qq)]        # the setter is called even if the value is already stored (e.g. by a deferred call): it runs the update
            for name, v in todo:
                if path == "deferred":
                    getattr(w, "set_" + name)(v, run_updates=False)
                elif path == "world_prop":
                    setattr(w, name, v)
                elif path == "world_set":
                    getattr(w, "set_" + name)(v)
                elif path == "tides_set":
                    getattr(w.tides, "set_" + name)(v)
                else:
                    w.tides.set_state(**{name: v})
        elif act == "SetQDeferred":
            nq, = p
            name = "fixed_dt" if self.ctl else "fixed_q"
            (getattr(w, "set_" + name) if nq % 2 else getattr(w.tides, "set_" + name))(self.q_vals[nq], run_updates=False)
        elif act == "SetQ":
            nq, path = p
            v = self.q_vals[nq]
            name = "fixed_dt" if self.ctl else "fixed_q"
            if path == "world_prop":
                setattr(w, name, v)
            elif path == "world_set":
                getattr(w, "set_" + name)(v)
            elif path == "tides_set":
                getattr(w.tides, "set_" + name)(v)
            else:
                w.tides.set_state(**{name: v})
        else:
            raise ValueError("unknown action " + act)

    # ---- projection
    def observe(self, w, o):
        d = {}
        for k in ['tidal_heating_global', 'dUdM', 'dUdw', 'dUdO', 'spin_frequency', 'orbital_frequency',
                  'semi_major_axis', 'orbital_period', 'eccentricity', 'obliquity', 'tidal_susceptibility']:
            d[k] = getattr(w, k)
        d['k2'] = None if w.global_love_by_orderl is None else w.global_love_by_orderl[2]
        d['neg_imk2'] = None if w.global_negative_imk_by_orderl is None else w.global_negative_imk_by_orderl[2]
        d['dedt'] = o.get_eccentricity_time_derivative(w)
        d['dadt'] = o.get_semi_major_axis_time_derivative(w)
        d['dndt'] = o.get_orbital_motion_time_derivative(w)
        try:
            d['dspindt'] = w.calc_spin_derivative()
        except Exception:
            d['dspindt'] = None
        d['fixed'] = np.array([w.fixed_dt, w.fixed_q]) if self.withq else (w.fixed_dt if self.ctl else w.fixed_q)
        return d

    def expected(self, st):
        """Observables of a freshly built world placed directly in the state `st` = (e, obl, orb, spin, q)."""
        key = tuple(st)
        if key in self.table:
            return self.table[key]
        e, obl, orb, spin, q = st
        w, o = self.fresh(None if q == 0 else self.q_vals[q])
        kw = {}
        # every input is passed explicitly in ONE call (id 0 = the configuration's own value), so that the reference
        # never depends on which change flags a partial call would raise
        if spin != NOSPIN and not self.sync:
            kw["spin_frequency"] = self.val(self.s_vals, spin, "spin")
        kw["eccentricity"] = self.val(self.e_vals, e, "e")
        kw["obliquity"] = self.val(self.obl_vals, obl, "obl")
        kw["orbital_frequency"] = self.val(self.n_vals, orb, "orb")
        if kw:
            w.set_state(**kw)
        d = self.observe(w, o)
        d["_functional"] = self.functional(w, o, st)
        self.table[key] = d
        return d

    def functional(self, w, o, st):
        """The functional API evaluated at the same state (C13: 'and equals the functional API')."""
        from TidalPy.toolbox.quick_tides import quick_tidal_dissipation
        e, obl, orb, spin, q = st
        if spin == NOSPIN or self.withq:
            return None          # (the functional API has no 'linear_simple_with_q' law)
        host = o.tidal_host
        kw = dict(rheology='ctl' if self.ctl else 'cpl', eccentricity=self.val(self.e_vals, e, "e"),
                  obliquity=self.val(self.obl_vals, obl, "obl"), orbital_frequency=self.val(self.n_vals, orb, "orb"),
                  use_obliquity=self.obl_on,
                  max_tidal_order_l=2, eccentricity_truncation_lvl=2, tidal_scale=w.tidal_scale,
                  fixed_k2=w.tides.fixed_k2, calculate_orbit_spin_derivatives=True)
        # a synchronous state is expressed in the functional API by not giving a spin (it then uses the orbital
        # frequency itself); passing an equal-valued but distinct array would keep the zero-frequency modes in the
        # *average* that defines love_number_by_orderl (identity test in calculate_terms) - see DESIGN.md C13 notes
        if not self.sync:
            kw["spin_frequency"] = self.val(self.s_vals, spin, "spin")
        if self.ctl:
            kw["fixed_dt"] = self.q_vals[q]
        else:
            kw["fixed_q"] = self.q_vals[q]
        r = quick_tidal_dissipation(host.mass, w.radius, w.mass, w.gravity_surface, w.density_bulk, w.moi, **kw)
        return {"tidal_heating_global": r["tidal_heating"], "dUdM": r["dUdM"], "dUdw": r["dUdw"], "dUdO": r["dUdO"],
                "k2": r["love_number_by_orderl"][2], "dedt": r["eccentricity_derivative"],
                "dadt": r["semi_major_axis_derivative"], "dspindt": r["spin_rate_derivative"]}


def close(a, b, rtol=RTOL):
    if a is None or b is None:
        return a is None and b is None
    a = np.asarray(a)
    b = np.asarray(b)
    if a.shape != b.shape:
        if a.size == 1 or b.size == 1:
            a, b = np.broadcast_arrays(a, b)
        else:
            return False
    with np.errstate(all="ignore"):
        scale = np.maximum(np.abs(a), np.abs(b))
        ok = (np.abs(a - b) <= rtol * scale) | ((a == b)) | (np.isnan(a) & np.isnan(b))
    return bool(np.all(ok))


def jsonable(v):
    if v is None:
        return None
    a = np.asarray(v)
    if np.iscomplexobj(a):
        return [[float(x.real), float(x.imag)] for x in a.ravel()]
    return [float(x) for x in a.ravel()]


DERIVED = ['tidal_heating_global', 'dUdM', 'dUdw', 'dUdO', 'k2', 'neg_imk2', 'dedt', 'dadt', 'dndt', 'dspindt',
           'tidal_susceptibility']
INPUTS = ['spin_frequency', 'orbital_frequency', 'semi_major_axis', 'orbital_period', 'eccentricity', 'obliquity', 'fixed']


def kepler_ok(W, w, o):
    from TidalPy.constants import G
    a, n, P = o.get_semi_major_axis(w), o.get_orbital_frequency(w), o.get_orbital_period(w)
    if a is None or n is None or P is None:
        return a is None and n is None and P is None, "a/n/P partially unset"
    M = o.tidal_host.mass + w.mass
    r1 = np.max(np.abs(np.asarray(n) ** 2 * np.asarray(a) ** 3 / (G * M) - 1.0))
    r2 = np.max(np.abs(np.asarray(P) * 86400. * np.asarray(n) / (2 * math.pi) - 1.0))
    return (r1 < 1e-12 and r2 < 1e-12), "n^2a^3/G(M+m)-1=%.2e, Pn/2pi-1=%.2e" % (r1, r2)


def replay_behaviour(W, beh, sabotage=False):
    """beh = [[action, params, spec_state], ...]; spec_state = [e, obl, orb, spin, q] after the action.
    Returns list of step records with any mismatch."""
    w, o = W.fresh(None)
    out = []
    for k, (act, params, st) in enumerate(beh):
        rec = {"k": k, "act": act, "params": params, "state": st, "mismatch": []}
        try:
            if sabotage and k > 0 and st != beh[k - 1][2]:
                sabotage = False          # negative control: the real call is skipped once
            elif act != "Init":
                W.perform(w, o, act, params)
            got = W.observe(w, o)
        except Exception as ex:
            import traceback
            rec["mismatch"].append({"what": "exception", "detail": "%s: %s" % (type(ex).__name__, str(ex)[:300]),
                                    "tb": traceback.format_exc()[-800:]})
            out.append(rec)
            break
        pending = len(st) > 5 and bool(st[5])
        exp = W.expected(st[:5])
        # while a deferred (call_updates=False) change is outstanding only the stored inputs are comparable
        for key in (INPUTS if pending else DERIVED + INPUTS):
            if not close(got[key], exp[key]):
                # which fresh state (if any) does the stale value belong to?
                origin = None
                for st2, d2 in list(W.table.items()):
                    if close(got[key], d2[key]) and got[key] is not None:
                        origin = list(st2)
                        break
                rec["mismatch"].append({"what": key, "kind": "derived" if key in DERIVED else "input",
                                        "got": jsonable(got[key]), "fresh": jsonable(exp[key]),
                                        "value_belongs_to_state": origin})
        fn = exp.get("_functional")
        if fn is not None and not pending:
            for key, v in fn.items():
                if not close(exp[key], v, 1e-10):
                    rec["mismatch"].append({"what": key, "kind": "functional_api", "got": jsonable(exp[key]),
                                            "fresh": jsonable(v)})
        ok, msg = kepler_ok(W, w, o)
        if not ok:
            rec["mismatch"].append({"what": "kepler", "kind": "kepler", "detail": msg})
        if W.form != "scalar" and got['tidal_heating_global'] is not None:
            # element 0 of every array result equals the scalar run (scalar table of a sibling World)
            pass
        out.append(rec)
        if rec["mismatch"]:
            break
    return out


def main():
    job = json.load(open(sys.argv[1]))
    groups = job.get("groups") or [{"form": job["form"], "behaviours": job["behaviours"], "sabotage": job.get("sabotage", False)}]
    out_groups = []
    for g in groups:
        W = World(job["config"], g["form"])
        res = []
        for bi, beh in enumerate(g["behaviours"]):
            steps = replay_behaviour(W, beh, sabotage=g.get("sabotage", False))
            bad = [s for s in steps if s["mismatch"]]
            res.append({"behaviour": bi, "steps": len(steps), "bad": bad[:1]})
        # scalar/array agreement: element 0 of the array table equals the scalar table
        sa = []
        if g["form"] != "scalar":
            Ws = World(job["config"], "scalar")
            for st, d in list(W.table.items())[:120]:
                ds = Ws.expected(list(st))
                for key in DERIVED:
                    a, sc = d[key], ds[key]
                    if a is None or sc is None:
                        if (a is None) != (sc is None):
                            sa.append({"state": list(st), "what": key, "array": jsonable(a), "scalar": jsonable(sc)})
                        continue
                    a0 = np.asarray(a).ravel()[0]
                    if not close(a0, sc, 1e-11):
                        sa.append({"state": list(st), "what": key, "array0": jsonable(a0), "scalar": jsonable(sc)})
        out_groups.append({"form": g["form"], "results": res, "table_states": len(W.table), "scalar_array_mismatch": sa[:20]})
    json.dump({"groups": out_groups, "results": out_groups[0]["results"], "scalar_array_mismatch": out_groups[0]["scalar_array_mismatch"],
               "table_states": out_groups[0]["table_states"]}, open(sys.argv[1] + ".out.json", "w"))


if __name__ == "__main__":
    main()
