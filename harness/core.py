"""Shared plumbing: scratch dirs, TLC runner, evidence writer, known-findings matcher, Check context."""
import atexit
import json
import os
import re
import shutil
import subprocess
import sys
import time

VERIF = os.path.dirname(os.path.dirname(os.path.abspath(__file__)))
REPO = os.environ.get("VERIF_REPO", "/repo")
SPECS = os.path.join(VERIF, "specs")
PY = "/venv/bin/python"
TLA_JAR = "/opt/veriftools/tla/tla2tools.jar"
TLA_CP = TLA_JAR + ":/opt/veriftools/tla/CommunityModules-deps.jar"
NCPU = os.cpu_count() or 4


class MachineryError(Exception):
    """Something in the verification machinery failed (exit 2), never a verdict about the repo."""


_scratches = []


def scratch(name):
    d = os.path.join(VERIF, ".scratch", "%s-%d-%d" % (name, os.getpid(), len(_scratches)))
    shutil.rmtree(d, ignore_errors=True)
    os.makedirs(d)
    _scratches.append(d)
    return d


def _cleanup():
    if os.environ.get("VERIF_KEEP_SCRATCH"):
        return
    for d in _scratches:
        shutil.rmtree(d, ignore_errors=True)


atexit.register(_cleanup)


class TLCResult:
    def __init__(self):
        self.stdout = ""
        self.rc = None
        self.generated = 0
        self.distinct = 0
        self.diameter = 0
        self.ok = False             # finished with no error
        self.violated = None        # name of violated invariant/property (or 'deadlock', 'postcondition')
        self.trace = []             # counterexample states [(action line, state dict)]
        self.coverage = {}          # action name -> (distinct, total)
        self.wall = 0.0
        self.printed = []           # PrintT lines (raw text)


_cov_re = re.compile(r'^<(\w+) line (\d+), col \d+ to line \d+, col \d+ of module (\w+)>: (\d+):(\d+)')


def pythonpath():
    """PYTHONPATH for driver subprocesses: /verif first, then whatever the caller set (tools/eval_*: a scratch worktree evaluated with VERIF_REPO)."""
    return VERIF + (os.pathsep + os.environ["PYTHONPATH"] if os.environ.get("PYTHONPATH") else "")


def run_tlc(module, cfg, workdir=None, workers=None, timeout=600, simulate=None, depth=None, dump=None,
            dump_dot=None, coverage=False, env=None, extra=(), heap="6g", deadlock=None, seed=None,
            specs_dir=None, expect_violation=False, dfs=False):
    """Run TLC on specs/<module>.tla with config <cfg> (path or file name in specs dir).

    The spec directory is copied into a scratch dir so that TLC's droppings never touch /verif/specs."""
    from . import tlaval
    specs_dir = specs_dir or SPECS
    wd = workdir or scratch("tlc-" + module)
    for f in os.listdir(specs_dir):
        if f.endswith(".tla") or f.endswith(".cfg"):
            shutil.copy(os.path.join(specs_dir, f), wd)
    if os.path.isabs(cfg):
        shutil.copy(cfg, wd)
        cfg = os.path.basename(cfg)
    meta = os.path.join(wd, "meta-%d" % int(time.time() * 1000))
    jopts = ["-XX:+UseParallelGC", "-Xmx" + heap]
    if dfs:
        jopts.append("-Dtlc2.tool.queue.IStateQueue=StateDeque")
    cmd = ["java"] + jopts + ["-cp", TLA_CP, "tlc2.TLC", "-metadir", meta, "-noGenerateSpecTE",
                              "-config", cfg]
    if workers is None:
        workers = NCPU
    cmd += ["-workers", str(workers)]
    if simulate:
        cmd += ["-simulate", simulate]
    if depth:
        cmd += ["-depth", str(depth)]
    if seed is not None:
        cmd += ["-seed", str(seed)]
    if dump:
        cmd += ["-dump", dump]
    if dump_dot:
        cmd += ["-dump", "dot,actionlabels", dump_dot]
    if coverage:
        cmd += ["-coverage", "1"]
    if deadlock is False:
        cmd += ["-deadlock"]
    cmd += list(extra)
    cmd += [module]
    e = dict(os.environ)
    e.pop("JAVA_TOOL_OPTIONS", None)
    if env:
        e.update(env)
    r = TLCResult()
    t0 = time.time()
    try:
        p = subprocess.run(cmd, cwd=wd, env=e, stdin=subprocess.DEVNULL, stdout=subprocess.PIPE,
                           stderr=subprocess.STDOUT, timeout=timeout, text=True, errors="replace")
    except subprocess.TimeoutExpired as ex:
        subprocess.run(["pkill", "-f", meta], check=False)
        raise MachineryError("TLC timeout after %ss on %s/%s" % (timeout, module, cfg))
    r.wall = time.time() - t0
    r.stdout = p.stdout
    r.rc = p.returncode
    out = p.stdout
    m = None
    for m in re.finditer(r'(\d+) states generated, (\d+) distinct states found', out):
        pass
    if m:
        r.generated, r.distinct = int(m.group(1)), int(m.group(2))
    m = re.search(r'The depth of the complete state graph search is (\d+)', out)
    if m:
        r.diameter = int(m.group(1))
    for line in out.splitlines():
        mm = _cov_re.match(line)
        if mm:
            r.coverage[mm.group(1)] = (int(mm.group(4)), int(mm.group(5)))
    if "Parsing or semantic analysis failed" in out or "Error: TLC threw an unexpected exception" in out:
        raise MachineryError("TLC could not run %s/%s:\n%s" % (module, cfg, out[-2500:]))
    if "Model checking completed. No error has been found." in out or \
            (simulate and p.returncode == 0 and "Error:" not in out):
        r.ok = True
    mv = re.search(r'Error: Invariant (\S+) is violated', out)
    if mv:
        r.violated = mv.group(1)
    elif re.search(r'Error: Action property (\S+) is violated', out):
        r.violated = re.search(r'Error: Action property (\S+) is violated', out).group(1)
    elif re.search(r'Error: Temporal property (\S+) was violated', out):
        r.violated = re.search(r'Error: Temporal property (\S+) was violated', out).group(1)
    elif "Error: Temporal properties were violated" in out:
        r.violated = "temporal"
    elif "Error: Deadlock reached" in out:
        r.violated = "deadlock"
    elif re.search(r'Error: .*[Pp]ostcondition', out) or "POSTCONDITION" in out and "violated" in out:
        r.violated = "postcondition"
    elif "Error:" in out and not r.ok:
        mm = re.search(r'Error: (.*)', out)
        r.violated = None
        if not expect_violation:
            raise MachineryError("TLC error on %s/%s: %s\n%s" % (module, cfg, mm.group(1) if mm else "?", out[-3000:]))
    if r.violated:
        # parse counterexample
        for mm in re.finditer(r'^State (\d+): <?([^\n>]*)>?\n((?:/\\ .*\n(?:(?!State \d+|\n).*\n)*)|(?:\w+ = .*\n))', out, re.M):
            try:
                r.trace.append((mm.group(2).strip(), tlaval.parse_state(mm.group(3))))
            except Exception:
                r.trace.append((mm.group(2).strip(), {"_raw": mm.group(3)}))
    if not r.ok and not r.violated and not expect_violation:
        raise MachineryError("TLC did not finish cleanly on %s/%s (rc=%s)\n%s" % (module, cfg, p.returncode, out[-3000:]))
    r.workdir = wd
    return r


def printed_values(stdout, tag):
    """Extract values printed by PrintT(<<"tag", ...>>) from TLC stdout (robust to multi-line values)."""
    from . import tlaval
    res = []
    key = re.compile(r'<<\s*"%s"' % re.escape(tag))
    i = 0
    n = len(stdout)
    while True:
        mm = key.search(stdout, i)
        if not mm:
            break
        j = mm.start()
        depth = 0
        k = j
        instr = False
        while k < n:
            c = stdout[k]
            if instr:
                if c == "\\":
                    k += 1
                elif c == '"':
                    instr = False
            elif c == '"':
                instr = True
            elif stdout.startswith("<<", k):
                depth += 1
                k += 1
            elif stdout.startswith(">>", k):
                depth -= 1
                k += 1
                if depth == 0:
                    break
            k += 1
        res.append(tlaval.parse_value(stdout[j:k + 1]))
        i = k + 1
    return res


# --------------------------------------------------------------------------------------------

def pyf(f):
    """the undecorated Python function behind a numba dispatcher; a function that is (no longer) jitted is its own Python form"""
    return getattr(f, "py_func", f)


def load_known():
    p = os.path.join(VERIF, "known_findings.json")
    if not os.path.exists(p):
        return []
    return json.load(open(p)).get("findings", [])


class Check:
    """Context for one property check. Collects violations, matches them to known findings, writes evidence."""

    def __init__(self, pid, level, tier, seed):
        self.pid, self.level, self.tier, self.seed = pid, level, tier, seed
        self.t0 = time.time()
        self.violations = []     # (key dict, description, replay path)
        self.known_hit = []
        self.cov = {"evaluations": 0, "distinct_nontrivial": 0, "rule": "", "samples": [],
                    "states": 0, "transitions": 0, "traces_validated_against_impl": 0}
        self.assumptions = []
        self._distinct = set()
        self.known = [k for k in load_known() if k.get("property") == pid and k.get("status", "open") == "open"]
        self.notes = {}
        import glob
        for f in glob.glob(os.path.join(VERIF, "replays", "%s-*.json" % pid)):
            try:
                os.remove(f)
            except FileNotFoundError:     # another run of the same check removed it first
                pass

    # ---- coverage bookkeeping
    def add_tlc(self, r, label=None):
        self.cov["states"] += r.distinct
        self.cov["transitions"] += r.generated
        self.notes.setdefault("tlc_runs", []).append(
            {"run": label, "distinct": r.distinct, "generated": r.generated, "diameter": r.diameter,
             "wall_s": round(r.wall, 2), "coverage": {k: list(v) for k, v in sorted(r.coverage.items())}})

    def case(self, key, nontrivial=True):
        """Count one evaluated case; key identifies it for distinctness."""
        self.cov["evaluations"] += 1
        if nontrivial:
            self._distinct.add(key if isinstance(key, (str, int, tuple)) else json.dumps(key, sort_keys=True, default=str))

    def sample(self, s, limit=6):
        if len(self.cov["samples"]) < limit:
            self.cov["samples"].append(s)

    # ---- verdicts
    def violation(self, key, desc, replay_obj=None):
        """key: dict identifying the failing input / call site / history; compared against known findings."""
        for k in self.known:
            mt = k["match"]
            if all(_match(key.get(a), b) for a, b in mt.items()):
                if k["id"] not in [x["id"] for x in self.known_hit]:
                    self.known_hit.append(k)
                return False
        path = None
        if replay_obj is not None or True:
            os.makedirs(os.path.join(VERIF, "replays"), exist_ok=True)
            path = os.path.join(VERIF, "replays", "%s-%d.json" % (self.pid, len(self.violations)))
            with open(path, "w") as f:
                json.dump({"property": self.pid, "key": key, "desc": desc, "replay": replay_obj}, f, indent=1, default=str)
        self.violations.append((key, desc, path))
        return True

    def extension(self, key, desc, replay_obj=None):
        """A divergence between the code and a specification EXTENSION that lies outside the statement of the listed property: reported
        (EXTENSION-NONCONFORMANCE line, evidence) but not a violation of the property - the exit status is not affected."""
        if not hasattr(self, "ext_notes"):
            self.ext_notes = []
        self.ext_notes.append({"key": key, "desc": desc[:600]})

    def finish(self):
        self.cov["distinct_nontrivial"] = len(self._distinct)
        if getattr(self, "ext_notes", None):
            self.notes["extension_nonconformances"] = self.ext_notes[:20]
        wall = time.time() - self.t0
        ev = {"property_id": self.pid, "tier": self.tier, "seed": self.seed, "level": self.level,
              "coverage": dict(self.cov, **self.notes), "assumptions": self.assumptions, "wall_s": round(wall, 2),
              "violations": len(self.violations)}
        ev["coverage"]["known_findings_reobserved"] = [k["id"] for k in self.known_hit]
        os.makedirs(os.path.join(VERIF, "evidence"), exist_ok=True)
        try:
            import jsonschema
            jsonschema.validate(ev, json.load(open("/root/.vp/EVIDENCE.schema.json")))
        except ImportError:
            pass
        except Exception as ex:
            if os.path.exists("/root/.vp/EVIDENCE.schema.json"):
                raise MachineryError("evidence does not validate: %s" % str(ex)[:500])
        with open(os.path.join(VERIF, "evidence", self.pid + ".json"), "w") as f:
            json.dump(ev, f, indent=1, default=str)
        for k in self.known_hit:
            print("KNOWN-FINDING: property=%s %s [%s]" % (self.pid, k["what"], k["id"]))
        for x in getattr(self, "ext_notes", [])[:10]:
            print("EXTENSION-NONCONFORMANCE (outside the statement of %s, not a violation): %s" % (self.pid, x["desc"][:400]))
        for key, desc, path in self.violations[:20]:
            print("VIOLATION property=%s replay=%s" % (self.pid, path))
            print("  " + desc)
        if len(self.violations) > 20:
            print("  ... %d more violations" % (len(self.violations) - 20))
        print("%s tier=%s seed=%d evaluations=%d distinct=%d states=%d traces=%d wall=%.1fs -> %s" % (
            self.pid, self.tier, self.seed, self.cov["evaluations"], self.cov["distinct_nontrivial"],
            self.cov["states"], self.cov["traces_validated_against_impl"], wall,
            "VIOLATED" if self.violations else "ok"))
        return 1 if self.violations else 0


def _match(actual, pattern):
    if isinstance(pattern, dict) and "any_of" in pattern:
        return actual in pattern["any_of"]
    if isinstance(pattern, dict) and "range" in pattern:
        lo, hi = pattern["range"]
        return actual is not None and lo <= actual <= hi
    if isinstance(pattern, dict) and "prefix" in pattern:
        return isinstance(actual, str) and actual.startswith(pattern["prefix"])
    return actual == pattern


def private_numba_cache(tag):
    """numba's on-disk cache is not safe against many processes creating entries at the same time (seen: IndexError
    inside jitted code after a concurrent first population). Parallel driver processes therefore get a private COPY
    of the shared cache directory; only serial code writes to the shared one."""
    shared = os.environ.get("NUMBA_CACHE_DIR")
    d = os.path.join(scratch("nbc"), "c")
    if shared and os.path.isdir(shared):
        shutil.copytree(shared, d)
    else:
        os.makedirs(d)
    return d


def run_py(code_or_args, timeout=120, env=None, input_json=None, cwd=None):
    """Run a python snippet / module against the repo in a subprocess with stdin closed."""
    e = dict(os.environ)
    e.setdefault("PYTHONHASHSEED", "0")
    e["PYTHONPATH"] = VERIF + os.pathsep + e.get("PYTHONPATH", "")
    if env:
        e.update(env)
    args = [PY] + (["-c", code_or_args] if isinstance(code_or_args, str) else list(code_or_args))
    return subprocess.run(args, stdin=subprocess.DEVNULL if input_json is None else None,
                          input=None if input_json is None else json.dumps(input_json),
                          stdout=subprocess.PIPE, stderr=subprocess.PIPE, timeout=timeout, env=e, text=True, cwd=cwd or VERIF)
