"""The radial solver's own differential equations dy/dr = A(r) y, transcribed line by line from
TidalPy/RadialSolver/derivatives/odes.pyx (solid layers, uniform sphere: g = 4/3 pi G rho r), used by C04's
'starting vectors are regular solutions' predicate. grav_coeff = 4 pi G."""
import math

import numpy as np


def solid_rhs(y, r, l, rho, K, mu, freq, G, static, incompressible):
    y1, y2, y3, y4, y5, y6 = y
    llp1, lp1, lm1 = l * (l + 1.0), l + 1.0, l - 1.0
    g = 4.0 / 3.0 * math.pi * G * rho * r
    r_inv = 1.0 / r
    two_shear_r_inv = 2.0 * mu * r_inv
    density_gravity = rho * g
    dynamic_term = 0.0 if static else -freq * freq * rho * r
    grav_term = 4.0 * math.pi * G * rho
    y1_y3 = 2.0 * y1 - llp1 * y3
    if not incompressible:
        lame = K - 2.0 / 3.0 * mu
        lame_2mu = lame + 2.0 * mu
        dy1 = (y1_y3 * -lame * r_inv + y2) / lame_2mu
        dy2 = r_inv * (y1 * (dynamic_term - 2.0 * density_gravity) + y2 * -2.0 + y4 * llp1 + y5 * rho * lp1 + y6 * -rho * r + dy1 * 2.0 * lame
                       + y1_y3 * (2.0 * (lame + mu) * r_inv - density_gravity))
        dy3 = y1 * -r_inv + y3 * r_inv + y4 / mu
        dy4 = r_inv * (y1 * (density_gravity + two_shear_r_inv) + y3 * (dynamic_term - two_shear_r_inv) + y4 * -3.0 + y5 * -rho + dy1 * -lame
                       + y1_y3 * -lame_2mu * r_inv)
    else:
        dy1 = y1_y3 * -1.0 * r_inv
        dy2 = r_inv * (y1 * (dynamic_term + 12.0 * mu * r_inv - 4.0 * density_gravity) + y3 * llp1 * (density_gravity - 6.0 * mu * r_inv) + y4 * llp1
                       + y5 * rho * lp1 + y6 * -rho * r)
        dy3 = y1 * -r_inv + y3 * r_inv + y4 / mu
        dy4 = r_inv * (y1 * (density_gravity - 3.0 * two_shear_r_inv) + y2 * -1.0 + y3 * (dynamic_term + two_shear_r_inv * (2.0 * llp1 - 1.0)) + y4 * -3.0
                       + y5 * -rho)
    dy5 = y1 * grav_term + y5 * -lp1 * r_inv + y6
    dy6 = r_inv * (y1 * grav_term * lm1 + y6 * lm1 + y1_y3 * grav_term)
    return np.array([dy1, dy2, dy3, dy4, dy5, dy6], dtype=np.complex128)


def liquid_dynamic_rhs(y, r, l, rho, K, freq, G, incompressible):
    """LiquidDynamicCompressible / LiquidDynamicIncompressible of odes.pyx; y = (y1, y2, y5, y6)"""
    y1, y2, y5, y6 = y
    llp1, lp1, lm1 = l * (l + 1.0), l + 1.0, l - 1.0
    g = 4.0 / 3.0 * math.pi * G * rho * r
    r_inv = 1.0 / r
    density_gravity = rho * g
    dyn_no_r = -freq * freq * rho
    dynamic_term = dyn_no_r * r
    grav_term = 4.0 * math.pi * G * rho
    y3 = (y2 - density_gravity * y1 + rho * y5) / dynamic_term
    y1_y3 = 2.0 * y1 - llp1 * y3
    if not incompressible:
        dy1 = y2 / K - y1_y3 * r_inv
        dy2 = y1 * (dyn_no_r - 2.0 * density_gravity * r_inv) + y5 * rho * lp1 * r_inv - y6 * rho - y1_y3 * density_gravity * r_inv
    else:
        dy1 = y1_y3 * -r_inv
        dy2 = r_inv * (y1 * (dynamic_term - 2.0 * density_gravity) + y5 * rho * lp1 + y6 * -rho * r + y1_y3 * -density_gravity)
    dy5 = y1 * grav_term - y5 * lp1 * r_inv + y6
    dy6 = r_inv * (lm1 * (y1 * grav_term + y6) + y1_y3 * grav_term)
    return np.array([dy1, dy2, dy5, dy6], dtype=np.complex128)


def liquid_static_rhs(y, r, l, rho, G):
    """LiquidStatic* of odes.pyx; y = (y5, y7)"""
    y5, y7 = y
    g = 4.0 / 3.0 * math.pi * G * rho * r
    grav_term = 4.0 * math.pi * G * rho / g
    r_inv = 1.0 / r
    return np.array([y5 * (grav_term - (l + 1.0) * r_inv) + y7, y5 * 2.0 * (l - 1.0) * r_inv * grav_term + y7 * ((l - 1.0) * r_inv - grav_term)], dtype=np.complex128)


def start_vectors(layer_type, static, incompressible, kamata, freq, r, rho, K, mu, l, G, nsol=3, nys=6):
    from TidalPy.RadialSolver.starting.driver import find_starting_conditions
    a = np.full((nsol, nys), np.nan, dtype=np.complex128)
    find_starting_conditions(layer_type, int(static), int(incompressible), bool(kamata), float(freq), float(r), float(rho), float(K), complex(mu), int(l), float(G), a)
    return a


def ode_residual_liquid(static, incompressible, kamata, freq, r, rho, K, l, G, h_rel=2e-3):
    """the same predicate for a liquid innermost layer: 1 vector (y5, y7) if static, 2 vectors (y1, y2, y5, y6) if dynamic"""
    nsol, nys = (1, 2) if static else (2, 4)
    h = h_rel * r
    S = {k: start_vectors(1, static, incompressible, kamata, freq, r + k * h, rho, K, 0j, l, G, nsol, nys) for k in (-2, -1, 0, 1, 2)}
    dS = (S[-2] - 8.0 * S[-1] + 8.0 * S[1] - S[2]) / (12.0 * h)
    s0 = S[0]
    scale = np.max(np.abs(s0), axis=0)
    scale = np.where(scale == 0, 1.0, scale)
    scale_d = scale / r
    B = (s0 / scale).T
    out = []
    for i in range(nsol):
        rhs = liquid_static_rhs(s0[i], r, l, rho, G) if static else liquid_dynamic_rhs(s0[i], r, l, rho, K, freq, G, incompressible)
        defect = (dS[i] - rhs) / scale_d
        coef = np.linalg.lstsq(B, defect, rcond=None)[0]
        perp = defect - B @ coef
        out.append(float(np.linalg.norm(perp) / max(np.linalg.norm(rhs / scale_d), 1e-300)))
    return out


def ode_residual(static, incompressible, kamata, freq, r, rho, K, mu, l, G, h_rel=2e-3):
    """For each of the three starting vectors s_i(r): the part of d s_i/dr - A(r) s_i that lies outside span{s_1, s_2, s_3}(r),
    relative to |A s_i| (component-wise scaled). A family of exact regular solutions gives ~1e-10 (finite differences);
    the test is insensitive to an r-dependent normalisation of the vectors."""
    h = h_rel * r
    S = {k: start_vectors(0, static, incompressible, kamata, freq, r + k * h, rho, K, mu, l, G) for k in (-2, -1, 0, 1, 2)}
    dS = (S[-2] - 8.0 * S[-1] + 8.0 * S[1] - S[2]) / (12.0 * h)
    s0 = S[0]
    out = []
    scale = np.max(np.abs(s0), axis=0)                      # per-component scale of the y's
    scale_d = scale / r
    B = (s0 / scale).T                                       # 6 x 3
    for i in range(3):
        rhs = solid_rhs(s0[i], r, l, rho, K, mu, freq, G, static, incompressible)
        defect = (dS[i] - rhs) / scale_d
        coef = np.linalg.lstsq(B, defect, rcond=None)[0]
        perp = defect - B @ coef
        out.append(float(np.linalg.norm(perp) / max(np.linalg.norm(rhs / scale_d), 1e-300)))
    return out
