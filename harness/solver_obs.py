"""Shared machinery of C01 / C03 / C04: the representation space of specs/SolverObs.tla, realised on the real radial solver.

TLC enumerates every representation reachable from the base representation in <= 2 representation changes (per problem), predicts
for each whether the starting-condition dispatch supports it and which observations must agree with the base; this module
replays each representation as ONE radial_solver call (harness/solver_obs_driver.py, 16 processes) and hands the observations
to the property-specific predicates."""
import collections
import json
import os
import threading

from . import core
from .core import MachineryError, run_tlc

COORDS = ("prob", "nondim", "scale", "solveFor", "integ", "tol", "grid", "start", "family", "static", "incomp")
START_LEVELS = [1e-4, 1e-3, 1e-2, 0.1, 0.4]
BASE = dict(nondim=True, scale=0, solveFor=("tidal", "loading"), integ="DOP853", tol=0, grid=0, start=1, family="kamata", static=False, incomp=False)


def rep_key(rep):
    return tuple(tuple(rep[c]) if isinstance(rep[c], (list, tuple)) else rep[c] for c in COORDS) + (rep.get("l", 2), rep.get("freq", 1e-5), json.dumps(rep.get("material", {}), sort_keys=True))


def changed(rep):
    """names of the coordinates in which rep differs from the base representation"""
    return tuple(c for c in COORDS[1:] if (tuple(rep[c]) if isinstance(rep[c], (list, tuple)) else rep[c]) != BASE[c])


def representations(ck, label="SolverObs: representation graph, dispatch prediction, dimension algebra"):
    r = run_tlc("MC_SolverObs", "SolverObs.cfg", workers=8, timeout=600)
    ck.add_tlc(r, label)
    rows = core.printed_values(r.stdout, "REP")
    ys = core.printed_values(r.stdout, "YSCALE")
    if not ys:
        raise MachineryError("no YSCALE row")
    yscale = [int(x) for x in ys[0][1]]
    seen, reps = set(), []
    for row in rows:
        _, prob, nondim, scale, sf, integ, tol, grid, start, family, static, incomp, pred, agree = row
        rep = dict(prob=prob, nondim=bool(nondim), scale=int(scale), solveFor=[str(x) for x in sf], integ=integ, tol=int(tol), grid=int(grid),
                   start=int(start), family=family, static=bool(static), incomp=bool(incomp))
        k = rep_key(rep)
        if k in seen:
            continue
        seen.add(k)
        rep["prediction"], rep["agreement"] = pred, agree
        reps.append(rep)
    if len(reps) < 400:
        raise MachineryError("only %d representations exported" % len(reps))
    return reps, yscale


def run_reps(reps, nproc=16, timeout=1500):
    """-> list of driver outputs aligned with reps"""
    d = core.scratch("solver_obs")
    chunks = [list(range(i, len(reps), nproc)) for i in range(nproc)]
    chunks = [c for c in chunks if c]
    outs = [None] * len(reps)
    errs = []

    def work(ci, idx):
        jf = os.path.join(d, "job%d.json" % ci)
        json.dump({"reps": [{k: v for k, v in reps[i].items() if k not in ("prediction", "agreement")} for i in idx]}, open(jf, "w"))
        p = core.run_py(["-m", "harness.solver_obs_driver", jf], timeout=timeout, env={"OMP_NUM_THREADS": "1", "NUMBA_NUM_THREADS": "1"})
        if p.returncode != 0 or not os.path.exists(jf + ".out.json"):
            errs.append("driver chunk %d exit %s: %s" % (ci, p.returncode, p.stderr[-600:]))
            return
        for i, o in zip(idx, json.load(open(jf + ".out.json"))):
            outs[i] = o

    ts = [threading.Thread(target=work, args=(ci, idx)) for ci, idx in enumerate(chunks)]
    [t.start() for t in ts]
    [t.join() for t in ts]
    if errs:
        raise MachineryError("; ".join(errs)[:1500])
    return outs


def cz(p):
    return complex(p[0], p[1])


def love_of(out, typ):
    return [cz(z) for z in out["love"][typ]]


def love_dist(a, b):
    """max |difference| over (k, h, l); a number that is undefined (NaN: h and l above a static-liquid surface) must be undefined in both"""
    d = 0.0
    for x, y in zip(a, b):
        xn, yn = (x != x), (y != y)
        if xn and yn:
            continue
        if xn or yn:
            return float("inf")
        d = max(d, abs(x - y))
    return d


# ---------------------------------------------------------------------------------------------------------------------
# predicates
# ---------------------------------------------------------------------------------------------------------------------
CONV = 1e-6          # a solve is "converged" (the quantifier of C01/C03/C04) if a 100x tighter tolerance moves k, h, l by <= CONV


def variant_key(rep):
    return (rep["prob"], rep.get("l", 2), rep.get("freq", 1e-5), json.dumps(rep.get("material", {}), sort_keys=True))


def coords(rep, drop=()):
    return tuple((c, tuple(rep[c]) if isinstance(rep[c], (list, tuple)) else rep[c]) for c in COORDS[1:] if c not in drop)


def converged(out):
    lim = 1e-5 if out["rep"]["integ"] == "RK23" else CONV
    return out["status"] == "solved" and out.get("tight_shift") is not None and out["tight_shift"] <= lim


def takeuchi_truncated(rep):
    """the regime of known finding C04-takeuchi-truncated-series (start level x core radius >= 0.1)"""
    return rep["family"] == "takeuchi" and rep["start"] >= 3


def allowed_shift(rep):
    """calibrated on the unchanged tree (DESIGN.md section 7): observed worst 1.6e-6 (RK45 vs DOP853 at rtol 1e-9), 3.4e-6 for a
    doubled grid (O(1/N^2) interface term), 9e-6 with RK23 at rtol 1e-7"""
    a = 5e-6
    if rep["integ"] == "RK23":
        a += 5e-5
    if rep["grid"] != BASE["grid"]:
        a += 1.5e-5
    return a


def describe(rep):
    return {c: rep[c] for c in COORDS} | {k: rep[k] for k in ("l", "freq", "material") if k in rep}


def check_dispatch(ck, pid, reps, outs, min_solved=0.9):
    """spec prediction (NotImplementedError vs supported) against the real dispatch"""
    n_solved = n_pred = 0
    for rep, o in zip(reps, outs):
        ck.case(("dispatch",) + rep_key(rep), True)
        got_nie = (o["status"] == "raised" and o.get("cls") == "NotImplementedError")
        if o["status"] == "raised" and not got_nie:
            ck.violation({"clause": "dispatch", "raised": o.get("cls")}, "representation %s raised %s: %s (spec: %s)" % (describe(rep), o.get("cls"), o.get("msg"), rep["prediction"]), describe(rep))
            continue
        if (rep["prediction"] == "NotImplementedError") != got_nie:
            ck.violation({"clause": "dispatch", "prediction": rep["prediction"], "status": o["status"]},
                         "SolverObs predicts '%s' for representation %s but radial_solver %s" % (rep["prediction"], describe(rep), o["status"] + (" " + o.get("cls", "") if o["status"] == "raised" else "")), describe(rep))
        ck.sample({"representation": describe(rep), "predicted": rep["prediction"], "observed": o["status"], "love": o.get("love")})
        if rep["prediction"] == "solves":
            n_pred += 1
            n_solved += o["status"] == "solved"
    if n_pred and n_solved < min_solved * n_pred:
        raise MachineryError("only %d of %d supported representations solved: the check would be vacuous" % (n_solved, n_pred))
    return n_solved


def index_outs(reps, outs):
    return {rep_key(r): o for r, o in zip(reps, outs)}


def base_of(rep, idx, **extra):
    """the base representation of the same physical problem: every coordinate at its base value, the physical assumptions
    (static / incompressible: they change the equations, not the representation) kept"""
    b = dict(rep)
    b.update(BASE)
    b["solveFor"] = list(BASE["solveFor"])
    b["static"], b["incomp"] = rep["static"], rep["incomp"]
    b.update(extra)
    return idx.get(rep_key(b))


def twin(rep, idx, **changes):
    t = dict(rep)
    t.update(changes)
    return idx.get(rep_key(t))


def rel_vec_mismatch(ya, yb, factors, ref):
    """max_i |ya_i * factor_i - yb_i| / max(|yb_i|, ref_i) over components with a meaningful size"""
    worst, wi = 0.0, None
    for i in range(6):
        a, b = cz(ya[i]) * factors[i], cz(yb[i])
        if any(x != x for x in (a.real, a.imag, b.real, b.imag)):
            if (a != a) != (b != b):
                return float("inf"), i
            continue
        sc = max(abs(b), ref[i])
        if sc == 0.0 or max(abs(a), abs(b)) < 1e-12:
            continue          # identically-zero solutions (free surface; loading above a static ocean) carry only round-off
        if abs(b) < 1e-6 * ref[i]:
            continue
        d = abs(a - b) / sc
        if d > worst:
            worst, wi = d, i
    return worst, wi


def y_places(rep, lim):
    """(where, tolerance): the surface values are as well determined as k, h, l; a mantle slice only to ~1e-3 of the profile's
    maximum (superposition of three growing solutions; calibrated worst 7e-4 on the layered problems) and not at all for the
    K/|mu| = 2e6 uniform body, whose interior y2 / y5 move by percent between equivalent solves at any tolerance. 1e-2 still
    separates every wrong exponent or conversion constant (errors of a factor >= 2) from noise."""
    pl = [("surf", 20 * lim)]
    if rep["prob"] != "uniform_solid":
        pl.append(("mid", 1e-2))
    return pl


def check_c03(ck, reps, outs, yscale):
    idx = index_outs(reps, outs)
    stats = collections.Counter()
    worst = collections.defaultdict(float)
    for rep, o in zip(reps, outs):
        if o["status"] != "solved" or takeuchi_truncated(rep):
            continue
        if not o.get("inputs_restored", True):
            ck.violation({"clause": "inputs_restored"}, "inputs not restored after a successful solve of %s" % describe(rep), describe(rep))
        rp = o.get("repeat")
        if rp is not None:
            ck.case(("repeat",) + rep_key(rep), True)
            if rp.get("raised") or not rp.get("second_equals_first") or not rp.get("equals_fresh_arrays") or not rp.get("input_drift", 0.0) <= 1e-14:
                ck.violation({"clause": "repeat_call", "detail": "raised" if rp.get("raised") else ("results" if not (rp.get("second_equals_first") and rp.get("equals_fresh_arrays")) else "inputs")},
                             "two radial_solver calls with the same array objects: %s for %s" % (rp, describe(rep)), describe(rep))
        b = base_of(rep, idx)
        if b is None or not converged(o) or not converged(b):
            stats["skipped_unconverged"] += 1
            continue
        ch = tuple(c for c in changed(rep) if c not in ("static", "incomp"))
        key = ("same_love",) + rep_key(rep)
        ck.case(key, bool(ch))
        # (1) Love numbers equal the base representation's, type by type (tidal, loading); free vs the 3-type base
        for t in rep["solveFor"]:
            ref = b if t in b["love"] else base_of(rep, idx, solveFor=["tidal", "loading", "free"])
            if ref is None or ref["status"] != "solved":
                continue
            d = love_dist(love_of(o, t), love_of(ref, t))
            # solve_for subset / order only: the same integrated solutions are reused - bit-identical on the unchanged tree
            only_sf = set(ch) <= {"solveFor"}
            lim = 1e-13 if only_sf else allowed_shift(rep)
            worst[("love",) + tuple(c for c in ch if c != "solveFor")] = max(worst[("love",) + tuple(c for c in ch if c != "solveFor")], d)
            if not d <= lim:
                ck.violation({"clause": "same_love", "changed": list(ch), "type": t},
                             "Love numbers of type %s differ by %.3g (> %.1g) between the base representation and %s (changed: %s): %s vs %s" % (
                                 t, d, lim, describe(rep), ch, love_of(o, t), love_of(ref, t)), {"rep": describe(rep), "love": o["love"], "base_love": ref["love"]})
        # (2) Saito-Molodensky
        if "tidal" in rep["solveFor"] and "loading" in rep["solveFor"]:
            T, L = love_of(o, "tidal"), love_of(o, "loading")
            d = abs(L[0] - (T[0] - T[1]))
            if d != d:
                d = 0.0          # h undefined (static-liquid surface): the relation has no content there
            else:
                ck.case(("saito_molodensky",) + rep_key(rep), True)
            worst[("saito_molodensky",)] = max(worst[("saito_molodensky",)], d)
            if not d <= allowed_shift(rep):
                ck.violation({"clause": "saito_molodensky"}, "k_load = %s but k_tidal - h_tidal = %s (|diff| %.3g) for %s" % (L[0], T[0] - T[1], d, describe(rep)), describe(rep))
        # (3) Love numbers are the documented combinations of the returned radial functions' slots (row 6j+i of type j)
        for t in rep["solveFor"]:
            ys = [cz(z) for z in o["surf"][t]]
            k, h, l_ = love_of(o, t)
            g = o["g_surf"]
            d = love_dist([k, h, l_], [ys[4] - 1.0, g * ys[0], g * ys[2]])
            ck.case(("slots", t) + rep_key(rep), True)
            if not d <= 1e-9:
                ck.violation({"clause": "slot_layout", "type": t}, "love[%s] = (%s, %s, %s) is not (y5-1, g y1, g y3) of rows %d.. of the result: %s (%s)" % (
                    t, k, h, l_, 6 * rep["solveFor"].index(t), ys, describe(rep)), describe(rep))
        # (4) exact rescaling: y_i scale with the exponents TLC derived from the dimension algebra
        if rep["scale"] != 0:
            z = twin(rep, idx, scale=0)
            if z is not None and converged(z):
                for t in rep["solveFor"]:
                    f = [10.0 ** (-rep["scale"] * e) for e in yscale]
                    refv = z["ymax"][t]
                    for where, ylim in y_places(rep, allowed_shift(rep)):
                        d, i = rel_vec_mismatch(o[where][t], z[where][t], f, refv)
                        ck.case(("scaling", where, t) + rep_key(rep), True)
                        worst[("scaling", where)] = max(worst[("scaling", where)], d)
                        if not d <= ylim:
                            ck.violation({"clause": "scaling_exponent", "y": i + 1}, "y%d (%s, %s) of the planet rescaled by 10^%d is not 10^(%d*%d) times the unscaled one (rel. mismatch %.3g): %s" % (
                                i + 1, t, where, rep["scale"], rep["scale"], yscale[i], d, describe(rep)), describe(rep))
        # (5) non-dimensionalisation on/off: the re-dimensionalised radial functions agree, not only k, h, l
        if not rep["nondim"]:
            z = twin(rep, idx, nondim=True)
            if z is not None and converged(z):
                for t in rep["solveFor"]:
                    refv = z["ymax"][t]
                    for where, ylim in y_places(rep, allowed_shift(rep)):
                        d, i = rel_vec_mismatch(o[where][t], z[where][t], [1.0] * 6, refv)
                        ck.case(("redim", where, t) + rep_key(rep), True)
                        worst[("redim", where)] = max(worst[("redim", where)], d)
                        if not d <= ylim:
                            ck.violation({"clause": "redimensionalize", "y": i + 1}, "y%d (%s, %s) differs (rel. %.3g) between nondimensionalize=False and True: %s" % (i + 1, t, where, d, describe(rep)), describe(rep))
    ck.notes["c03_worst_observed"] = {"/".join(k): v for k, v in sorted(worst.items(), key=lambda kv: -kv[1])[:25]}
    ck.notes["c03_skipped"] = dict(stats)
    return worst


def check_c04(ck, reps, outs):
    idx = index_outs(reps, outs)
    worst = collections.defaultdict(float)
    n = 0
    for rep, o in zip(reps, outs):
        if o["status"] != "solved":
            continue
        ch = changed(rep)
        if not ({"start", "family"} & set(ch)):
            continue
        # compare with the representation that differs only in start radius / family
        z = twin(rep, idx, start=BASE["start"], family=BASE["family"])
        if z is None or not converged(o) or not converged(z):
            continue
        n += 1
        ck.case(("start",) + rep_key(rep), True)
        for t in rep["solveFor"]:
            d = love_dist(love_of(o, t), love_of(z, t))
            lim = allowed_shift(rep)
            worst[(rep["prob"], rep["family"], rep["start"])] = max(worst[(rep["prob"], rep["family"], rep["start"])], d)
            if not d <= lim:
                ck.violation({"clause": "start_independence", "family": rep["family"], "start": rep["start"], "prob": rep["prob"]},
                             "Love numbers (%s) move by %.3g (> %.1g) when integration starts at level %d (r0 = %g x core radius) with the %s family instead of level %d / %s: %s" % (
                                 t, d, lim, rep["start"], START_LEVELS[rep["start"]], rep["family"], BASE["start"], BASE["family"], describe(rep)),
                             {"rep": describe(rep), "love": o["love"], "reference_love": z["love"]})
            refv = z["ymax"][t]
            for where, ylim in y_places(rep, lim):
                d, i = rel_vec_mismatch(o[where][t], z[where][t], [1.0] * 6, refv)
                worst[("y", where, rep["family"], rep["start"])] = max(worst[("y", where, rep["family"], rep["start"])], d)
                if not d <= ylim:
                    ck.violation({"clause": "start_independence_y", "family": rep["family"], "start": rep["start"], "prob": rep["prob"], "y": i + 1},
                                 "radial function y%d (%s, %s) above the core moves by rel. %.3g when integration starts at level %d with the %s family: %s" % (
                                     i + 1, t, where, d, rep["start"], rep["family"], describe(rep)), describe(rep))
    if n < 100:
        raise MachineryError("only %d converged start-radius / family pairs" % n)
    ck.notes["c04_worst_observed"] = {"/".join(map(str, k)): v for k, v in sorted(worst.items(), key=lambda kv: -kv[1])[:30]}
    return worst


def check_c01(ck, reps, outs, lim_fn=None):
    from .solver_lib import closed_form_love
    worst = collections.defaultdict(float)
    n = skipped_soft = 0
    for rep, o in zip(reps, outs):
        if rep["prob"] != "uniform_solid" or o["status"] != "solved" or "tidal" not in rep["solveFor"] or not converged(o) or takeuchi_truncated(rep):
            continue
        n += 1
        a = 10.0 ** rep["scale"]
        mat = rep.get("material", {})
        mu = complex(*mat.get("mu", [5.0e10, 2.0e9])) * a * a
        l = rep.get("l", 2)
        cf = closed_form_love(l, mu, mat.get("rho", 5000.0), o["g_surf"], o["R"])
        d = love_dist(love_of(o, "tidal"), cf)
        K = mat.get("K", 1.0e17) * a * a
        pgr = mat.get("rho", 5000.0) * o["g_surf"] * o["R"]
        # compressible-limit bodies: measured sensitivity of (k, h, l) to a finite K: 14 max(|mu|, rho g R)/K, and for near-fluid
        # bodies the Shida number moves as 1.8e-3 (rho g R)^2 / (|mu| K)
        phys = 0.0 if rep["incomp"] else 16.0 * max(abs(mu), pgr) / K + 4e-3 * pgr * pgr / (abs(mu) * K)
        if phys > 5e-5:
            skipped_soft += 1
            continue
        lim = allowed_shift(rep) + phys
        ck.case(("closed_form",) + rep_key(rep), True)
        wk = (rep["static"], rep["incomp"], rep["family"], rep["start"], l)
        worst[wk] = max(worst[wk], d)
        if not d <= lim:
            ck.violation({"clause": "closed_form", "family": rep["family"], "start": rep["start"], "static": rep["static"], "incomp": rep["incomp"], "l": l},
                         "uniform sphere, l=%d: solver (k,h,l) = %s, Kelvin/Love closed form = %s (|diff| %.3g > %.1g): %s" % (l, love_of(o, "tidal"), list(cf), d, lim, describe(rep)),
                         {"rep": describe(rep), "love": o["love"], "closed_form": [[z.real, z.imag] for z in cf]})
    if n < 50:
        raise MachineryError("only %d converged uniform-sphere solves" % n)
    ck.notes["c01_skipped_compressibility_allowance_above_5e-5"] = skipped_soft
    ck.notes["c01_worst_observed"] = {"/".join(map(str, k)): v for k, v in sorted(worst.items(), key=lambda kv: -kv[1])[:30]}
    return worst
