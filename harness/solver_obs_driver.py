"""Driver for specs/SolverObs.tla: solve one physical problem in many representations.

python -m harness.solver_obs_driver <job.json>; job = {"reps": [rep, ...]}; rep = {prob, nondim, scale, solveFor, integ, tol, grid,
start, family, static, incomp, l, freq, material (optional overrides)}; writes <job>.out.json with per-rep
{status: solved|failed|raised, cls, love: {type: [k,h,l as [re,im]]}, surf: {type: [y1..y6 at the surface]}}"""
import json
import math
import sys

import numpy as np

START_LEVELS = [1e-4, 1e-3, 1e-2, 0.1, 0.4]
TOLS = [(1e-9, 1e-12), (1e-11, 1e-14)]
GRIDS = [60, 120]


def layers_for(rep):
    name = rep["prob"]
    a = 10.0 ** rep["scale"]
    mat = rep.get("material", {})
    R = mat.get("R", 6.0e6)
    rho = mat.get("rho", 5000.0)
    mu = complex(*mat.get("mu", [5.0e10, 2.0e9]))
    K = mat.get("K", 1.0e17 if name == "uniform_solid" else 2.0e11)
    st, ic = rep["static"], rep["incomp"]
    S = lambda R_, rho_, mu_, K_: dict(type="solid", R=R_ * a, rho=rho_, mu=mu_ * a * a, K=K_ * a * a, static=st, incompressible=ic)
    Lq = lambda R_, rho_, K_: dict(type="liquid", R=R_ * a, rho=rho_, mu=0j, K=K_ * a * a, static=True, incompressible=ic and False)
    if name == "uniform_solid":
        return [S(R, rho, mu, K)]
    if name == "two_solid":
        return [S(0.5 * R, 9000.0, 1.0e11 + 1.0e9j, 4.0e11), S(R, 4000.0, 6.0e10 + 5.0e9j, K)]
    if name == "liquid_core":
        return [Lq(0.5 * R, 9000.0, 4.0e11), S(R, 4000.0, 6.0e10 + 5.0e9j, K)]
    if name == "solid_liquid_solid":
        return [S(0.3 * R, 11000.0, 1.5e11 + 1.0e9j, 6.0e11), Lq(0.55 * R, 9000.0, 4.0e11), S(R, 4000.0, 6.0e10 + 5.0e9j, K)]
    if name == "dyn_liquid_core":
        return [dict(Lq(0.5 * R, 9000.0, 4.0e11), static=False), S(R, 4000.0, 6.0e10 + 5.0e9j, K)]
    if name == "ocean_world":          # static-liquid SURFACE layer (ocean): only y5, hence only k, is defined at the surface
        return [S(0.5 * R, 9000.0, 1.0e11 + 1.0e9j, 4.0e11), S(0.9 * R, 4000.0, 6.0e10 + 5.0e9j, K), dict(type="liquid", R=R * a, rho=1000.0, mu=0j, K=2.2e9 * a * a, static=True, incompressible=False)]
    raise ValueError(name)


def solve_rep(rep):
    from harness.solver_lib import make_planet, solve
    if rep["prob"] == "dyn_liquid_core" and "freq" not in rep:
        rep = dict(rep, freq=1.0e-3)
    layers = layers_for(rep)
    # start radius: level x (top radius of the innermost, homogeneous, layer); make_planet wants it as a fraction of R
    p = make_planet(layers, n_per_layer=GRIDS[rep["grid"]], r0_frac=START_LEVELS[rep["start"]] * layers[0]["R"] / layers[-1]["R"])
    # gravity scales with the length factor automatically (G fixed, same densities)
    rtol, atol = TOLS[rep["tol"]]
    if rep["integ"] == "RK23":
        rtol, atol = max(rtol, 1e-7), max(atol, 1e-10)
    out = {"rep": rep}
    try:
        s = solve(p, rep.get("freq", 1.0e-5), degree_l=rep.get("l", 2), solve_for=tuple(rep["solveFor"]), use_kamata=(rep["family"] == "kamata"),
                  integration_method=rep["integ"], integration_rtol=rtol, integration_atol=atol, nondimensionalize=rep["nondim"], warnings=False)
    except Exception as ex:
        out.update(status="raised", cls=type(ex).__name__, msg=str(ex)[:120])
        return out
    if not s["success"]:
        out.update(status="failed", msg=s["message"][:160])
        return out
    out["status"] = "solved"
    out["love"] = {t: [[float(z.real), float(z.imag)] for z in s["love"][j]] for j, t in enumerate(rep["solveFor"])}
    res = s["result"]
    out["surf"] = {t: [[float(res[6 * j + i, -1].real), float(res[6 * j + i, -1].imag)] for i in range(6)] for j, t in enumerate(rep["solveFor"])}
    mid = res.shape[1] - GRIDS[rep["grid"]] // 2          # middle of the outermost layer (same radius on both grid levels)
    out["ymax"] = {t: [float(np.nanmax(np.abs(res[6 * j + i, :]))) for i in range(6)] for j, t in enumerate(rep["solveFor"])}
    out["mid"] = {t: [[float(res[6 * j + i, mid].real), float(res[6 * j + i, mid].imag)] for i in range(6)] for j, t in enumerate(rep["solveFor"])}
    out["inputs_restored"] = bool(all(np.array_equal(a, b, equal_nan=True) or np.allclose(a, b, rtol=1e-15, atol=0) for a, b in zip(
        s["inputs_after"], (p.radius, p.density, p.gravity, p.bulk, p.shear))))
    out["g_surf"], out["R"], out["rho_bulk"] = p.g_surf, p.R, p.bulk_density
    # second call in the same process with the SAME array objects (what an evolution loop does): bit-identical results, and the arrays
    # still hold the caller's values afterwards
    if rep.get("repeat", True):
        try:
            from TidalPy.RadialSolver import radial_solver
            arrs = [p.radius.copy(), p.density.copy(), p.gravity.copy(), p.bulk.copy(), p.shear.copy()]
            outs_rep = []
            for _ in range(2):
                sol = radial_solver(arrs[0], arrs[1], arrs[2], arrs[3], arrs[4], float(rep.get("freq", 1.0e-5)), float(p.bulk_density), p.layer_types, p.is_static,
                                    p.is_incompressible, p.upper_radius, degree_l=rep.get("l", 2), solve_for=tuple(rep["solveFor"]), use_kamata=(rep["family"] == "kamata"),
                                    integration_method=rep["integ"], integration_rtol=rtol, integration_atol=atol, nondimensionalize=rep["nondim"], warnings=False)
                outs_rep.append((bool(sol.success), np.array(sol.result, copy=True) if sol.success else None))
                del sol
            same = outs_rep[0][0] == outs_rep[1][0] and (outs_rep[0][1] is None or np.array_equal(outs_rep[0][1], outs_rep[1][1], equal_nan=True))
            first_same = outs_rep[0][1] is not None and np.array_equal(outs_rep[0][1], res, equal_nan=True)
            drift = max(float(np.max(np.abs(a - b) / np.maximum(np.abs(b), 1e-300))) for a, b in zip(arrs, (p.radius, p.density, p.gravity, p.bulk, p.shear)))
            out["repeat"] = {"second_equals_first": bool(same), "equals_fresh_arrays": bool(first_same), "input_drift": drift}
        except Exception as ex:
            out["repeat"] = {"raised": type(ex).__name__}
    # convergence filter of the properties' quantifier: the same call with a 100x tighter tolerance
    try:
        s2 = solve(p, rep.get("freq", 1.0e-5), degree_l=rep.get("l", 2), solve_for=tuple(rep["solveFor"]), use_kamata=(rep["family"] == "kamata"),
                   integration_method=rep["integ"], integration_rtol=rtol / 100.0, integration_atol=atol / 100.0, nondimensionalize=rep["nondim"],
                   warnings=False)
        if s2["success"]:
            same_nan = np.array_equal(np.isnan(s2["love"]), np.isnan(s["love"]))
            dl = np.abs(s2["love"] - s["love"])
            out["tight_shift"] = (float(np.nanmax(dl)) if np.any(~np.isnan(dl)) else 0.0) if same_nan else None
        else:
            out["tight_shift"] = None
    except Exception:
        out["tight_shift"] = None
    return out


def main():
    import logging
    import TidalPy  # noqa
    logging.disable(logging.CRITICAL)
    job = json.load(open(sys.argv[1]))
    res = [solve_rep(r) for r in job["reps"]]
    json.dump(res, open(sys.argv[1] + ".out.json", "w"))


if __name__ == "__main__":
    main()
