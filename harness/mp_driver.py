"""Fault-injection driver for TidalPy's multiprocessing_run (property C18).

Usage: python -m harness.mp_driver <scenarios.json> <outroot>
Runs every scenario: a sequence of incarnations of the same multiprocessing_run call on one directory, each in a
forked child that is its own session (setsid); file-operation proxies injected into the module's namespace log one
ndjson event per operation (single O_APPEND write) and SIGKILL the whole process group when the scenario's kill
specification matches.  Writes <outroot>/<id>/trace.json = {meta..., events: [...]}.

No code of /repo is modified: the proxies replace the names `open`, `os`, `np`, `convert_time_to_hhmmss` in the
namespace of TidalPy.utilities.multiprocessing.multiprocessing for the life of the child process only.
"""
import json
import os
import re
import signal
import sys
import time
import types
import zipfile

NX, NY = 4, 2          # default grid: 4 x 2 = 8 cases
DIMS = {"list": (4, 2), "tuple": (4, 2), "empty_tuple": (4, 2), "grid3": (3, 2, 2)}     # grid3: 3 x 2(log) x 2 = 12 cases (two-digit case numbers)


def dims(kind):
    return DIMS[kind]


def ncase(kind):
    n = 1
    for d in dims(kind):
        n *= d
    return n


def axes(kind):
    """the values of every axis, in grid order"""
    if kind == "grid3":
        return [sorted([-1.0, 1.0, 0.25]), list(YV), [0.0, 3.0]]
    return [xvals(kind), list(YV)]


def unravel(case, kind):
    idx = []
    for d in reversed(dims(kind)):
        case, r = divmod(case, d)
        idx.append(r)
    return tuple(reversed(idx))


def grid_inputs(kind):
    """x: linear -1..1 with two end points plus two must-include values written in the formats str() produces for
    small / negative floats (exponent notation), given as list or tuple; or four points and an empty tuple."""
    from TidalPy.utilities.multiprocessing import MultiprocessingInput
    if kind == "list":
        x = MultiprocessingInput('x', 'X', -1, 1, 'linear', [2.5e-05, 0.5], 2)
    elif kind == "tuple":
        x = MultiprocessingInput('x', 'X', -1, 1, 'linear', (-3e-07, 0.5), 2)
    elif kind == "empty_tuple":
        x = MultiprocessingInput('x', 'X', -1, 1, 'linear', tuple(), 4)
    elif kind == "grid3":
        x = MultiprocessingInput('x', 'X', -1, 1, 'linear', (0.25,), 2)
    else:
        raise ValueError(kind)
    y = MultiprocessingInput('y', 'Y', 1, 2, 'log', [] if kind == "list" else tuple(), 2)
    if kind == "grid3":
        return (x, y, MultiprocessingInput('z', 'Z', 0, 3, 'linear', tuple(), 2))
    return (x, y)


def xvals(kind):
    import numpy as np
    if kind == "list":
        return sorted([-1.0, 1.0, 2.5e-05, 0.5])
    if kind == "tuple":
        return sorted([-1.0, 1.0, -3e-07, 0.5])
    return [float(v) for v in np.linspace(-1, 1, 4)]


YV = [10.0, 100.0]


def combine(vals):
    v = vals[0] * 1000.0 + vals[1]
    if len(vals) > 2:
        v += vals[2] * 1.0e6
    return v


def expected_value(case, kind):
    ax = axes(kind)
    return combine([ax[d][i] for d, i in enumerate(unravel(case, kind))])


def case_of_index(idx, kind="list"):
    idx = tuple(int(k) for k in idx)
    c = 0
    for d, i in zip(dims(kind), idx):
        c = c * d + i
    return c


class Ctx:
    def __init__(self, scen, root, inc):
        self.scen, self.root, self.inc = scen, root, inc
        self.study_dir = os.path.join(root, "study")
        self.trace_path = os.path.join(root, "events.ndjson")
        self.seq = 0
        self.kill = [k for k in scen.get("kills", []) if k["inc"] == inc]
        self.counts = {}

    def emit(self, ev, c=None, **kw):
        self.seq += 1
        rec = {"inc": self.inc, "pid": os.getpid(), "seq": self.seq, "ev": ev}
        if c is not None:
            rec["c"] = c
        rec.update(kw)
        data = (json.dumps(rec) + "\n").encode()
        fd = os.open(self.trace_path, os.O_WRONLY | os.O_APPEND | os.O_CREAT, 0o644)
        try:
            os.write(fd, data)
        finally:
            os.close(fd)
        for k in self.kill:
            if k["ev"] == ev and k.get("c") == c:
                os.killpg(os.getpgrp(), signal.SIGKILL)
                time.sleep(10)


_run_re = re.compile(r'_run_(\d+)')


def case_from_path(p):
    m = _run_re.search(str(p))
    return int(m.group(1)) if m else None


def install(ctx):
    import builtins
    import numpy as real_np
    import TidalPy.utilities.multiprocessing.multiprocessing as M

    real_open = builtins.open
    real_os = os

    class FileProxy:
        def __init__(self, f, path, mode):
            self._f, self._path, self._mode = f, path, mode
            self._base = real_os.path.basename(path)
            self._buf = []

        def write(self, s):
            self._buf.append(s)
            return self._f.write(s)

        def __getattr__(self, n):
            return getattr(self._f, n)

        def __iter__(self):
            return iter(self._f)

        def __enter__(self):
            return self

        def __exit__(self, *a):
            self._f.close()
            txt = "".join(self._buf)
            b = self._base
            if b == "tpy_mp.log" and self._mode == "w":
                ctx.emit("HeaderEnd")
            elif b == "tpy_mp.log" and self._mode == "a" and ctx.scen.get("dirs_events") and "Study successfully completed" in txt:
                ctx.emit("Completed")
            elif b == "tpy_mp.log" and self._mode == "a":
                m = re.search(r'Working on Case\s+(\d+) of', txt)
                if m:
                    ctx.emit("WLog", int(m.group(1)))
                elif re.search(r'Run: (\d+) completed successfully', txt):
                    ctx.emit("WLogOk", int(re.search(r'Run: (\d+) completed', txt).group(1)))
                elif "Restarted on" in txt:
                    ctx.emit("ParseOk")
            elif b == "error.log":
                ctx.emit("WErr", case_from_path(self._path))
            return False

    def traced_open(path, mode="r", *a, **kw):
        b = real_os.path.basename(str(path))
        f = real_open(path, mode, *a, **kw)
        if b == "tpy_mp.log" and mode == "w":
            ctx.emit("HeaderBegin")
        elif b == "mp_success.log" and mode == "w":
            ctx.emit("WMarker", case_from_path(path))      # existence is what the code tests
        if b in ("tpy_mp.log", "error.log"):
            return FileProxy(f, str(path), mode)
        return f

    class OsProxy(types.ModuleType):
        def __getattr__(self, n):
            return getattr(real_os, n)

    osp = OsProxy("os_proxy")

    def makedirs(path, *a, **kw):
        r = real_os.makedirs(path, *a, **kw)
        c = case_from_path(path)
        if c is not None and "index_" in str(path):
            ctx.emit("WMkDir", c)
        elif ctx.scen.get("dirs_events"):
            ctx.emit("MkPPDir" if real_os.path.basename(str(path)) == "post_processing" else "MkStudyDir")
        return r

    def listdir(path):
        r = real_os.listdir(path)
        markers = sorted(case_from_path(d) for d in r
                         if "_run_" in d and real_os.path.isfile(real_os.path.join(path, d, "mp_success.log")))
        ctx.emit("Scan", markers=markers)
        return r
    osp.makedirs = makedirs
    osp.listdir = listdir

    class NpProxy(types.ModuleType):
        def __getattr__(self, n):
            return getattr(real_np, n)

    npp = NpProxy("np_proxy")

    def savez(path, *a, **kw):
        c = case_from_path(path)
        # the file comes into existence incomplete: emulate the window with a truncated archive
        with real_open(path, "wb") as f:
            f.write(b"PK\x03\x04 truncated")
        ctx.emit("WResBegin", c)
        r = real_np.savez(path, *a, **kw)
        ctx.emit("WResEnd", c)
        return r

    def load(path, *a, **kw):
        c = case_from_path(path)
        try:
            r = real_np.load(path, *a, **kw)
        except BaseException as ex:
            ctx.emit("Load", c, ok=False, exc=type(ex).__name__)
            raise
        ctx.emit("Load", c, ok=True)
        return r
    npp.savez = savez
    npp.load = load

    real_conv = M.convert_time_to_hhmmss
    state = {"n": 0}

    def conv(*a, **kw):
        state["n"] += 1
        if state["n"] == 1:
            ctx.emit("PoolDone")
        return real_conv(*a, **kw)

    M.open = traced_open
    M.os = osp
    M.np = npp
    M.convert_time_to_hhmmss = conv
    if ctx.scen.get("pool") == "stdlib":
        M.pathos_installed = False
    return M


def make_study(ctx):
    fbi = ctx.scen.get("fail_by_inc")
    fail = set(fbi[ctx.inc - 1]) if fbi and ctx.inc - 1 < len(fbi) else set(ctx.scen["fail"])      # transient failures: per incarnation
    delays = ctx.scen.get("delays", {})
    counter_dir = os.path.join(ctx.root, "counters")

    def study(dir_, *args):
        vals = [float(v) for v in args[:len(args) // 2]]
        c = case_from_path(dir_)
        fd = os.open(os.path.join(counter_dir, str(c)), os.O_WRONLY | os.O_APPEND | os.O_CREAT, 0o644)
        os.write(fd, b"x")
        os.close(fd)
        d = delays.get(str(c), 0)
        if d:
            time.sleep(d / 1000.0)
        if c in fail:
            ctx.emit("WExec", c, ok=False)
            raise RuntimeError("case %d fails by construction" % c)
        ctx.emit("WExec", c, ok=True)
        return {"val": combine(vals), "xy": vals}
    return study


def normalise_results(res, kind):
    """Project the list returned by multiprocessing_run onto [cn, case-of-index, valclass, type]."""
    import numpy as np
    out = []
    for r in res:
        if hasattr(r, "case_number"):
            cn, idx, val, typ = r.case_number, r.input_index, r.result, "MultiprocessingOutput"
        else:
            cn, idx, val, typ = r[0], r[1], r[2], type(r).__name__
        case = case_of_index(idx, kind)
        if not (0 <= case < ncase(kind)) or len(tuple(idx)) != len(dims(kind)) or not all(0 <= int(i) < d for i, d in zip(idx, dims(kind))):
            out.append({"cn": int(cn), "case": int(case), "val": "Phantom", "type": typ})
            continue
        if val is None:
            vc = "None"
        else:
            try:
                v = float(np.asarray(val["val"]))
                xy = [float(t) for t in np.asarray(val["xy"]).ravel()]
                ax = axes(kind)
                ok = (v == expected_value(case, kind)) and xy == [ax[d][i] for d, i in enumerate(unravel(case, kind))]
                vc = "F" if ok else "Bad"
            except Exception as ex:       # noqa
                vc = "Bad"
        out.append({"cn": int(cn), "case": case, "val": vc, "type": typ})
    return out


def snapshot(root, kind="list"):
    import numpy as np
    sd = os.path.join(root, "study")
    hdr = "none"
    lp = os.path.join(sd, "tpy_mp.log")
    if os.path.isfile(lp):
        txt = open(lp).read()
        hdr = "full" if ('------Inputs Below------\n' in txt and '\n------------\n' in txt) else "partial"
    cases = {}
    phantom = []
    for c in range(ncase(kind)):
        cases[c] = {"dir": False, "marker": False, "res": "none", "err": False}
    if os.path.isdir(sd):
        for d in os.listdir(sd):
            c = case_from_path(d)
            if c is None or not d.startswith("index_"):
                continue
            p = os.path.join(sd, d)
            if c not in cases:
                phantom.append(d)          # a case directory that is not part of the study's grid
                continue
            s = cases[c]
            s["dir"] = True
            s["marker"] = os.path.isfile(os.path.join(p, "mp_success.log"))
            s["err"] = os.path.isfile(os.path.join(p, "error.log"))
            rp = os.path.join(p, "mp_results.npz")
            if os.path.isfile(rp):
                try:
                    with np.load(rp) as z:
                        z["val"]
                    s["res"] = "full"
                except Exception:
                    s["res"] = "partial"
    cnt = {}
    cd = os.path.join(root, "counters")
    for c in range(ncase(kind)):
        p = os.path.join(cd, str(c))
        cnt[c] = os.path.getsize(p) if os.path.isfile(p) else 0
    return {"hdr": hdr, "dir": [cases[c]["dir"] for c in sorted(cases)],
            "marker": [cases[c]["marker"] for c in sorted(cases)],
            "res": [cases[c]["res"] for c in sorted(cases)],
            "errf": [cases[c]["err"] for c in sorted(cases)],
            "execs": [cnt[c] for c in sorted(cnt)], "phantom_dirs": sorted(phantom)}


def group_alive(pgid):
    """True iff some non-zombie process still belongs to process group pgid."""
    for d in os.listdir("/proc"):
        if not d.isdigit():
            continue
        try:
            with open("/proc/%s/stat" % d) as f:
                st = f.read()
        except OSError:
            continue
        rest = st[st.rindex(")") + 2:].split()
        if int(rest[2]) == pgid and rest[0] not in ("Z", "X"):
            return True
    return False


def run_incarnation(scen, root, inc):
    """In the forked child: own session, proxies, one call of multiprocessing_run."""
    os.setsid()
    devnull = os.open(os.devnull, os.O_RDWR)
    os.dup2(devnull, 0)
    log = os.open(os.path.join(root, "stdout_%d.log" % inc), os.O_WRONLY | os.O_CREAT | os.O_TRUNC, 0o644)
    os.dup2(log, 1)
    os.dup2(log, 2)
    ctx = Ctx(scen, root, inc)
    M = install(ctx)
    study = make_study(ctx)
    outcome = {"inc": inc}
    try:
        res = M.multiprocessing_run(ctx.study_dir, "verif", study, grid_inputs(scen["kind"]),
                                    force_restart=False, verbose=False, max_procs=scen["procs"],
                                    perform_memory_check=False, avoid_crashes=True)
        if res is None:
            ctx.emit("StudyCrashed")
            outcome["status"] = "study_crashed"
        else:
            recs = normalise_results(res, scen["kind"])
            ctx.emit("Finish", out=recs)
            outcome["status"] = "returned"
    except BaseException as ex:
        import traceback
        ctx.emit("Raised", exc=type(ex).__name__, msg=str(ex)[:200])
        outcome["status"] = "raised"
        outcome["tb"] = traceback.format_exc()[-1500:]
    with open(os.path.join(root, "outcome_%d.json" % inc), "w") as f:
        json.dump(outcome, f)
    os._exit(0)


def append_event(root, rec):
    with open(os.path.join(root, "events.ndjson"), "a") as f:
        f.write(json.dumps(rec) + "\n")


def run_scenario(scen, outroot):
    root = os.path.join(outroot, str(scen["id"]))
    os.makedirs(os.path.join(root, "counters"))
    n_inc = scen["incs"]
    statuses = []
    for inc in range(1, n_inc + 1):
        append_event(root, {"inc": inc, "pid": 0, "seq": 0, "ev": "Start"})
        pid = os.fork()
        if pid == 0:
            try:
                run_incarnation(scen, root, inc)
            finally:
                os._exit(3)
        deadline = time.time() + scen.get("timeout", 120)
        status = None
        while time.time() < deadline:
            w, st = os.waitpid(pid, os.WNOHANG)
            if w:
                status = st
                break
            time.sleep(0.005)
        if status is None:
            try:
                os.killpg(pid, signal.SIGKILL)
            except ProcessLookupError:
                pass
            os.waitpid(pid, 0)
            statuses.append("timeout")
            append_event(root, {"inc": inc, "pid": 0, "seq": 0, "ev": "Timeout"})
            break
        # make sure the whole group is gone before looking at the disk (pathos keeps its pool alive after a
        # normal return; pool workers of a killed study may linger as zombies that nobody reaps)
        try:
            os.killpg(pid, signal.SIGKILL)
        except (ProcessLookupError, PermissionError):
            pass
        for _ in range(2000):
            if not group_alive(pid):
                break
            time.sleep(0.002)
        snap = snapshot(root, scen["kind"])
        if os.WIFSIGNALED(status):
            statuses.append("killed")
            append_event(root, dict({"inc": inc, "pid": 0, "seq": 0, "ev": "Crash"}, **snap))
        else:
            oc = {}
            try:
                oc = json.load(open(os.path.join(root, "outcome_%d.json" % inc)))
            except Exception:
                oc = {"status": "no_outcome(exit %s)" % os.WEXITSTATUS(status)}
            statuses.append(oc.get("status"))
            append_event(root, dict({"inc": inc, "pid": 0, "seq": 0, "ev": "End", "status": oc.get("status")}, **snap))
            if oc.get("status") == "raised":
                with open(os.path.join(root, "traceback_%d.txt" % inc), "w") as f:
                    f.write(oc.get("tb", ""))
    events = [json.loads(l) for l in open(os.path.join(root, "events.ndjson")) if l.strip()]
    trace = dict(scen, statuses=statuses, events=events, ncase=ncase(scen["kind"]))
    with open(os.path.join(root, "trace.json"), "w") as f:
        json.dump(trace, f)
    return trace


def main():
    scens = json.load(open(sys.argv[1]))
    outroot = sys.argv[2]
    import TidalPy  # noqa  (import once, fork per incarnation)
    import TidalPy.utilities.multiprocessing.multiprocessing  # noqa
    import numpy  # noqa
    from TidalPy.utilities.numpy_helper.array_other import find_nearest
    find_nearest(numpy.linspace(0., 1., 3), 0.5)      # JIT/cache-load once, before forking
    for s in scens:
        try:
            run_scenario(s, outroot)
        except Exception as ex:
            import traceback
            traceback.print_exc()
            with open(os.path.join(outroot, "driver_error_%s.txt" % s["id"]), "w") as f:
                f.write(traceback.format_exc())


if __name__ == "__main__":
    main()
