"""Exact rational evaluation (fractions.Fraction) of the definition in specs/Hansen.tla: truncated power series of
G_lpq(e)^2.  Independent of /repo.  `python -m harness.hansen_exact` regenerates harness/data/hansen_g2.json; every check run
validates the file against TLC's residues mod p for the degrees of its tier (a mismatch is a machinery failure)."""
import json
import os
import sys
from fractions import Fraction as Fr
from math import factorial

N = 22


class P:
    """Truncated power series in e (order N) with Fraction coefficients."""
    __slots__ = ('c',)

    def __init__(s, c):
        s.c = list(c) + [Fr(0)] * (N + 1 - len(c))

    @staticmethod
    def lift(x):
        return x if isinstance(x, P) else P([Fr(x)])

    def __add__(s, o):
        o = P.lift(o)
        return P([a + b for a, b in zip(s.c, o.c)])
    __radd__ = __add__

    def __neg__(s):
        return P([-a for a in s.c])

    def __sub__(s, o):
        return s + (-P.lift(o))

    def __rsub__(s, o):
        return P.lift(o) - s

    def __mul__(s, o):
        o = P.lift(o)
        r = [Fr(0)] * (N + 1)
        for i, a in enumerate(s.c):
            if a == 0:
                continue
            for j, b in enumerate(o.c):
                if i + j > N:
                    break
                if b:
                    r[i + j] += a * b
        return P(r)
    __rmul__ = __mul__

    def inv(s):
        a0 = s.c[0]
        r = [Fr(0)] * (N + 1)
        r[0] = 1 / a0
        for k in range(1, N + 1):
            r[k] = -sum(s.c[j] * r[k - j] for j in range(1, k + 1)) / a0
        return P(r)

    def __truediv__(s, o):
        return s * P.lift(o).inv()

    def __rtruediv__(s, o):
        return P.lift(o) * s.inv()

    def __pow__(s, k):
        if isinstance(k, float) and k == int(k):
            k = int(k)
        if isinstance(k, Fr) and k.denominator == 1:
            k = int(k)
        if not isinstance(k, int):
            return s.rpow(Fr(k).limit_denominator(64))
        if k < 0:
            return (s ** (-k)).inv()
        r = P([1])
        b = s
        while k:
            if k & 1:
                r = r * b
            b = b * b
            k >>= 1
        return r

    def rpow(s, a):
        """s ** a for rational a, s.c[0] == 1  (binomial series: used by closed-form table entries like (1-e^2)**-1.5)"""
        if s.c[0] != 1:
            raise ValueError("rational power of a series whose constant term is not 1")
        x = P([0] + s.c[1:])
        r = P([1])
        term = P([1])
        coef = Fr(1)
        for k in range(1, N + 1):
            coef = coef * (a - (k - 1)) / k
            term = term * x
            r = r + term * coef
        return r

    def sqrt(s):
        return s.rpow(Fr(1, 2))


e = P([0, 1])


def _binom_half(k):
    r = Fr(1)
    for i in range(k):
        r *= (Fr(1, 2) - i)
    return r / factorial(k)


_sq = P([0])
for _k in range(0, N // 2 + 1):
    _c = [Fr(0)] * (N + 1)
    _c[2 * _k] = _binom_half(_k) * (-1) ** _k
    _sq = _sq + P(_c)                      # sqrt(1 - e^2)
beta = P((P([1]) - _sq).c[1:] + [Fr(0)])   # (1 - sqrt(1-e^2)) / e
_bp = [P([1])]
for _i in range(1, N + 2):
    _bp.append(_bp[-1] * beta)


def gbinom(A, a):
    r = Fr(1)
    for i in range(a):
        r *= (A - i)
    return r / factorial(a)


def bessel_J(s, k):
    if s < 0:
        return bessel_J(-s, k) * ((-1) ** (-s))
    c = [Fr(0)] * (N + 1)
    j = 0
    while 2 * j + s <= N:
        c[2 * j + s] = Fr(k, 2) ** (2 * j + s) * Fr((-1) ** j, factorial(j) * factorial(j + s))
        j += 1
    return P(c)


def hansen(n, m, k):
    A = n - m + 1
    B = n + m + 1
    tot = P([0])
    for s in range(-N, N + 1):
        Js = bessel_J(s, k)
        if all(c == 0 for c in Js.c):
            continue
        t = k - m - s
        coef = P([0])
        for b in range(0, N + 1):
            a = b + t
            if a < 0:
                continue
            if a + b > N:
                break
            coef = coef + _bp[a + b] * (gbinom(A, a) * gbinom(B, b) * (-1) ** (a + b))
        tot = tot + Js * coef
    one_b2 = P([1]) + beta * beta
    return (one_b2 ** (-(n + 1))) * tot


def G2(l, p, q):
    X = hansen(-(l + 1), l - 2 * p, l - 2 * p + q)
    return X * X


