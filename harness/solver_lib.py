"""Helpers shared by the radial-solver checks (C01-C06, C12): planet construction and safe solver calls.

Grid convention (learned the hard way, see DESIGN.md section 2): every layer carries its own slices; the upper layer of an
interface starts at nextafter(interface radius) so that the interface radius is present on both sides, and gravity is the
analytic enclosed-mass gravity. Solver results alias memory owned by the solution object: always keep the object alive and
copy what is read."""
import math

import numpy as np

G = 6.67430e-11


class Planet:
    pass


def make_planet(layers, n_per_layer=40, r0_frac=1e-3, n_first=None):
    """layers: list of dicts {type: 'solid'|'liquid', R: top radius, rho, mu (complex), K, static (bool), incompressible (bool)}.
    Returns Planet with the arrays radial_solver wants."""
    rs, rho, mu, K = [], [], [], []
    R_prev = 0.0
    R_tot = layers[-1]["R"]
    for i, L in enumerate(layers):
        if isinstance(n_per_layer, (list, tuple)):
            n = int(n_per_layer[i])
        else:
            n = (n_first or n_per_layer) if i == 0 else n_per_layer
        lo = r0_frac * R_tot if i == 0 else np.nextafter(R_prev, np.inf)
        # the solver assigns slices to layers by `radius > upper_radius` AFTER dividing both by the planet radius when it
        # non-dimensionalises: make sure the first slice of the upper layer stays above the interface there too
        while i > 0 and not (lo / R_tot > R_prev / R_tot):
            lo = np.nextafter(lo, np.inf)
        r = np.linspace(lo, L["R"], n)
        rs.append(r)
        rho.append(np.full(n, float(L["rho"])))
        mu.append(np.full(n, complex(L["mu"])))
        K.append(np.full(n, float(L["K"])))
        R_prev = L["R"]
    p = Planet()
    p.layers = layers
    p.radius = np.ascontiguousarray(np.concatenate(rs))
    p.density = np.ascontiguousarray(np.concatenate(rho))
    p.shear = np.ascontiguousarray(np.concatenate(mu).astype(np.complex128))
    p.bulk = np.ascontiguousarray(np.concatenate(K))
    # analytic gravity from enclosed mass
    g = np.empty_like(p.radius)
    for j, r in enumerate(p.radius):
        m = 0.0
        rp = 0.0
        for L in layers:
            top = min(r, L["R"])
            if top > rp:
                m += 4.0 / 3.0 * math.pi * L["rho"] * (top ** 3 - rp ** 3)
            rp = L["R"]
            if r <= L["R"]:
                break
        g[j] = G * m / r ** 2
    p.gravity = np.ascontiguousarray(g)
    p.mass = sum(4.0 / 3.0 * math.pi * L["rho"] * (L["R"] ** 3 - (layers[i - 1]["R"] ** 3 if i else 0.0)) for i, L in enumerate(layers))
    p.R = R_tot
    p.bulk_density = p.mass / (4.0 / 3.0 * math.pi * R_tot ** 3)
    p.layer_types = tuple(L["type"] for L in layers)
    p.is_static = tuple(bool(L["static"]) for L in layers)
    p.is_incompressible = tuple(bool(L["incompressible"]) for L in layers)
    p.upper_radius = tuple(float(L["R"]) for L in layers)
    p.g_surf = G * p.mass / R_tot ** 2
    return p


def solve(p, frequency, degree_l=2, solve_for=None, **kw):
    """Run radial_solver on copies of the planet arrays. Returns dict(success, message, love (n_types x 3 complex) or None,
    result (copy) or None, inputs_after (tuple of arrays)) - the solution object is dropped only after copying."""
    from TidalPy.RadialSolver import radial_solver
    arrs = [p.radius.copy(), p.density.copy(), p.gravity.copy(), p.bulk.copy(), p.shear.copy()]
    sol = radial_solver(arrs[0], arrs[1], arrs[2], arrs[3], arrs[4], float(frequency), float(p.bulk_density),
                        p.layer_types, p.is_static, p.is_incompressible, p.upper_radius, degree_l=degree_l,
                        solve_for=solve_for, **kw)
    out = {"success": bool(sol.success), "message": str(sol.message)}
    if sol.success:
        love = sol.love
        out["love"] = np.array(love, dtype=np.complex128, copy=True).reshape(-1, 3)
        out["result"] = np.array(sol.result, dtype=np.complex128, copy=True)
    else:
        out["love"] = None
        out["result"] = None
    out["inputs_after"] = arrs
    del sol
    return out


def closed_form_love(l, mu, rho, g, R):
    """Kelvin/Love closed form for a homogeneous incompressible sphere (complex mu allowed)."""
    m = (2 * l * l + 4 * l + 3) / l * mu / (rho * g * R)
    k = 3.0 / (2 * (l - 1)) / (1 + m)
    return k, (2 * l + 1) * k / 3.0, k / l
