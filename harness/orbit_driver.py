"""Replay driver for specs/OrbitTriple.tla on a real PhysicsOrbit(star=sol, tidal_host=jupiter, tidal_bodies=io_simple).

python -m harness.orbit_driver <job.json>; job = {"form": scalar|array|inplace, "behaviours": [[[action, params, state], ...], ...]}
state = {"moon": id, "stellar": id} (all three members of a triple carry the same id in the spec)."""
import json
import math
import sys

import numpy as np


class Sys:
    def __init__(self, form):
        import logging
        import TidalPy  # noqa
        logging.disable(logging.WARNING)
        from TidalPy.structures import build_world
        from TidalPy.structures.orbit import PhysicsOrbit
        from TidalPy.utilities.conversions import days2rads
        self.form = form
        self.star = build_world('sol')
        self.host = build_world('jupiter')
        self.moon = build_world('io_simple')
        self.o = PhysicsOrbit(self.star, tidal_host=self.host, tidal_bodies=self.moon)
        o = self.o
        self.moon_n = [o.get_orbital_frequency(self.moon), days2rads(3.3), days2rads(0.9)]
        self.st_a = [o.get_semi_major_axis(self.host, for_stellar_orbit=True), 6.0e11, 9.5e11]
        self.buffers = {}
        # mass ids of OrbitTriple.tla (MoonMass / HostMass): world.set_geometry(radius, mass)
        self.moon_mass = [float(self.moon.mass), 400.0 * float(self.moon.mass)]
        self.host_mass = [float(self.host.mass), 0.5 * float(self.host.mass)]
        self.stale = []

    def shape(self, key, v, i):
        if self.form == "scalar":
            return v
        arr = np.array([v, v * 1.01, v * 0.97]) if i != 0 else np.array([v, v, v])
        if self.form == "array":
            return arr
        # in-place: the caller keeps ONE buffer per quantity, overwrites it and hands the same object back
        if key not in self.buffers:
            self.buffers[key] = arr.copy()
        else:
            self.buffers[key][:] = arr
        return self.buffers[key]

    def moon_arg(self, kind, i):
        from TidalPy.utilities.conversions import rads2days
        n = self.moon_n[i]
        if kind == "n":
            return "orbital_frequency", self.shape(("moon", "n"), n, i)
        if kind == "P":
            return "orbital_period", self.shape(("moon", "P"), float(rads2days(n)), i)
        from TidalPy.utilities.conversions import orbital_motion2semi_a
        return "semi_major_axis", self.shape(("moon", "a"), float(orbital_motion2semi_a(n, float(self.host.mass), float(self.moon.mass))), i)

    def st_arg(self, kind, i):
        from TidalPy.utilities.conversions import rads2days
        a = self.st_a[i]
        from TidalPy.utilities.conversions import semi_a2orbital_motion
        n = float(semi_a2orbital_motion(a, float(self.star.mass), float(self.host.mass)))
        if kind == "a":
            return "semi_major_axis", self.shape(("st", "a"), a, i)
        if kind == "n":
            return "orbital_frequency", self.shape(("st", "n"), n, i)
        return "orbital_period", self.shape(("st", "P"), float(rads2days(n)), i)

    def perform(self, act, p):
        o = self.o
        if act == "MoonSet":
            kind, v, path = p
            k, val = self.moon_arg(kind, v)
            if path == "orbit_set_state":
                o.set_state(self.moon, **{k: val})
            elif path == "orbit_setter":
                getattr(o, "set_" + k)(self.moon, val)
            elif path == "world_prop":
                setattr(self.moon, k, val)
            else:
                self.moon.set_state(**{k: val})
        elif act == "StellarSet":
            kind, v, path = p
            k, val = self.st_arg(kind, v)
            if path == "orbit_set_state":
                o.set_state(self.host, set_stellar_orbit=True, **{k: val})
            else:
                getattr(o, "set_" + k)(self.host, val, set_stellar_orbit=True)
        elif act == "StellarDistance":
            v, via = p
            _, val = self.st_arg("a", v)
            o.set_stellar_distance(self.host if via == "host" else self.moon, val)
        elif act == "MoonMass":
            self.moon.set_geometry(self.moon.radius, self.moon_mass[p[0]])
        elif act == "HostMass":
            self.host.set_geometry(self.host.radius, self.host_mass[p[0]])
        else:
            raise ValueError(act)

    def check(self, st):
        """Kepler III for both orbits with their own mass pairs, and agreement with the spec's value ids."""
        from TidalPy.constants import G
        o = self.o
        bad = []
        for name, w, stellar, M, table in (("moon", self.moon, False, self.host.mass + self.moon.mass, None),
                                           ("stellar", self.host, True, self.star.mass + self.host.mass, None)):
            a = o.get_semi_major_axis(w, for_stellar_orbit=stellar)
            n = o.get_orbital_frequency(w, for_stellar_orbit=stellar)
            P = o.get_orbital_period(w, for_stellar_orbit=stellar)
            if a is None or n is None or P is None:
                bad.append({"orbit": name, "what": "unset", "detail": "a/n/P = %r/%r/%r" % (a, n, P)})
                continue
            a, n, P = (np.asarray(x, dtype=float) for x in (a, n, P))
            r1 = float(np.max(np.abs(n ** 2 * a ** 3 / (G * M) - 1.0)))
            r2 = float(np.max(np.abs(P * 86400.0 * n / (2 * math.pi) - 1.0)))
            current = st.get(name + "_current", True)
            if not current:
                # the triple predates a mass change (OrbitTriple.tla: m # current mass ids): as found nothing re-derives it; it must
                # still be the triple of its own update, Keplerian for the masses of THAT time (st[name + "_m"])
                ids = st[name + "_m"]
                M_then = (self.host_mass[ids[1]] + self.moon_mass[ids[0]]) if name == "moon" else (float(self.star.mass) + self.host_mass[ids[0]])
                r_then = float(np.max(np.abs(n ** 2 * a ** 3 / (G * M_then) - 1.0)))
                if r1 > 1e-12:
                    self.stale.append({"orbit": name, "r_current": r1, "r_then": r_then})
                if r_then > 1e-12 or r2 > 1e-12:
                    bad.append({"orbit": name, "what": "kepler_stale", "detail": "triple kept across a mass change is not even the old Keplerian one: %.3g, P n/2pi - 1 = %.3g" % (r_then, r2)})
                continue
            if r1 > 1e-12 or r2 > 1e-12:
                bad.append({"orbit": name, "what": "kepler", "detail": "n^2 a^3/(G(M+m)) - 1 = %.3g (current masses), P n/2pi - 1 = %.3g" % (r1, r2)})
            i = st[name]
            if name == "moon":
                exp = self.moon_n[i]
                got = float(n.ravel()[0])
            else:
                exp = self.st_a[i]
                got = float(a.ravel()[0])
            if abs(got / exp - 1.0) > 1e-12:
                bad.append({"orbit": name, "what": "value", "detail": "reports %r, spec value id %d = %r" % (got, i, exp)})
        sd = o.get_stellar_distance(self.moon)
        if sd is not None and abs(float(np.asarray(sd).ravel()[0]) / self.st_a[st["stellar"]] - 1.0) > 1e-12:
            bad.append({"orbit": "stellar", "what": "stellar_distance", "detail": "get_stellar_distance(moon) = %r" % (sd,)})
        return bad


class StarSys(Sys):
    """OrbitTriple.tla with StarHost = TRUE: PhysicsOrbit(star=sol, tidal_host=sol, tidal_bodies=earth_simple).  The planet's own orbit is
    its stellar orbit; value ids are semi-major axes, the other forms are derived here with the current true masses."""

    def __init__(self, form):
        import logging
        import TidalPy  # noqa
        logging.disable(logging.WARNING)
        from TidalPy.structures import build_world
        from TidalPy.structures.orbit import PhysicsOrbit
        self.form = form
        self.star = build_world('sol')
        self.host = self.star
        self.moon = build_world('earth_simple')
        self.o = PhysicsOrbit(self.star, tidal_host=self.star, tidal_bodies=self.moon)
        self.A = [float(self.o.get_semi_major_axis(self.moon)), 1.2e11, 2.1e11]
        self.buffers = {}
        self.moon_mass = [float(self.moon.mass), 400.0 * float(self.moon.mass)]
        self.stale = []

    def moon_arg(self, kind, i):
        from TidalPy.utilities.conversions import semi_a2orbital_motion, rads2days
        a = self.A[i]
        n = float(semi_a2orbital_motion(a, float(self.star.mass), float(self.moon.mass)))
        if kind == "a":
            return "semi_major_axis", self.shape(("moon", "a"), a, i)
        if kind == "n":
            return "orbital_frequency", self.shape(("moon", "n"), n, i)
        return "orbital_period", self.shape(("moon", "P"), float(rads2days(n)), i)

    def perform(self, act, p):
        if act == "StellarDistance":
            v, via = p
            val = self.shape(("st", "a"), self.A[v], v)
            if via == "host":
                self.o.set_stellar_distance(self.moon, val)
            else:
                self.moon.stellar_distance = val
        elif act in ("StellarSet", "HostMass"):
            raise ValueError(act)
        else:
            Sys.perform(self, act, p)

    def check(self, st):
        from TidalPy.constants import G
        o = self.o
        bad = []
        a, n, P = (o.get_semi_major_axis(self.moon), o.get_orbital_frequency(self.moon), o.get_orbital_period(self.moon))
        if a is None or n is None or P is None:
            return [{"orbit": "star_host", "what": "unset", "detail": "a/n/P = %r/%r/%r" % (a, n, P)}]
        a, n, P = (np.asarray(x, dtype=float) for x in (a, n, P))
        r2 = float(np.max(np.abs(P * 86400.0 * n / (2 * math.pi) - 1.0)))
        r1 = float(np.max(np.abs(n ** 2 * a ** 3 / (G * (float(self.star.mass) + float(self.moon.mass))) - 1.0)))
        if st.get("moon_current", True):
            if r1 > 1e-12 or r2 > 1e-12:
                bad.append({"orbit": "star_host", "what": "kepler", "detail": "n^2 a^3/(G(M+m)) - 1 = %.3g (current masses), P n/2pi - 1 = %.3g" % (r1, r2)})
            if abs(float(a.ravel()[0]) / self.A[st["moon"]] - 1.0) > 1e-12:
                bad.append({"orbit": "star_host", "what": "value", "detail": "semi-major axis %r, spec value id %d = %r" % (float(a.ravel()[0]), st["moon"], self.A[st["moon"]])})
        else:
            r_then = float(np.max(np.abs(n ** 2 * a ** 3 / (G * (float(self.star.mass) + self.moon_mass[st["moon_m"][0]])) - 1.0)))
            if r1 > 1e-12:
                self.stale.append({"orbit": "star_host", "r_current": r1, "r_then": r_then})
            if r_then > 1e-12 or r2 > 1e-12:
                bad.append({"orbit": "star_host", "what": "kepler_stale", "detail": "triple kept across a mass change is not the old Keplerian one: %.3g, P n/2pi - 1 = %.3g" % (r_then, r2)})
        sd = o.get_stellar_distance(self.moon)
        if sd is None or float(np.max(np.abs(np.asarray(sd, dtype=float) / a - 1.0))) > 1e-12:
            bad.append({"orbit": "star_host", "what": "stellar_distance", "detail": "get_stellar_distance = %r, semi-major axis %r" % (sd, a.tolist())})
        return bad


def main():
    job = json.load(open(sys.argv[1]))
    res = []
    for beh in job["behaviours"]:
        S = (StarSys if job.get("star_host") else Sys)(job["form"])
        out = {"steps": 0, "bad": None, "stale": S.stale}
        for k, (act, params, st) in enumerate(beh):
            try:
                if act != "Init":
                    S.perform(act, params)
                bad = S.check(st)
            except Exception as ex:
                import traceback
                bad = [{"orbit": "?", "what": "exception", "detail": "%s: %s" % (type(ex).__name__, str(ex)[:200]), "tb": traceback.format_exc()[-600:]}]
            out["steps"] = k + 1
            if bad:
                out["bad"] = {"k": k, "act": act, "params": params, "mismatch": bad}
                break
        res.append(out)
    json.dump({"results": res}, open(sys.argv[1] + ".out.json", "w"))


if __name__ == "__main__":
    main()
