"""Replay driver for specs/ConfigHolder.tla: performs each labelled step of a TLC behaviour on a real
TidalPy.utilities.classes.config.ConfigHolder (or LayerConfigHolder / WorldConfigHolder with a stub owner) and compares the
projected state (class default, instance default, config, old_config, replacement_config, owner entry) with the spec state
after every step.

python -m harness.config_holder_driver <job.json>; job = {groups: [{has_default, store_info, with_owner, behaviours: [[ [label, state], ...], ...]}], sabotage}
writes <job>.out.json = {results: [[group, behaviour, step, what, detail], ...], steps: n}

Spec key -> real key: a -> 'alpha' (scalar), n -> 'nested' ({'x': v}: deep-copy isolation is exercised by mutating the nested
dictionary IN PLACE), p -> 'pyclass' (1 -> 'UserA', 2 -> 'UserB', 9 -> the class name written by store_py_info)."""
import copy
import json
import sys

REAL = {"a": "alpha", "n": "nested", "p": "pyclass"}
USERP = {1: "UserA", 2: "UserB"}
OWNER_KEY = "thing"


def to_real(d, clsname):
    """spec dict (key -> value, 0 = absent) -> python dict"""
    out = {}
    for k, v in d.items():
        if v == 0:
            continue
        if k == "n":
            out["nested"] = {"x": v}
        elif k == "p":
            out["pyclass"] = clsname if v == 9 else USERP[v]
        else:
            out[REAL[k]] = v
    return out


def opt_to_real(o, clsname):
    return to_real(o["d"], clsname) if o["some"] else None


def project(real, keys, clsname, store_info, problems, what):
    """python dict / None -> spec optional dict; anything outside the modelled shape is a problem"""
    if real is None:
        return {"some": False, "d": {k: 0 for k in keys}}
    if not isinstance(real, dict):
        problems.append((what, "not a dict: %r" % (real,)))
        return {"some": True, "d": {k: 0 for k in keys}}
    d = {k: 0 for k in keys}
    extra = set(real)
    for k in keys:
        rk = REAL[k]
        if rk not in real:
            continue
        extra.discard(rk)
        v = real[rk]
        if k == "n":
            if isinstance(v, dict) and set(v) == {"x"} and v["x"] in (1, 2):
                d[k] = v["x"]
            else:
                problems.append((what, "nested entry has the wrong shape: %r" % (v,)))
        elif k == "p":
            if v == clsname:
                d[k] = 9
            elif v in USERP.values():
                d[k] = [a for a, b in USERP.items() if b == v][0]
            else:
                problems.append((what, "pyclass entry %r is neither the class name nor a user value" % (v,)))
        else:
            if v in (1, 2):
                d[k] = v
            else:
                problems.append((what, "entry %s has value %r outside the model" % (rk, v)))
    allowed = {"pyname", "TidalPy_Vers"} if store_info else set()
    if extra - allowed:
        problems.append((what, "unexpected keys %s" % sorted(extra - allowed)))
    if store_info and what in ("cfg",) and (allowed - extra):
        problems.append((what, "store_py_info entries missing: %s" % sorted(allowed - extra)))
    return {"some": True, "d": d}


def nested_objects(d):
    return [v for v in (d or {}).values() if isinstance(v, dict)] if isinstance(d, dict) else []


class StubWorld:
    def __init__(self, cfg):
        self._config = cfg
        self.name = "stub_world"
        self.world_class = "stub"

    @property
    def config(self):
        return self._config


class StubLayer:
    def __init__(self, cfg):
        self._config = cfg
        self.name = "stub_layer"
        self.type = "rock"
        self.world = StubWorld({})

    @property
    def config(self):
        return self._config


def run_group(g, gi, results, sabotage):
    from TidalPy.utilities.classes.config import ConfigHolder, LayerConfigHolder, WorldConfigHolder
    from TidalPy.exceptions import ParameterMissingError
    keys = g["keys"]
    cls_default_literal = {"alpha": 1, "nested": {"x": 1}} if "a" in keys else {"nested": {"x": 1}}
    nsteps = 0
    for bi, beh in enumerate(g["behaviours"]):
        default = copy.deepcopy(cls_default_literal) if g["has_default"] else None
        kind = "plain" if not g["with_owner"] else ("layer" if bi % 2 == 0 else "world")
        if kind == "plain":
            class Holder(ConfigHolder):
                default_config = default
        elif kind == "layer":
            class Holder(LayerConfigHolder):
                default_config = default
                layer_config_key = OWNER_KEY
        else:
            class Holder(WorldConfigHolder):
                default_config = default
                world_config_key = OWNER_KEY
        clsname = "Holder"
        class_nested = nested_objects(default)
        inst = None
        ext = None                 # the dictionary object the caller passed last
        owner_cfg = {"other": 5}   # the owner's configuration (without the key unless OwnerInit)
        owner = StubLayer(owner_cfg) if kind == "layer" else StubWorld(owner_cfg)
        raised_attach = False
        for si, (label, st) in enumerate(beh):
            problems = []
            act = label[0]
            try:
                if act == "Init":
                    pass
                elif act == "New":
                    ext = opt_to_real(label[1], clsname)
                    inst = Holder(ext, store_py_info=g["store_info"]) if (bi + si) % 2 == 0 else Holder(replacement_config=ext, store_py_info=g["store_info"])
                elif act == "Replace":
                    ext = opt_to_real(label[1], clsname)
                    if sabotage and gi == 0 and bi == 0:
                        sabotage = False                         # negative control: skip one state-changing step
                    else:
                        inst.replace_config(ext, force_default_merge=label[2])
                elif act == "SetRepl":
                    ext = opt_to_real(label[1], clsname)
                    inst.replacement_config = ext
                elif act == "Update":
                    ret = inst.update_config(force_default_merge=label[1])
                    if ret is not inst.config:
                        problems.append(("update_config", "does not return the configuration"))
                elif act == "ExtMutate":
                    k, v = label[1], label[2]
                    if ext is not None:
                        if k == "n" and v != 0 and isinstance(ext.get("nested"), dict):
                            ext["nested"]["x"] = v           # in place, inside the nested dictionary
                        elif v == 0:
                            ext.pop(REAL[k], None)
                        else:
                            ext.update(to_real({k: v}, clsname))
                elif act == "CfgAssign":
                    k, v = label[1], label[2]
                    inst.config.update(to_real({k: v}, clsname))
                elif act == "GetParam":
                    k = label[1]
                    want = to_real({k: st["cfg"]["d"][k]}, clsname).get(REAL[k])
                    if want is None:
                        try:
                            inst.get_param(REAL[k])
                            problems.append(("get_param", "no ParameterMissingError for the missing %s" % REAL[k]))
                        except ParameterMissingError:
                            pass
                        if inst.get_param(REAL[k], raise_missing=False, fallback=77) != 77:
                            problems.append(("get_param", "fallback not returned for the missing %s" % REAL[k]))
                    else:
                        for got in (inst.get_param(REAL[k]), inst.get_param(REAL[k], raise_missing=False, fallback=77)):
                            if got != want:
                                problems.append(("get_param", "%s -> %r, configuration holds %r" % (REAL[k], got, want)))
                elif act == "OwnerInit":
                    owner._config[OWNER_KEY] = opt_to_real(label[1], clsname)
                elif act == "Attach":
                    ext = owner._config.get(OWNER_KEY)
                    try:
                        inst = Holder(owner)
                    except ParameterMissingError:
                        raised_attach = True
                        if st["made"]:
                            problems.append(("attach", "ParameterMissingError although there is a default or an entry"))
                    else:
                        if not st["made"]:
                            problems.append(("attach", "no ParameterMissingError although there is neither an entry nor a default"))
                elif act == "OwnerMutate":
                    k, v = label[1], label[2]
                    cur = owner._config[OWNER_KEY]
                    if k == "n" and isinstance(cur.get("nested"), dict):
                        cur["nested"]["x"] = v
                    else:
                        cur.update(to_real({k: v}, clsname))
                else:
                    raise ValueError("unknown action %r" % (act,))
            except Exception as ex:
                import traceback
                problems.append(("exception", "%s: %s | %s" % (type(ex).__name__, str(ex)[:200], traceback.format_exc()[-400:])))
            nsteps += 1
            # ---- compare with the spec state
            got = {}
            got["clsdef"] = project(Holder.default_config, keys, clsname, False, problems, "clsdef")
            if Holder.default_config is not None and Holder.default_config != cls_default_literal:
                problems.append(("clsdef", "class default changed: %r" % (Holder.default_config,)))
            if inst is not None:
                got["def"] = project(inst.default_config, keys, clsname, g["store_info"], problems, "def")
                got["cfg"] = project(inst.config, keys, clsname, g["store_info"], problems, "cfg")
                got["old"] = project(inst.old_config, keys, clsname, g["store_info"], problems, "old")
                got["repl"] = project(inst.replacement_config, keys, clsname, False, problems, "repl")
                if not inst.config_constructed:
                    problems.append(("flag", "config_constructed is False"))
                # no object of the instance may be the caller's, the class's or the owner's
                mine = nested_objects(inst.config) + nested_objects(inst.old_config) + nested_objects(inst.default_config) + nested_objects(inst.replacement_config)
                foreign = [("caller", o) for o in nested_objects(ext)] + [("class", o) for o in class_nested]
                if g["with_owner"]:
                    foreign += [("owner", o) for o in nested_objects(owner._config.get(OWNER_KEY))]
                for who, o in foreign:
                    if any(o is m for m in mine):
                        problems.append(("aliasing", "the instance shares a nested dictionary object with the %s" % who))
                if inst.replacement_config is not None and inst.replacement_config is ext:
                    problems.append(("aliasing", "replacement_config IS the caller's dictionary"))
            else:
                for k in ("def", "cfg", "old", "repl"):
                    got[k] = {"some": False, "d": {x: 0 for x in keys}}
            if g["with_owner"]:
                oc = owner._config
                got_owner = {"has": OWNER_KEY in oc, "cur": project(oc.get(OWNER_KEY), keys, clsname, False, problems, "owner.cur"),
                             "hasprev": ("OLD_" + OWNER_KEY) in oc, "prev": project(oc.get("OLD_" + OWNER_KEY), keys, clsname, False, problems, "owner.prev")}
                if oc.get("other") != 5 or set(oc) - {"other", OWNER_KEY, "OLD_" + OWNER_KEY}:
                    problems.append(("owner", "unrelated owner entries changed: %r" % (oc,)))
                for f in ("has", "cur", "hasprev", "prev"):
                    if got_owner[f] != st["owner"][f]:
                        problems.append(("owner." + f, "real %r, ConfigHolder.tla %r" % (got_owner[f], st["owner"][f])))
            for k in ("clsdef", "def", "cfg", "old", "repl"):
                if got[k] != st[k]:
                    problems.append((k, "real %s, ConfigHolder.tla %s" % (json.dumps(got[k]), json.dumps(st[k]))))
            if (inst is not None) != st["made"]:
                problems.append(("made", "instance exists: %s, spec: %s" % (inst is not None, st["made"])))
            if problems:
                results.append({"group": gi, "behaviour": bi, "step": si, "label": label, "kind": kind, "problems": [list(p) for p in problems],
                                "prefix": [b[0] for b in beh[:si + 1]]})
                break
        else:
            # a second, fresh instance of the same class sees the pristine class default (instances are isolated)
            if kind == "plain":
                problems = []
                other = Holder(None, store_py_info=g["store_info"])
                want = copy.deepcopy(cls_default_literal) if g["has_default"] else None
                have = None if other.config is None else {k: v for k, v in other.config.items() if k not in ("pyclass", "pyname", "TidalPy_Vers")}
                if have != want:
                    results.append({"group": gi, "behaviour": bi, "step": len(beh), "label": ["SecondInstance"], "kind": kind,
                                    "problems": [["second_instance", "a fresh instance of the class has configuration %r, class default literal %r" % (have, want)]], "prefix": [b[0] for b in beh]})
    return nsteps


def main():
    job = json.load(open(sys.argv[1]))
    import logging
    import TidalPy  # noqa
    logging.disable(logging.WARNING)
    results = []
    n = 0
    for gi, g in enumerate(job["groups"]):
        n += run_group(g, gi, results, bool(job.get("sabotage")))
    json.dump({"results": results, "steps": n}, open(sys.argv[1] + ".out.json", "w"))


if __name__ == "__main__":
    main()
