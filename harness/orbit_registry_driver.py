"""Replay driver for specs/OrbitRegistry.tla: a planet host with up to three moons in a real OrbitBase / PhysicsOrbit; every labelled
step is performed through the signature form the label names (instance, name, lower-case name, title-case name, index) and after
every step every stored orbit is read back through ALL five signature forms (and through the world's own properties) and compared
with the spec state.

python -m harness.orbit_registry_driver <job.json>; job = {groups: [{orbit: base|physics, behaviours: [[ [label, state], ...], ...]}], sabotage}"""
import json
import sys

import numpy as np

NAMES = {"m1": "AlphaMoon", "m2": "betaMoon", "m3": "GAMMA"}
NOVAL = -1


def close(a, b):
    if a is None or b is None:
        return a is None and b is None
    return bool(np.all(np.abs(np.asarray(a, dtype=float) - b) <= 1e-11 * abs(b)))


class Sys:
    _bases = {}

    def __init__(self, orbit):
        import logging
        import TidalPy  # noqa
        logging.disable(logging.WARNING)
        from TidalPy.structures import build_world, build_from_world
        self.orbit_kind = orbit
        self.bfw = build_from_world
        B = Sys._bases
        for n in ("sol", "jupiter", "io_simple"):
            if n not in B:
                B[n] = build_world(n)
        self.e_vals = [0.0041, 0.02, 0.07]
        self.a_vals = [B["io_simple"].config.get("semi_major_axis", None), 6.0e8, 9.5e8]

    def fresh(self):
        from TidalPy.structures.orbit import PhysicsOrbit, OrbitBase
        B = Sys._bases
        star = self.bfw(B["sol"], new_config={})
        host = self.bfw(B["jupiter"], new_config={})
        moons = {m: self.bfw(B["io_simple"], new_config={"name": NAMES[m]}) for m in NAMES}
        cls = PhysicsOrbit if self.orbit_kind == "physics" else OrbitBase
        o = cls(star, tidal_host=host, tidal_bodies=None)
        return o, host, moons

    def sig(self, o, host, moons, s, kind):
        w = host if s == "host" else moons[s]
        if kind == "instance":
            return w
        if kind == "name":
            return w.name
        if kind == "lower":
            return w.name.lower()
        if kind == "title":
            return w.name.title()
        if kind == "index":
            # first slot holding the world (OrbitRegistry.tla: the slot the instance table points to)
            return 0 if s == "host" else o.tidal_objects.index(w)
        raise ValueError(kind)


def replay(S, beh, sabotage=False):
    o, host, moons = S.fresh()
    a0 = None
    for k, (label, st) in enumerate(beh):
        problems = []
        act = label[0]
        try:
            if sabotage and act in ("SetE", "SetA") and st != beh[k - 1][1]:
                sabotage = False
            elif act in ("AddMoon", "ReAdd"):
                # ReAdd: add_tidal_world for a world that is already in the orbit (the code warns and goes on)
                o.add_tidal_world(moons[label[1]])
                if a0 is None:
                    a0 = o.get_semi_major_axis(moons[label[1]])
                    S.a_vals[0] = float(a0)
            elif act == "SetRaiser":
                o.set_host_tide_raiser(S.sig(o, host, moons, label[1], label[2]))
            elif act == "SetE":
                o.set_eccentricity(S.sig(o, host, moons, label[1], label[2]), S.e_vals[label[3]])
            elif act == "SetA":
                from TidalPy.utilities.conversions import semi_a2orbital_motion, rads2days
                sg = S.sig(o, host, moons, label[1], label[2])
                via = label[4] if len(label) > 4 else "a"
                a_new = S.a_vals[label[3]]
                # the triple is given as a, n or P; n and P are derived here with the TRUE masses of the pair (host + the moon the
                # signature resolves to), so the orbit must store a_new whatever the form
                tgt = beh[k - 1][1]["raiser"] if label[1] == "host" else label[1]
                n_new = float(semi_a2orbital_motion(a_new, host.mass, moons[tgt].mass))
                arg = {"a": ("semi_major_axis", a_new), "n": ("orbital_frequency", n_new), "P": ("orbital_period", float(rads2days(n_new)))}[via.replace("state_", "")]
                if via.startswith("state_"):
                    o.set_state(sg, **{arg[0]: arg[1]})
                else:
                    getattr(o, "set_" + arg[0])(sg, arg[1])
            elif act == "ClearSpecific":
                o.clear_state(clear_all=False, clear_specific=S.sig(o, host, moons, label[1], label[2]))
            elif act == "ClearAll":
                o.clear_state()
            elif act != "Init":
                raise ValueError(act)
        except Exception as ex:
            import traceback
            problems.append(["exception", "%s: %s | %s" % (type(ex).__name__, str(ex)[:200], traceback.format_exc()[-500:])])
        if not problems:
            try:
                order = [w for w in o.tidal_objects[1:]]
                names = [next(m for m, x in moons.items() if x is w) for w in order]
                if names != list(st["order"]):
                    problems.append(["order", "tidal_objects[1:] = %s, OrbitRegistry.tla %s" % (names, list(st["order"]))])
                r = o.host_tide_raiser
                rn = "none" if r is None else next(m for m, x in moons.items() if x is r)
                if rn != st["raiser"]:
                    problems.append(["raiser", "host_tide_raiser = %s, OrbitRegistry.tla %s" % (rn, st["raiser"])])
                n = len(o.tidal_objects)
                for nm in ("_eccentricities", "_semi_major_axes", "_orbital_frequencies", "_orbital_periods"):
                    if len(getattr(o, nm)) != n:
                        problems.append(["storage", "%s has %d entries for %d tidal objects" % (nm, len(getattr(o, nm)), n)])
                # the two look-up tables, exactly as the spec keeps them
                by_inst = {m: int(o.all_tidal_world_orbit_index_by_instance.get(moons[m], 0)) for m in moons}
                if by_inst != {m: int(st["byInst"][m]) for m in moons}:
                    problems.append(["lookup", "index by instance = %s, OrbitRegistry.tla %s" % (by_inst, dict(st["byInst"]))])
                for m in moons:
                    got = {int(o.all_tidal_world_orbit_index_by_name.get(nm, 0)) for nm in {moons[m].name, moons[m].name.lower(), moons[m].name.title()}}
                    if got != {int(st["byName"][m])}:
                        problems.append(["lookup", "index by name of %s = %s, OrbitRegistry.tla %s" % (m, sorted(got), st["byName"][m])])
                # raw slots
                from TidalPy.constants import G
                for i, m in enumerate(names, start=1):
                    we = None if st["ecc"][i - 1] == NOVAL else S.e_vals[st["ecc"][i - 1]]
                    wa = None if st["sma"][i - 1] == NOVAL else S.a_vals[st["sma"][i - 1]]
                    ge, ga = o.get_eccentricity(i), o.get_semi_major_axis(i)
                    if not close(ge, we):
                        problems.append(["ecc", "get_eccentricity(slot %d, %s) = %r, OrbitRegistry.tla %r" % (i, m, ge, we)])
                    if not close(ga, wa):
                        problems.append(["sma", "get_semi_major_axis(slot %d, %s) = %r, OrbitRegistry.tla %r" % (i, m, ga, wa)])
                    gn, gp = o.get_orbital_frequency(i), o.get_orbital_period(i)
                    if (ga is None) != (gn is None) or (ga is None) != (gp is None):
                        problems.append(["kepler", "%s (slot %d): semi-major axis %r but orbital frequency %r, period %r" % (m, i, ga, gn, gp)])
                    elif ga is not None:
                        k3 = float(gn) ** 2 * float(ga) ** 3 / (G * (host.mass + moons[m].mass))
                        if abs(k3 - 1.0) > 1e-11 or abs(float(gp) * 86400.0 * float(gn) / (2 * np.pi) - 1.0) > 1e-11:
                            problems.append(["kepler", "%s (slot %d): n^2 a^3 / (G (M_host + m)) = %.15g, P n / 2 pi = %.15g" % (m, i, k3, float(gp) * 86400.0 * float(gn) / (2 * np.pi))])
                # every form of signature reads the slot the spec resolves it to
                for m in sorted(set(names)):
                    for kind in ("instance", "name", "lower", "title", "index"):
                        slot = int(st["byName"][m] if kind in ("name", "lower", "title") else st["byInst"][m])
                        we = None if st["ecc"][slot - 1] == NOVAL else S.e_vals[st["ecc"][slot - 1]]
                        wa = None if st["sma"][slot - 1] == NOVAL else S.a_vals[st["sma"][slot - 1]]
                        sg = S.sig(o, host, moons, m, kind)
                        ge, ga = o.get_eccentricity(sg), o.get_semi_major_axis(sg)
                        if not close(ge, we):
                            problems.append(["ecc", "get_eccentricity(%s of %s) = %r, OrbitRegistry.tla %r (slot %d)" % (kind, m, ge, we, slot)])
                        if not close(ga, wa):
                            problems.append(["sma", "get_semi_major_axis(%s of %s) = %r, OrbitRegistry.tla %r (slot %d)" % (kind, m, ga, wa, slot)])
                    slot = int(st["byInst"][m])
                    we = None if st["ecc"][slot - 1] == NOVAL else S.e_vals[st["ecc"][slot - 1]]
                    wa = None if st["sma"][slot - 1] == NOVAL else S.a_vals[st["sma"][slot - 1]]
                    if not close(moons[m].eccentricity, we) or not close(moons[m].semi_major_axis, wa):
                        problems.append(["world_property", "%s.eccentricity / semi_major_axis = %r / %r, OrbitRegistry.tla %r / %r" % (m, moons[m].eccentricity, moons[m].semi_major_axis, we, wa)])
                if st["raiser"] != "none":
                    rm = st["raiser"]
                    rslot = int(st["byInst"][rm])
                    we = None if st["ecc"][rslot - 1] == NOVAL else S.e_vals[st["ecc"][rslot - 1]]
                    for kind in ("instance", "name", "lower", "title", "index"):
                        ge = o.get_eccentricity(S.sig(o, host, moons, "host", kind))
                        if not close(ge, we):
                            problems.append(["host_signature", "get_eccentricity(host by %s) = %r, the tide raiser %s has %r" % (kind, ge, rm, we)])
                for m, w in moons.items():
                    if m not in names and w.orbit is not None:
                        problems.append(["stranger", "%s is not in the orbit but has an orbit attached" % m])
            except Exception as ex:
                import traceback
                problems.append(["exception_observe", "%s: %s | %s" % (type(ex).__name__, str(ex)[:200], traceback.format_exc()[-500:])])
        if problems:
            return {"step": k, "label": label, "problems": problems, "prefix": [b[0] for b in beh[:k + 1]]}
    return None


def main():
    job = json.load(open(sys.argv[1]))
    out = []
    n = 0
    for gi, g in enumerate(job["groups"]):
        S = Sys(g["orbit"])
        for bi, beh in enumerate(g["behaviours"]):
            r = replay(S, beh, sabotage=bool(job.get("sabotage")) and gi == 0 and bi == 0)
            n += len(beh)
            if r:
                r.update(group=gi, behaviour=bi, orbit=g["orbit"])
                out.append(r)
    json.dump({"results": out, "steps": n}, open(sys.argv[1] + ".out.json", "w"))


if __name__ == "__main__":
    main()
