"""Rebuild compiled extensions from the generated .c next to them when the .c is newer than the .so.

There is no Cython in this sandbox: a change made only to a .pyx cannot reach the running code, and is reported
(NOTE line) rather than silently ignored."""
import glob
import os
import subprocess
import sys
import sysconfig

from .core import REPO, MachineryError


def _includes():
    import numpy
    inc = [sysconfig.get_paths()["include"], numpy.get_include(), REPO]
    try:
        import CyRK
        inc.append(os.path.dirname(CyRK.__file__))
        inc.append(os.path.join(os.path.dirname(CyRK.__file__), "cy"))
        inc.append(os.path.join(os.path.dirname(CyRK.__file__), "array"))
    except Exception:
        pass
    return inc


def rebuild_if_needed(verbose=False):
    n = 0
    stale_pyx = []
    for c in glob.glob(os.path.join(REPO, "TidalPy", "**", "*.c"), recursive=True):
        base = c[:-2]
        sos = glob.glob(base + ".cpython-*.so")
        if not sos:
            continue
        so = sos[0]
        pyx = base + ".pyx"
        if os.path.exists(pyx) and os.path.getmtime(pyx) > os.path.getmtime(c) + 1:
            stale_pyx.append(os.path.relpath(pyx, REPO))
        if os.path.getmtime(c) <= os.path.getmtime(so):
            continue
        cmd = ["gcc", "-shared", "-fPIC", "-O3", "-fopenmp", "-fno-strict-aliasing", "-w",
               "-DNPY_NO_DEPRECATED_API=NPY_1_7_API_VERSION"]
        for i in _includes():
            cmd += ["-I", i]
        cmd += ["-I", os.path.dirname(c), c, "-o", so + ".tmp", "-lm"]
        p = subprocess.run(cmd, stdout=subprocess.PIPE, stderr=subprocess.STDOUT, text=True)
        if p.returncode != 0:
            raise MachineryError("rebuild of %s failed:\n%s" % (c, p.stdout[-2000:]))
        os.replace(so + ".tmp", so)
        n += 1
        if verbose:
            print("rebuilt", so)
    if stale_pyx and os.environ.get("VERIF_QUIET_PYX") is None:
        print("NOTE: %d .pyx newer than generated .c (no Cython here; compiled code unchanged): %s" % (
            len(stale_pyx), ", ".join(stale_pyx[:5])))
    worldpack_note()
    return n


def worldpack_note():
    """the package installs the shipped worlds from WorldPack.zip, not from the loose .toml files next to it: an edit of a loose
    file alone cannot reach the code under test - say so instead of silently checking the old world"""
    import zipfile
    try:
        import tomllib
    except ImportError:        # pragma: no cover
        return
    d = os.path.join(REPO, "TidalPy", "WorldPack")
    zp = os.path.join(d, "WorldPack.zip")
    if not os.path.isfile(zp) or os.environ.get("VERIF_QUIET_PYX") is not None:
        return
    bad = []
    try:
        with zipfile.ZipFile(zp) as z:
            for nme in z.namelist():
                loose = os.path.join(d, os.path.basename(nme))
                if nme.endswith(".toml") and os.path.isfile(loose):
                    if tomllib.loads(z.read(nme).decode()) != tomllib.loads(open(loose).read()):
                        bad.append(os.path.basename(nme))
    except Exception as ex:
        bad.append("(unreadable: %s)" % type(ex).__name__)
    if bad:
        print("NOTE: shipped world files differ from WorldPack.zip (the package reads the zip; loose-file edits have no effect): %s" % ", ".join(bad[:6]))


if __name__ == "__main__":
    print("rebuilt %d extension(s)" % rebuild_if_needed(verbose=True))
