"""Parser for TLA+ values as printed by TLC (state dumps, PrintT, simulation files, dot labels).

Python mapping:
  integers -> int, TRUE/FALSE -> bool, "s" -> str, model value / identifier -> Sym(name)
  <<a, b>> -> tuple, {a, b} -> frozenset, [f |-> v, ...] -> dict (str keys)
  (k :> v @@ k2 :> v2) -> dict (arbitrary hashable keys); a function whose domain is 1..n is printed by TLC as <<>>.
"""
import re


class Sym(str):
    """A TLA+ model value or bare identifier."""
    def __repr__(self):
        return "Sym(%s)" % str.__repr__(self)


class FrozenDict(dict):
    def __hash__(self):
        return hash(frozenset(self.items()))


_tok = re.compile(r'''\s*(?:
    (?P<int>-?\d+)|
    (?P<str>"(?:[^"\\]|\\.)*")|
    (?P<id>[A-Za-z_][A-Za-z_0-9]*)|
    (?P<op><<|>>|\|->|:>|@@|\.\.|[\[\]{}(),])
)''', re.X)


def tokenize(s):
    pos = 0
    out = []
    n = len(s)
    while pos < n:
        m = _tok.match(s, pos)
        if not m:
            if s[pos:].strip() == "":
                break
            raise ValueError("cannot tokenize at %r" % s[pos:pos + 40])
        pos = m.end()
        k = m.lastgroup
        out.append((k, m.group(k)))
    return out


class _P:
    def __init__(self, toks):
        self.t = toks
        self.i = 0

    def peek(self):
        return self.t[self.i] if self.i < len(self.t) else (None, None)

    def next(self):
        x = self.t[self.i]
        self.i += 1
        return x

    def expect(self, v):
        k, x = self.next()
        if x != v:
            raise ValueError("expected %r got %r" % (v, x))

    def value(self):
        k, x = self.next()
        if k == "int":
            if self.peek()[1] == "..":
                self.next()
                k2, y = self.next()
                return frozenset(range(int(x), int(y) + 1))
            return int(x)
        if k == "str":
            return bytes(x[1:-1], "utf-8").decode("unicode_escape") if "\\" in x else x[1:-1]
        if k == "id":
            if x == "TRUE":
                return True
            if x == "FALSE":
                return False
            return Sym(x)
        if x == "<<":
            items = []
            if self.peek()[1] == ">>":
                self.next()
                return tuple()
            while True:
                items.append(self.value())
                k2, y = self.next()
                if y == ">>":
                    return tuple(items)
                if y != ",":
                    raise ValueError("bad tuple sep %r" % y)
        if x == "{":
            items = []
            if self.peek()[1] == "}":
                self.next()
                return frozenset()
            while True:
                items.append(self.value())
                k2, y = self.next()
                if y == "}":
                    return frozenset(items)
                if y != ",":
                    raise ValueError("bad set sep %r" % y)
        if x == "[":
            d = FrozenDict()
            if self.peek()[1] == "]":
                self.next()
                return d
            while True:
                k1, name = self.next()
                self.expect("|->")
                dict.__setitem__(d, str(name), self.value())
                k2, y = self.next()
                if y == "]":
                    return d
                if y != ",":
                    raise ValueError("bad record sep %r" % y)
        if x == "(":
            d = FrozenDict()
            while True:
                key = self.value()
                self.expect(":>")
                dict.__setitem__(d, key, self.value())
                k2, y = self.next()
                if y == ")":
                    return d
                if y != "@@":
                    raise ValueError("bad function sep %r" % y)
        raise ValueError("unexpected token %r" % x)


def parse_value(s):
    p = _P(tokenize(s))
    v = p.value()
    if p.i != len(p.t):
        raise ValueError("trailing tokens in %r" % s[:80])
    return v


_conj = re.compile(r'^/\\ ([A-Za-z_][A-Za-z_0-9]*) = ', re.M)


def parse_state(text):
    """Parse a '/\\ v = value' conjunction list (values may span lines) into {var: value}."""
    text = text.strip()
    if not text.startswith("/\\"):
        # single variable spec: 'v = value'
        m = re.match(r'^([A-Za-z_][A-Za-z_0-9]*) = ', text)
        if not m:
            raise ValueError("cannot parse state %r" % text[:80])
        return {m.group(1): parse_value(text[m.end():])}
    ms = list(_conj.finditer(text))
    out = {}
    for j, m in enumerate(ms):
        end = ms[j + 1].start() if j + 1 < len(ms) else len(text)
        out[m.group(1)] = parse_value(text[m.end():end])
    return out


def parse_dump(path):
    """Parse a `tlc -dump <file>` state dump: yields dict per state."""
    txt = open(path).read()
    parts = re.split(r'^State \d+:\s*$', txt, flags=re.M)
    for p in parts[1:]:
        p = p.strip()
        if p:
            yield parse_state(p)


def _unescape(lab):
    out = []
    i = 0
    n = len(lab)
    while i < n:
        c = lab[i]
        if c == "\\" and i + 1 < n:
            d = lab[i + 1]
            out.append("\n" if d == "n" else d)
            i += 2
        else:
            out.append(c)
            i += 1
    return "".join(out)


def parse_dot(path):
    """Parse `tlc -dump dot,actionlabels` output.
    Returns (nodes: {id: state dict}, init_ids: set, edges: [(src, dst, label)])."""
    nodes, edges, inits = {}, [], set()
    node_re = re.compile(r'^(-?\d+) \[label="((?:[^"\\]|\\.)*)"(.*)$')
    edge_re = re.compile(r'^(-?\d+) -> (-?\d+) \[label="((?:[^"\\]|\\.)*)"')
    for line in open(path):
        line = line.rstrip("\n")
        m = edge_re.match(line)
        if m:
            edges.append((m.group(1), m.group(2), _unescape(m.group(3))))
            continue
        m = node_re.match(line)
        if m:
            nodes[m.group(1)] = parse_state(_unescape(m.group(2)))
            if "style = filled" in m.group(3):
                inits.add(m.group(1))
    return nodes, inits, edges


_sim_act = re.compile(r'^\\\* <(\w+)(?:\((.*?)\))? line .*>$')


def parse_sim_file(path):
    """Parse one file written by `tlc -simulate file=...`: returns list of (action, args_text, state dict)."""
    out = []
    act, args = "Init", None
    cur = None
    buf = []
    for line in open(path):
        line = line.rstrip("\n")
        m = _sim_act.match(line)
        if m:
            act, args = m.group(1), m.group(2)
            continue
        if line.startswith("STATE_") and "==" in line:
            if cur is not None:
                out.append((cur[0], cur[1], parse_state("\n".join(buf))))
            cur = (act, args)
            buf = []
            rest = line.split("==", 1)[1].strip()
            if rest:
                buf.append(rest)
            continue
        if cur is not None:
            if line.startswith("====") or line.startswith("----"):
                continue
            buf.append(line)
    if cur is not None and buf:
        out.append((cur[0], cur[1], parse_state("\n".join(buf))))
    return out


def to_tla(v):
    """Python -> TLA+ literal (ints, bools, str, tuples/lists, sets, dicts with str keys as records)."""
    if isinstance(v, bool):
        return "TRUE" if v else "FALSE"
    if isinstance(v, Sym):
        return str(v)
    if isinstance(v, int):
        return str(v)
    if isinstance(v, str):
        return '"' + v.replace("\\", "\\\\").replace('"', '\\"') + '"'
    if isinstance(v, (tuple, list)):
        return "<<" + ", ".join(to_tla(x) for x in v) + ">>"
    if isinstance(v, (set, frozenset)):
        return "{" + ", ".join(sorted(to_tla(x) for x in v)) + "}"
    if isinstance(v, dict):
        if all(isinstance(k, str) and not isinstance(k, Sym) and re.match(r'^[A-Za-z_]\w*$', k) for k in v):
            return "[" + ", ".join("%s |-> %s" % (k, to_tla(x)) for k, x in v.items()) + "]"
        return "(" + " @@ ".join("%s :> %s" % (to_tla(k), to_tla(x)) for k, x in v.items()) + ")"
    raise TypeError(type(v))
