"""Replay driver for specs/WorldGeometry.tla and specs/WorldBuilder.tla (property C16) on the real world builder.

python -m harness.builder_driver <job.json> ; job = {"configs": [spec state dicts], "chains": [[[kind,[num,den],nm], ...], ...],
"shipped": [names]} ; writes <job>.out.json"""
import copy
import json
import math
import signal
import sys

import numpy as np

U = 1.0e5          # metres per spec length unit
RHO = 1000.0       # kg m-3 per spec density unit
RT = 1e-11
FOURPI3 = 4.0 * math.pi / 3.0


class Hang(Exception):
    pass


def _alarm(signum, frame):
    raise Hang()


def with_alarm(sec, f, *a, **kw):
    signal.signal(signal.SIGALRM, _alarm)
    signal.alarm(sec)
    try:
        return f(*a, **kw)
    finally:
        signal.alarm(0)


def close(a, b, rt=RT):
    return abs(a - b) <= rt * max(abs(a), abs(b), 1e-300)


def config_from_state(st, name="VerifWorld"):
    nl, R, gform, mform, rho = st["nl"], st["R"], st["gform"], st["mform"], st["rho"]
    vol3 = [R[i] ** 3 - (R[i - 1] ** 3 if i else 0) for i in range(nl)]
    masses = [rho[i] * RHO * FOURPI3 * U ** 3 * vol3[i] for i in range(nl)]
    wm = sum(masses)
    cfg = {"name": name, "type": "layered", "radius": R[-1] * U, "orbital_period": 1.769, "eccentricity": 0.0041,
           "spin_period": 1.769, "albedo": 0.63, "force_spin_sync": True, "layers": {}}
    if st["worldMassGiven"]:
        cfg["mass"] = wm
    for i in range(nl):
        L = {"type": "iron" if i == 0 and nl > 1 else "rock", "is_tidal": False}
        if i == nl - 1:
            L["surface_temperature"] = 100.0
        if gform[i] == "radius":
            L["radius"] = R[i] * U
        elif gform[i] == "thickness":
            L["thickness"] = (R[i] - (R[i - 1] if i else 0)) * U
        if mform[i] == "density":
            L["density"] = rho[i] * RHO
        elif mform[i] == "mass":
            L["mass"] = masses[i]
        else:
            L["mass_frac"] = masses[i] / wm
        cfg["layers"]["Layer%d" % i] = L
    return cfg, vol3, masses


def clauses(w, label, mass_from_layers):
    """The bookkeeping clauses of C16 on a real built world. Returns list of failures."""
    from TidalPy.constants import G
    bad = []
    Ls = list(w.layers)
    prev = 0.0
    for i, L in enumerate(Ls):
        if not close(L.radius_inner, prev) and not (prev == 0.0 and abs(L.radius_inner) < 1e-6):
            bad.append({"clause": "contiguous", "detail": "%s layer %d inner radius %r != radius below %r" % (label, i, L.radius_inner, prev)})
        if not L.radius > L.radius_inner:
            bad.append({"clause": "contiguous", "detail": "%s layer %d radius %r <= inner %r" % (label, i, L.radius, L.radius_inner)})
        prev = L.radius
    if not close(prev, w.radius):
        bad.append({"clause": "contiguous", "detail": "%s top layer radius %r != world radius %r" % (label, prev, w.radius)})
    vs = sum(L.volume for L in Ls)
    if not close(vs, w.volume):
        bad.append({"clause": "volumes_sum", "detail": "%s sum of layer volumes %r != world volume %r" % (label, vs, w.volume)})
    if not close(w.volume, FOURPI3 * w.radius ** 3):
        bad.append({"clause": "volumes_sum", "detail": "%s world volume %r != 4/3 pi R^3" % (label, w.volume)})
    radii = np.asarray(w.radii)
    if not np.all(np.diff(radii) > 0):
        k = int(np.argmin(np.diff(radii)))
        bad.append({"clause": "slices_increasing", "detail": "%s radii[%d..%d] = %r, %r" % (label, k, k + 1, radii[k], radii[k + 1])})
    if not close(w.gravity_outer, G * w.mass / w.radius ** 2):
        bad.append({"clause": "surface_gravity", "detail": "%s gravity_outer %r != GM/R^2 %r" % (label, w.gravity_outer, G * w.mass / w.radius ** 2)})
    mb = np.asarray(w.mass_below_slices)
    if np.any(np.diff(mb) < -1e-9 * max(1.0, float(np.max(np.abs(mb))))):
        k = int(np.argmin(np.diff(mb)))
        bad.append({"clause": "enclosed_mass_monotone", "detail": "%s mass_below_slices[%d..%d] = %r, %r" % (label, k, k + 1, mb[k], mb[k + 1])})
    if mass_from_layers:
        ms = sum(L.mass for L in Ls)
        if not close(ms, w.mass):
            bad.append({"clause": "mass_sum", "detail": "%s sum of layer masses %r != world mass %r" % (label, ms, w.mass)})
    return bad


def access_paths(w):
    """the same layers reached through every public lookup path: list, name table, find_layer, attribute"""
    bad = []
    for i, L in enumerate(w.layers):
        nm = L.name
        paths = {"layers_by_name": None, "find_layer": None, "attribute": None}
        try:
            paths["layers_by_name"] = w.layers_by_name[nm]
        except Exception as ex:
            paths["layers_by_name"] = "raised %s" % type(ex).__name__
        try:
            paths["find_layer"] = w.find_layer(nm)
        except Exception as ex:
            paths["find_layer"] = "raised %s" % type(ex).__name__
        paths["attribute"] = getattr(w, nm, None)
        for k, v in paths.items():
            if v is not L:
                bad.append("%s[%r] is not the world's own layer %d (it is %r of world %r)" % (k, nm, i, v, getattr(getattr(v, "world", None), "name", None)))
    return bad


def geometry(w):
    return {"radius": w.radius, "layers": [{"radius": L.radius, "inner": L.radius_inner, "thickness": L.thickness,
                                            "volume": L.volume, "mass": L.mass} for L in w.layers],
            "volume": w.volume, "radii": [float(x) for x in np.asarray(w.radii)]}


def scaled_ok(g0, g1, k, label):
    bad = []
    pairs = [("radius", g0["radius"], g1["radius"])]
    for i, (a, b) in enumerate(zip(g0["layers"], g1["layers"])):
        for key in ("radius", "inner", "thickness"):
            pairs.append(("layer%d.%s" % (i, key), a[key], b[key]))
    if len(g0["radii"]) == len(g1["radii"]):
        for j in (0, len(g0["radii"]) // 2, len(g0["radii"]) - 1):
            pairs.append(("radii[%d]" % j, g0["radii"][j], g1["radii"][j]))
    else:
        bad.append({"clause": "scale_lengths", "detail": "%s number of slices changed %d -> %d" % (label, len(g0["radii"]), len(g1["radii"]))})
    for nm, a, b in pairs:
        if not close(a * k, b):
            bad.append({"clause": "scale_lengths", "detail": "%s %s: %r * %r != %r" % (label, nm, a, k, b)})
    for i, (a, b) in enumerate(zip(g0["layers"], g1["layers"])):
        if not close(a["volume"] / g0["volume"], b["volume"] / g1["volume"]):
            bad.append({"clause": "scale_volume_fractions", "detail": "%s layer %d volume fraction %r -> %r" % (
                label, i, a["volume"] / g0["volume"], b["volume"] / g1["volume"])})
    return bad


def check_config(st):
    """One TLC state of WorldGeometry: build, compare with the spec's integers, check clauses, scale."""
    from TidalPy.structures import build_world, scale_from_world
    cfg, vol3, masses = config_from_state(st)
    cfg_before = copy.deepcopy(cfg)
    out = []
    try:
        w = with_alarm(30, build_world, "VerifWorld", cfg)
    except Hang:
        return [{"clause": "terminates", "detail": "build_world did not return within 30 s"}]
    except Exception as ex:
        return [{"clause": "build_raises", "detail": "%s: %s" % (type(ex).__name__, str(ex)[:200])}]
    if cfg != cfg_before:
        out.append({"clause": "inputs_unmutated", "detail": "build_world changed the caller's configuration dict"})
    out += clauses(w, "built", not st["worldMassGiven"])
    R = st["R"]
    for i, L in enumerate(w.layers):
        if not close(L.radius, R[i] * U):
            out.append({"clause": "spec_geometry", "detail": "layer %d radius %r, spec %r" % (i, L.radius, R[i] * U)})
        if not close(L.volume, FOURPI3 * U ** 3 * vol3[i]):
            out.append({"clause": "spec_geometry", "detail": "layer %d volume %r, spec %r" % (i, L.volume, FOURPI3 * U ** 3 * vol3[i])})
        if not close(L.mass, masses[i], 1e-10):
            out.append({"clause": "spec_geometry", "detail": "layer %d mass %r, spec %r" % (i, L.mass, masses[i])})
    if st["k2"] != 2:
        k = st["k2"] / 2.0
        g0 = geometry(w)
        c0 = copy.deepcopy(w.config)
        try:
            w2 = with_alarm(30, scale_from_world, w, radius_scale=k)
        except Hang:
            return out + [{"clause": "terminates", "detail": "scale_from_world did not return within 30 s"}]
        except Exception as ex:
            return out + [{"clause": "scale_raises", "detail": "%s: %s" % (type(ex).__name__, str(ex)[:200]),
                           "gforms": "+".join(sorted(set(st["gform"])))}]
        out += scaled_ok(g0, geometry(w2), k, "scale x%g" % k)
        # a world whose mass comes from its layers keeps deriving it after scaling (the user never gave a mass)
        out += clauses(w2, "scaled x%g" % k, not st["worldMassGiven"])
        if w.config != c0:
            out.append({"clause": "inputs_unmutated", "detail": "scale_from_world changed the parent's config"})
        if geometry(w) != g0:
            out.append({"clause": "inputs_unmutated", "detail": "scale_from_world changed the parent's geometry"})
        if w2.name == w.name:
            out.append({"clause": "distinct_name", "detail": "scaled world has the parent's name %r" % w.name})
    return out


TOK = {"V": "_variant", "S": "super-", "M": "mini-"}


def render(tokens, base):
    s = ""
    for t in tokens:
        if t == "B":
            s += base
        elif t in TOK:
            s += TOK[t]
        elif t[0] == "N":
            s += "_" + t[1:]
        elif t[0] == "U":
            s += "UserWorld" + t[1:]
        else:
            raise ValueError(t)
    return s


def check_chain(chain, base_name):
    """chain = [[kind, [num, den], nm, expected_name_tokens, [snum, sden]], ...]"""
    from TidalPy.structures import build_world, build_from_world, scale_from_world
    from TidalPy.structures.world_builder.config_handler import get_world_configs
    out = []
    w = build_world(base_name)
    cfg_base = w.config["name"]
    g_first = geometry(w)
    known_before = copy.deepcopy(get_world_configs().get(base_name))
    # whether the user gave a mass is read from the SHIPPED configuration, not from what a built world carries in .config
    root_mass_from_layers = (known_before or {}).get("mass") is None
    for step, (kind, k, nm, exp_tokens, sc) in enumerate(chain):
        c0 = copy.deepcopy(w.config)
        g0 = geometry(w)
        old_name = w.config["name"]
        new_cfg = {}
        kwargs = {}
        fresh = "UserWorld%d" % (step + 1)
        if nm == "same":
            kwargs["new_name"] = old_name
        elif nm == "fresh":
            kwargs["new_name"] = fresh
        elif nm == "cfg_same":
            new_cfg["name"] = old_name
        elif nm == "cfg_fresh":
            new_cfg["name"] = fresh
        if kind == "from":
            new_cfg["albedo"] = 0.3 + 0.01 * step
            new_cfg["layers"] = {list(w.config["layers"].keys())[0]: {"is_tidal": False}}
        nc0 = copy.deepcopy(new_cfg)
        label = "step %d %s(%s,%s)" % (step + 1, kind, k, nm)
        try:
            if kind == "from":
                w2 = with_alarm(20, build_from_world, w, new_cfg, **kwargs)
            else:
                w2 = with_alarm(20, scale_from_world, w, radius_scale=k[0] / k[1], **kwargs)
        except Hang:
            out.append({"clause": "terminates", "detail": "%s on a world named %r did not return within 20 s" % (label, old_name),
                        "parent_name_shape": "variant_numbered" if "_variant_" in old_name else "other"})
            break
        except Exception as ex:
            out.append({"clause": "derive_raises", "detail": "%s: %s: %s" % (label, type(ex).__name__, str(ex)[:200])})
            break
        exp = render(exp_tokens, cfg_base)
        if w2.config["name"] != exp:
            out.append({"clause": "spec_name", "detail": "%s: config name %r, spec %r" % (label, w2.config["name"], exp)})
        if w2.name == w.name or w2.config["name"] == old_name:
            out.append({"clause": "distinct_name", "detail": "%s: derived world is named like its parent: %r" % (label, w2.name)})
        if w.config != c0:
            out.append({"clause": "inputs_unmutated", "detail": "%s changed the parent world's config" % label})
        if new_cfg != nc0:
            out.append({"clause": "inputs_unmutated", "detail": "%s changed the caller's new_config" % label})
        if geometry(w) != g0:
            out.append({"clause": "inputs_unmutated", "detail": "%s changed the parent world's geometry" % label})
        for msg in access_paths(w)[:2]:
            out.append({"clause": "inputs_unmutated", "detail": "%s: parent world afterwards: %s" % (label, msg)})
        for msg in access_paths(w2)[:2]:
            out.append({"clause": "layer_lookup", "detail": "%s: derived world: %s" % (label, msg)})
        # the same derivation from the same parent a second time (fan-out) gives the same geometry
        if not out and step % 2 == 0:
            try:
                kw2 = dict(kwargs)
                if "new_name" in kw2 and nm == "fresh":
                    kw2["new_name"] = fresh + "b"
                if kind == "from":
                    w3 = with_alarm(20, build_from_world, w, copy.deepcopy(nc0), **kw2)
                else:
                    w3 = with_alarm(20, scale_from_world, w, radius_scale=k[0] / k[1], **kw2)
                g2, g3 = geometry(w2), geometry(w3)
                if json.dumps(g2, sort_keys=True, default=str) != json.dumps(g3, sort_keys=True, default=str):
                    out.append({"clause": "derive_repeatable", "detail": "%s: deriving twice from the same parent gives different geometry: %r vs %r" % (
                        label, [L["radius"] for L in g2["layers"]], [L["radius"] for L in g3["layers"]])})
            except Hang:
                out.append({"clause": "terminates", "detail": "%s (second derivation from the same parent) did not return within 20 s" % label,
                            "parent_name_shape": "variant_numbered" if "_variant_" in old_name else "other"})
            except Exception as ex:
                out.append({"clause": "derive_raises", "detail": "%s (second derivation from the same parent): %s: %s" % (label, type(ex).__name__, str(ex)[:200])})
        if copy.deepcopy(get_world_configs().get(base_name)) != known_before:
            out.append({"clause": "inputs_unmutated", "detail": "%s changed the shipped configuration table entry %s" % (label, base_name)})
        out += scaled_ok(g_first, geometry(w2), sc[0] / sc[1], label + " total scale %d/%d" % tuple(sc))
        out += clauses(w2, label, root_mass_from_layers)
        if out:
            break
        w = w2
    return out


def check_shipped(name):
    from TidalPy.structures import build_world, scale_from_world, build_from_world
    out = []
    try:
        w = with_alarm(60, build_world, name)
    except Hang:
        return [{"clause": "terminates", "detail": "build_world(%s) hang" % name}]
    except Exception as ex:
        return [{"clause": "build_raises", "detail": "%s: %s: %s" % (name, type(ex).__name__, str(ex)[:200])}]
    if not hasattr(w, "layers"):
        return [{"skipped": "not layered"}]
    from TidalPy.structures.world_builder.config_handler import get_world_configs
    shipped_mass_from_layers = (get_world_configs().get(name) or {}).get("mass") is None
    out += clauses(w, name, shipped_mass_from_layers)
    for k in (0.5, 2.0):
        try:
            w2 = with_alarm(60, scale_from_world, w, radius_scale=k)
            out += scaled_ok(geometry(w), geometry(w2), k, "%s x%g" % (name, k))
            out += clauses(w2, "%s x%g" % (name, k), shipped_mass_from_layers)
        except Hang:
            out.append({"clause": "terminates", "detail": "scale_from_world(%s) hang" % name})
        except Exception as ex:
            out.append({"clause": "scale_raises", "detail": "%s x%g: %s: %s" % (name, k, type(ex).__name__, str(ex)[:200]),
                        "world": name})
    return out


def main():
    import logging
    import TidalPy  # noqa
    logging.disable(logging.WARNING)
    job = json.load(open(sys.argv[1]))
    res = {"configs": [], "chains": [], "shipped": []}
    for st in job.get("configs", []):
        res["configs"].append(check_config(st))
    for ch in job.get("chains", []):
        res["chains"].append(check_chain(ch["steps"], ch["base"]))
    for nm in job.get("shipped", []):
        res["shipped"].append(check_shipped(nm))
    json.dump(res, open(sys.argv[1] + ".out.json", "w"))


if __name__ == "__main__":
    main()
