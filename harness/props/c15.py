"""C15 - 3-D tidal stress and strain are consistent with the radial functions.

Spec: specs/StressStrain.tla over Gaussian rationals: strain from the Takeuchi-Saito definitions with U_thth defined by the
degree-l Laplace identity, Hooke's law, and on every lattice point the traction identities sigma_rr = y2 U,
sigma_rth = y4 U_th, sigma_rph = y4 U_ph / sin(th), heating >= 0 for passive moduli and = 0 for real moduli; every point
is exported. Binding (X): calculate_strain_stress (jitted, batched over the radius axis, and undecorated point by point),
calculate_volumetric_heating and calculate_displacements on every exported point."""
import json
import math
import random
from fractions import Fraction

import numpy as np

from .. import core
from ..core import pyf, Check, MachineryError, run_tlc


def fr(p):
    return Fraction(p[0], p[1])


def cx(z):
    return complex(float(fr(z[0])), float(fr(z[1])))


def run(tier, seed):
    ck = Check("C15", "model_checking", tier, seed)
    r = run_tlc("MC_StressStrain", "StressStrain.cfg", workers=16, timeout=1800)
    ck.add_tlc(r, "StressStrain lattice (tractions, Hooke, dissipation sign)")
    rows = core.printed_values(r.stdout, "ROW")
    if len(rows) != r.distinct or len(rows) < 1000:
        raise MachineryError("exported %d rows for %d states" % (len(rows), r.distinct))
    import TidalPy  # noqa
    from TidalPy.tides.multilayer.stress_strain import calculate_strain_stress
    from TidalPy.tides.heating import calculate_volumetric_heating
    from TidalPy.tides.multilayer.displacements import calculate_displacements
    # group rows that share angle + potential + degree: they differ only along the radius axis
    groups = {}
    for row in rows:
        _, ys, mu, kb, rr, l, th, us, strain, stress, heat = row
        groups.setdefault((l, th, us), []).append(row)
    worst = {"strain": 0.0, "stress": 0.0, "heat": 0.0, "disp": 0.0}
    nrows = 0
    for gi, ((l, th, us), grp) in enumerate(sorted(groups.items(), key=str)):
        sn, cs = float(fr(th[0])), float(fr(th[1]))
        theta = math.atan2(sn, cs)
        U, Uth, Uph, Uthth, Uphph, Uthph = (cx(z) for z in us)
        mk = lambda z: np.full((1, 1, 1), z, dtype=np.complex128)
        ny = len(grp)
        Y = np.zeros((6, ny), dtype=np.complex128)
        radius = np.zeros(ny)
        shear = np.zeros(ny, dtype=np.complex128)
        bulk = np.zeros(ny, dtype=np.complex128)
        for i, row in enumerate(grp):
            ys, mu, kb, rr = row[1], row[2], row[3], row[4]
            for k in range(4):
                Y[k, i] = cx(ys[k])
            radius[i] = float(rr)
            shear[i] = cx(mu)
            bulk[i] = cx(kb)
        Y0, radius0, shear0, bulk0 = Y, radius, shear, bulk
        lon, col, tim = np.array([0.3]), np.array([theta]), np.array([0.0])
        # the identities are homogeneous: moduli, y2, y4 (and with them the stresses) scale by s, lengths r, y1, y3 by rho, the strains by
        # nothing.  Exact powers of two carry the lattice to planetary magnitudes (GPa .. beyond 1e18 Pa, metres .. 1e6 m) without rounding.
        variants = [("jit", calculate_strain_stress, 1.0, 1.0), ("py_func", pyf(calculate_strain_stress) if gi % 8 == 0 else None, 1.0, 1.0),
                    ("jit", calculate_strain_stress) + [(2.0 ** 37, 2.0 ** 20), (2.0 ** 54, 1.0), (2.0 ** 63, 2.0 ** 22), (2.0 ** -30, 2.0 ** -10)][gi % 4]]
        for tag, fn, mscale, lscale in variants:
            if fn is None:
                continue
            Y = Y0.copy()
            Y[0] *= lscale
            Y[2] *= lscale
            Y[1] *= mscale
            Y[3] *= mscale
            radius, shear, bulk = radius0 * lscale, shear0 * mscale, bulk0 * mscale
            keep = [a.copy() for a in (Y, radius, shear, bulk)]
            # the forcing frequency of the mode is an argument the identities do not depend on: positive, tiny, zero (static tide) and
            # negative (retrograde mode) values rotate through the lattice groups
            freq = [1.0e-5, 1.0e-12, 0.0, -1.0e-5, 3.0e-5][gi % 5]
            for rep in range(2 if tag == "jit" else 1):      # the second call reuses the same input arrays
                strains, stresses = fn(mk(U), mk(Uth), mk(Uph), mk(Uthth), mk(Uphph), mk(Uthph), Y, lon, col, tim, radius, shear, bulk, freq, l)
            if not all(np.array_equal(a, b) for a, b in zip((Y, radius, shear, bulk), keep)):
                ck.violation({"clause": "inputs_unmodified", "fn": "calculate_strain_stress"}, "calculate_strain_stress[%s] modified its input arrays" % tag, {})
            heat_r = calculate_volumetric_heating(stresses, strains) / mscale
            for i, row in enumerate(grp):
                nrows += 1
                es = np.array([cx(z) for z in row[8]])
                ss = np.array([cx(z) for z in row[9]])
                eh = float(fr(row[10]))
                got_e, got_s = strains[:, i, 0, 0, 0], stresses[:, i, 0, 0, 0] / mscale
                det = {"impl": tag, "moduli_scaled_by": mscale, "lengths_scaled_by": lscale, "l": l, "sin,cos": [str(fr(th[0])), str(fr(th[1]))], "y": [str(cx(z)) for z in row[1]], "mu": str(cx(row[2])),
                       "K": str(cx(row[3])), "r": row[4], "U,Uth,Uph,Uthth,Uphph,Uthph": [str(cx(z)) for z in us], "frequency": freq}
                ck.case(("pt", tag, gi, i, mscale, lscale), True)
                names = ["rr", "thth", "phph", "rth", "rph", "thph"]
                sc_e = max(np.max(np.abs(es)), 1e-300)
                sc_s = max(np.max(np.abs(ss)), 1e-300)
                de = np.abs(got_e - es) / sc_e
                ds = np.abs(got_s - ss) / sc_s
                worst["strain"] = max(worst["strain"], float(np.max(de)))
                worst["stress"] = max(worst["stress"], float(np.max(ds)))
                if np.max(de) > 1e-12 or not np.all(np.isfinite(got_e)):
                    k = int(np.argmax(de))
                    ck.violation({"clause": "strain_definition", "component": names[k]},
                                 "strain_%s = %r, definition gives %r at %s" % (names[k], complex(got_e[k]), complex(es[k]), det), det)
                    continue
                if np.max(ds) > 1e-12 or not np.all(np.isfinite(got_s)):
                    k = int(np.argmax(ds))
                    which = {0: "traction_rr(=y2 U)", 3: "traction_rtheta(=y4 U_th)", 4: "traction_rphi(=y4 U_ph/sin)"}.get(k, "hooke")
                    ck.violation({"clause": which, "component": names[k]},
                                 "stress_%s = %r, 2 mu e + lam tr(e) / traction identity gives %r at %s" % (names[k], complex(got_s[k]), complex(ss[k]), det), det)
                    continue
                hr = float(heat_r[i, 0, 0, 0])
                hs = sc_e * sc_s
                worst["heat"] = max(worst["heat"], abs(hr - abs(eh)) / hs)
                if not (hr >= 0.0) or abs(hr - abs(eh)) > 1e-12 * hs or np.iscomplexobj(heat_r):
                    ck.violation({"clause": "heating", "elastic": eh == 0}, "volumetric heating = %r, definition gives %r at %s" % (hr, abs(eh), det), det)
        # call sequences over colatitude GRIDS: same number of points and the same end points, different interior point; every column
        # of a batched call must equal the single-colatitude call at that angle (whatever was evaluated before)
        if gi % 4 == 0:
            Y, radius, shear, bulk = Y0, radius0, shear0, bulk0
            mk3 = lambda z: np.full((1, 3, 1), z, dtype=np.complex128)
            single = {}
            for thx in (0.3, theta, 0.5 * (theta + 0.3) + 0.7, 2.8):
                e1, s1 = calculate_strain_stress(mk(U), mk(Uth), mk(Uph), mk(Uthth), mk(Uphph), mk(Uthph), Y, lon, np.array([thx]), tim, radius, shear, bulk, 1.0e-5, l)
                single[thx] = (e1[:, :, 0, 0, 0].copy(), s1[:, :, 0, 0, 0].copy())
            grid = np.array([0.3, 0.5 * (theta + 0.3) + 0.7, 2.8])
            for rep, mid in enumerate((0.5 * (theta + 0.3) + 0.7, theta, 0.5 * (theta + 0.3) + 0.7)):
                if rep == 1:
                    grid[1] = mid                      # the caller's grid array changed in place
                else:
                    grid = np.array([0.3, mid, 2.8])
                e3, s3 = calculate_strain_stress(mk3(U), mk3(Uth), mk3(Uph), mk3(Uthth), mk3(Uphph), mk3(Uthph), Y, lon, grid, tim, radius, shear, bulk, 1.0e-5, l)
                for j, thx in enumerate((0.3, mid, 2.8)):
                    ck.case(("grid_sequence", gi, rep, j), True)
                    for nm, got, exp in (("strain", e3[:, :, 0, j, 0], single[thx][0]), ("stress", s3[:, :, 0, j, 0], single[thx][1])):
                        sc = max(float(np.max(np.abs(exp))), 1e-300)
                        if not np.all(np.abs(got - exp) <= 1e-12 * sc):
                            ck.violation({"clause": "grid_sequence", "what": nm},
                                         "%s at colatitude %.6f (column %d of the grid %s, call %d of a sequence of grids with equal size and end points) differs from the single-colatitude call by %.3g (relative)" % (
                                             nm, thx, j, [round(float(x), 6) for x in grid], rep + 1, float(np.max(np.abs(got - exp))) / sc), {"l": l, "grid": [float(x) for x in grid], "rep": rep})
        # next to the poles: 1 / sin(theta) and cot(theta) are large but finite; the traction identities hold there as everywhere
        # (U_thth from the degree-l Laplace identity at that colatitude; cancellation of the 1/sin^2 terms costs ~1e-10, tolerance 1e-6)
        if gi % 8 == 0:
            Y, radius, shear, bulk = Y0, radius0, shear0, bulk0
            for thp in (1.0e-3, 4.0e-3, 9.0e-3, math.pi - 2.0e-3):
                sp, cp_ = math.sin(thp), math.cos(thp)
                Utt_p = -l * (l + 1) * U - (cp_ / sp) * Uth - Uphph / sp ** 2
                eP, sP = calculate_strain_stress(mk(U), mk(Uth), mk(Uph), mk(Utt_p), mk(Uphph), mk(Uthph), Y, lon, np.array([thp]), tim, radius, shear, bulk, 1.0e-5, l)
                ck.case(("near_pole", gi, thp), True)
                for i in range(len(radius)):
                    y2c, y4c = Y[1, i], Y[3, i]
                    want = {0: y2c * U, 3: y4c * Uth, 4: y4c * Uph / sp}
                    scl = max(float(np.max(np.abs(sP[:, i, 0, 0, 0]))), max(abs(v) for v in want.values()), 1e-300)
                    for kx, wv in want.items():
                        if not abs(complex(sP[kx, i, 0, 0, 0]) - wv) <= 1e-6 * scl:
                            nmx = {0: "sigma_rr = y2 U", 3: "sigma_rtheta = y4 U_theta", 4: "sigma_rphi = y4 U_phi / sin(theta)"}[kx]
                            ck.violation({"clause": "near_pole", "identity": nmx.split(" ")[0]}, "at colatitude %.4g rad (next to a pole) %s fails: got %r, identity gives %r (largest stress component %.3g)" % (
                                thp, nmx, complex(sP[kx, i, 0, 0, 0]), wv, scl), {"l": l, "theta": thp})
                            break
        # axis order: potentials that differ along longitude, colatitude AND time (2 x 3 x 2); every (longitude, colatitude, time)
        # element of the batched result must be the single-point result for the potential values at that element
        if gi % 16 == 0:
            Y, radius, shear, bulk = Y0, radius0, shear0, bulk0
            lons, cols, tims = np.array([0.3, 1.9]), np.array([0.4, theta, 2.5]), np.array([0.0, 7.0e4])
            wgt = np.array([[[1.0 + 0.25 * a_ - 0.5 * b_ + 0.125 * c_ for c_ in range(2)] for b_ in range(3)] for a_ in range(2)])
            pots = [z * wgt.astype(np.complex128) for z in (U, Uth, Uph, Uthth, Uphph, Uthph)]
            eB, sB = calculate_strain_stress(pots[0], pots[1], pots[2], pots[3], pots[4], pots[5], Y, lons, cols, tims, radius, shear, bulk, 1.0e-5, l)
            ok_shape = eB.shape == (6, len(radius), 2, 3, 2)
            ck.case(("axis_order", gi), True)
            if not ok_shape:
                ck.violation({"clause": "axis_order", "what": "shape"}, "strain tensor has shape %s for (radius, longitude, colatitude, time) = (%d, 2, 3, 2)" % (eB.shape, len(radius)), {"l": l})
            else:
                for a_ in range(2):
                    for b_ in range(3):
                        for c_ in range(2):
                            w_ = wgt[a_, b_, c_]
                            e1, s1 = calculate_strain_stress(mk(U * w_), mk(Uth * w_), mk(Uph * w_), mk(Uthth * w_), mk(Uphph * w_), mk(Uthph * w_), Y, lons[a_:a_ + 1], cols[b_:b_ + 1], tims[c_:c_ + 1],
                                                             radius, shear, bulk, 1.0e-5, l)
                            for nm, got, exp in (("strain", eB[:, :, a_, b_, c_], e1[:, :, 0, 0, 0]), ("stress", sB[:, :, a_, b_, c_], s1[:, :, 0, 0, 0])):
                                sc = max(float(np.max(np.abs(exp))), 1e-300)
                                if not np.all(np.abs(got - exp) <= 1e-12 * sc):
                                    ck.violation({"clause": "axis_order", "what": nm}, "%s[:, :, %d, %d, %d] of a (2 longitudes x 3 colatitudes x 2 times) call differs from the single-point call at that element by %.3g (relative)" % (
                                        nm, a_, b_, c_, float(np.max(np.abs(got - exp))) / sc), {"l": l, "index": [a_, b_, c_]})
        # displacements on the same lattice
        Y = Y0
        rad, pol, azi = calculate_displacements(mk(U), mk(Uth), mk(Uph), Y, theta)
        for i, row in enumerate(grp):
            y1c, y3c = cx(row[1][0]), cx(row[1][2])
            exp = (y1c * U, y3c * Uth, y3c * Uph / sn)
            got = (complex(rad[i, 0, 0, 0]), complex(pol[i, 0, 0, 0]), complex(azi[i, 0, 0, 0]))
            d = max(abs(g - e) / max(abs(e), 1e-300) if e != 0 else abs(g) for g, e in zip(got, exp))
            worst["disp"] = max(worst["disp"], d)
            if d > 1e-12:
                ck.violation({"clause": "displacement"}, "displacements %r, definition %r" % (got, exp), {"l": l})
    ck.cov["traces_validated_against_impl"] = len(rows)
    ck.notes["worst_relative_deviation"] = worst
    ck.notes["rows_compared"] = nrows
    row = rows[0]
    ck.sample({"y1..y4": [str(cx(z)) for z in row[1]], "mu": str(cx(row[2])), "K": str(cx(row[3])), "r": row[4], "l": row[5],
               "strain_rr(exact)": [str(fr(row[8][0][0])), str(fr(row[8][0][1]))], "stress_rr(exact)": [str(fr(row[9][0][0])), str(fr(row[9][0][1]))],
               "heat(exact)": str(fr(row[10]))})
    ck.sample({"note": "second sample", "l": rows[-1][5], "heat(exact)": str(fr(rows[-1][10]))})
    if abs((1 + 2e-12) - 1) <= 1e-12:
        raise MachineryError("negative control failed")
    ck.notes["negative_control"] = "a 2e-12 relative perturbation exceeds the 1e-12 comparison tolerance"
    ck.cov["rule"] = "one case = one exported lattice point (y1..y4, mu, K, r, l, theta, potential sample) through one implementation (jitted batched / undecorated)"
    ck.assumptions += ["theta = atan2(sin, cos) of the rational pair: the code's own sin/cos/tan of that angle are within 1e-16 of the rationals",
                       "tolerance 1e-12 relative to the largest tensor component", "scaled variants use exact powers of two (moduli up to 2^63 Pa-units, lengths up to 2^22): the expected tensors are the lattice values times the scale"]
    return ck.finish()


def replay(path):
    print(open(path).read()[:2000])
    return 1
