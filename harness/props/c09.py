"""C09 - inclination functions and degree coefficients equal Kaula's definitions.

Spec: specs/Kaula.tla. TLC decides for all 199 (l, m, p), l = 2..7, that the half-angle form and Kaula's (1966) original
triple sum define the same function on the circle s^2 + c^2 = 1 (over GF(P) for two primes, more points than twice the
degree), which (m, p) survive at I = 0, and exports the exact integer polynomial + rational prefactor of every F_lmp.
Binding (X): every tabulated F^2_lmp (undecorated and jitted, scalar and array) is compared with the squared spec
polynomial at 240 obliquities in [0, pi]; the _off tables with the exact I = 0 values; get_universal_coeffs with the
exact fraction; the multi-degree lookup helpers with the per-degree tables."""
import json
import math
import random
from fractions import Fraction

import numpy as np

from .. import core
from ..core import pyf, Check, MachineryError, run_tlc

ULP = 2.0 ** -52


def run(tier, seed):
    ck = Check("C09", "model_checking", tier, seed)
    rng = random.Random(seed)
    r = run_tlc("Kaula", "Kaula.cfg", workers=8, timeout=1200)
    ck.add_tlc(r, "Kaula forms A=B on 40 circle points over GF(32749); I=0 survivors; export")
    rows = core.printed_values(r.stdout, "ROW")
    if len(rows) != 199:
        raise MachineryError("expected 199 (l,m,p) rows, got %d" % len(rows))
    if tier == "thorough":
        r2 = run_tlc("Kaula", "Kaula_p2.cfg", workers=8, timeout=1200)
        ck.add_tlc(r2, "Kaula forms A=B over GF(46337)")
    spec = {}
    uni = {}
    for _, l, m, p, pref, poly, un, ufac in rows:
        spec[(l, m, p)] = (Fraction(pref[0], pref[1]), sorted(poly))
        d = 1
        for f in ufac:
            d *= f
        uni[(l, m)] = Fraction(un, d)
    import TidalPy  # noqa
    from TidalPy.tides import inclination_funcs as IF
    from TidalPy.tides.universal_coeffs import get_universal_coeffs
    nang = 240
    angles = np.concatenate([np.linspace(0.0, math.pi, nang - 6), np.array([1e-8, 1e-3, math.pi / 2, math.pi - 1e-3, 0.7, 2.9])])
    sh, ch = np.sin(angles / 2), np.cos(angles / 2)

    def f2(l, m, p, S=sh, Cc=ch):
        pref, poly = spec[(l, m, p)]
        acc = 0.0
        for coef, ce, se in poly:
            acc = acc + coef * Cc ** ce * S ** se
        return (float(pref) * acc) ** 2

    worst = 0.0
    for l in range(2, 8):
        on = IF.inclination_functions_on[l]
        off = IF.inclination_functions_off[l]
        variants = [("py_func/array", pyf(on)(angles))]
        variants.append(("jit/array", {k: np.asarray(v) for k, v in on(angles).items()}))
        sc = {}
        for j in (0, 37, 100, nang - 1):
            for k, v in pyf(on)(float(angles[j])).items():
                sc.setdefault(k, {})[j] = float(v)
        for tag, res in variants:
            keys = set(res.keys())
            for m in range(l + 1):
                for p in range(l + 1):
                    exp = f2(l, m, p)
                    ck.case(("F2", l, m, p, tag), True)
                    if (m, p) not in keys:
                        if np.max(np.abs(exp)) > 0:
                            ck.violation({"clause": "missing_entry", "l": l, "m": m, "p": p},
                                         "calc_inclin_l%d has no (m,p)=(%d,%d) entry but F^2 is not identically zero (max %.3g)" % (l, m, p, np.max(exp)),
                                         {"l": l, "m": m, "p": p})
                        continue
                    got = np.asarray(res[(m, p)], dtype=float)
                    scale = max(float(np.max(np.abs(exp))), 1e-300)
                    err = float(np.max(np.abs(got - exp))) / scale
                    worst = max(worst, err)
                    if err > 1e-11:
                        j = int(np.argmax(np.abs(got - exp)))
                        ck.violation({"clause": "table_value", "l": l, "m": m, "p": p},
                                     "calc_inclin_l%d[%s] (m,p)=(%d,%d): F^2(I=%.6f) = %r, Kaula %r (max dev %.3g of the entry's range)" % (
                                         l, tag, m, p, angles[j], float(got[j]), float(exp[j]), err),
                                     {"l": l, "m": m, "p": p, "I": float(angles[j]), "got": float(got[j]), "kaula": float(exp[j])})
            extra = keys - {(m, p) for m in range(l + 1) for p in range(l + 1)}
            if extra:
                ck.violation({"clause": "unknown_entry", "l": l}, "calc_inclin_l%d has entries outside 0<=m,p<=l: %s" % (l, sorted(extra)), {"l": l})
        # scalar calls agree with the array call
        arr = variants[0][1]
        for k, d in sc.items():
            for j, v in d.items():
                if abs(v - float(arr[k][j])) > 1e-12 * max(float(np.max(np.abs(arr[k]))), 1e-300):
                    ck.violation({"clause": "scalar_array", "l": l, "m": k[0], "p": k[1]}, "calc_inclin_l%d scalar vs array differ at (m,p)=%s" % (l, k), {"l": l})
        # obliquity-off tables: value at I = 0, omitted entries are exactly zero there
        for tag, res in (("py_func", pyf(off)(np.zeros(2))), ("jit", off(np.zeros(2))), ("scalar", pyf(off)(0.0))):
            keys = set(res.keys())
            for m in range(l + 1):
                for p in range(l + 1):
                    pref, poly = spec[(l, m, p)]
                    z = [c for c, ce, se in poly if se == 0]
                    exact = (pref * sum(z)) ** 2 if z else Fraction(0)
                    ck.case(("F2off", l, m, p, tag), True)
                    if (m, p) in keys:
                        got = float(np.asarray(res[(m, p)]).ravel()[0])
                        if abs(got - float(exact)) > 4 * ULP * max(abs(float(exact)), 1e-300):
                            ck.violation({"clause": "off_value", "l": l, "m": m, "p": p},
                                         "calc_inclin_l%d_off[%s] (m,p)=(%d,%d) = %r, F^2(0) = %s" % (l, tag, m, p, got, exact), {"l": l, "m": m, "p": p})
                    elif exact != 0:
                        ck.violation({"clause": "off_missing", "l": l, "m": m, "p": p},
                                     "calc_inclin_l%d_off omits (m,p)=(%d,%d) but F^2(0) = %s" % (l, m, p, exact), {"l": l, "m": m, "p": p})
        # degree coefficients
        uc = get_universal_coeffs(l)
        ucp = pyf(get_universal_coeffs)(l)
        for m in range(l + 1):
            ck.case(("uni", l, m), True)
            for tag, tab in (("jit", uc), ("py", ucp)):
                if m not in tab:
                    ck.violation({"clause": "universal_missing", "l": l, "m": m}, "get_universal_coeffs(%d) has no m=%d" % (l, m), {"l": l, "m": m})
                    continue
                got = float(tab[m])
                ex = float(uni[(l, m)])
                if abs(got - ex) > 2 * ULP * ex:
                    ck.violation({"clause": "universal_value", "l": l, "m": m},
                                 "get_universal_coeffs(%d)[%d][%s] = %r, (2-d0m)(l-m)!/(l+m)! = %s" % (l, m, tag, got, uni[(l, m)]), {"l": l, "m": m})
    # multi-degree lookup helpers return exactly the per-degree tables
    from TidalPy.tides.modes.mode_manipulation import find_mode_manipulators
    test_I = np.array([0.3, 1.1])
    for lmax in range(2, 8):
        for use_obl in (True, False):
            _, _, _, inc = find_mode_manipulators(lmax, 2, use_obl)
            res = inc(test_I if use_obl else np.zeros(2))
            ck.case(("lookup", lmax, use_obl), True)
            if sorted(res.keys()) != list(range(2, lmax + 1)):
                ck.violation({"clause": "lookup_degrees", "lmax": lmax}, "inclination lookup(max l=%d, obliquity=%s) returns degrees %s" % (lmax, use_obl, sorted(res.keys())), {})
                continue
            for l in range(2, lmax + 1):
                ref = (IF.inclination_functions_on[l] if use_obl else IF.inclination_functions_off[l])(test_I if use_obl else np.zeros(2))
                if set(ref.keys()) != set(res[l].keys()) or any(not np.array_equal(np.asarray(ref[k]), np.asarray(res[l][k])) for k in ref.keys()):
                    ck.violation({"clause": "lookup_table", "lmax": lmax, "l": l}, "inclination lookup(max l=%d, obliquity=%s)[%d] differs from calc_inclin_l%d%s" % (
                        lmax, use_obl, l, l, "" if use_obl else "_off"), {})
    if not np.array_equal(test_I, np.array([0.3, 1.1])):
        ck.violation({"clause": "inputs_unmodified", "fn": "lookup"}, "an inclination lookup changed the caller's obliquity array: %s" % test_I.tolist(), {})
    # the same helpers on a SCALAR obliquity, in sequence for different maximum degrees and for the obliquity-on / -off tables at the same
    # angle, and twice for the same request with the first answer overwritten in between: no answer may depend on an earlier call
    for I_s in (0.7, np.float64(2.2)):
        for k, (lmax, use_obl) in enumerate([(2, True), (3, True), (2, False), (3, True), (2, True), (5, True), (3, False), (4, True)]):
            try:
                _, _, _, inc = find_mode_manipulators(lmax, 2, use_obl)
                res = inc(I_s if use_obl else 0.0)
            except Exception as ex:
                ck.violation({"clause": "lookup_table", "lmax": lmax, "sequence": True}, "inclination lookup(max l=%d, obliquity=%s)(%r) raised %s" % (lmax, use_obl, I_s, ex), {})
                continue
            ck.case(("lookup-seq", float(I_s), k, lmax, use_obl), True)
            for l in range(2, lmax + 1):
                ref = (IF.inclination_functions_on[l] if use_obl else IF.inclination_functions_off[l])(I_s if use_obl else 0.0)
                if set(ref.keys()) != set(res[l].keys()) or any(float(np.asarray(ref[kk]).ravel()[0]) != float(np.asarray(res[l][kk]).ravel()[0]) for kk in ref.keys()):
                    ck.violation({"clause": "lookup_table", "lmax": lmax, "l": l, "sequence": True}, "inclination lookup(max l=%d, obliquity=%s)(%r), call %d of a sequence at the same angle: degree %d differs from calc_inclin_l%d%s" % (
                        lmax, use_obl, I_s, k + 1, l, l, "" if use_obl else "_off"), {})
                    break
            try:
                k0 = sorted(res[2].keys())[0]
                want = float(np.asarray(res[2][k0]).ravel()[0])
                res[2][k0] = -12345.0
                again = inc(I_s if use_obl else 0.0)
                if float(np.asarray(again[2][k0]).ravel()[0]) != want:
                    ck.violation({"clause": "lookup_table", "lmax": lmax, "aliasing": True}, "inclination lookup(max l=%d, obliquity=%s)(%r): a second identical request returns the caller's overwritten first answer" % (lmax, use_obl, I_s), {})
            except Exception:
                pass
    # every multi-degree lookup helper, evaluated as plain Python (NUMBA_DISABLE_JIT) on exact arguments, returns the per-degree tables
    import os
    pr = core.run_py(["-m", "harness.lookup_nojit"], timeout=900, env={"NUMBA_DISABLE_JIT": "1", "NUMBA_CACHE_DIR": os.environ.get("NUMBA_CACHE_DIR", "")})
    line = [x for x in pr.stdout.splitlines() if x.startswith("RESULT ")]
    if pr.returncode != 0 or not line:
        raise MachineryError("lookup_nojit failed: %s" % (pr.stderr[-800:]))
    lk = json.loads(line[0][7:])
    ck.notes["lookup_helpers_checked_without_jit"] = lk["helpers"]
    for b in lk["bad"]:
        if b["kind"] == "inclination":
            ck.case(("lookup-nojit", json.dumps(b, sort_keys=True)), True)
            ck.violation({"clause": "lookup_table", "lmax": b.get("lmax"), "N": b.get("N"), "l": b.get("l")}, "%s lookup helper (max l=%s%s): %s" % (
                b["kind"], b.get("lmax"), (", N=%s" % b["N"]) if "N" in b else "", b["what"]), b)
    ck.cov["traces_validated_against_impl"] = 199
    ck.notes["worst_relative_deviation"] = worst
    for k in [(2, 0, 1), (6, 3, 3), (7, 7, 0)]:
        ck.sample({"l,m,p": list(k), "prefactor": str(spec[k][0]), "terms[coef, c-exp, s-exp]": [list(t) for t in spec[k][1]]})
    # negative control
    pref, poly = spec[(6, 3, 3)]
    bad = [(c, ce - 3 if i == 0 else ce, se) for i, (c, ce, se) in enumerate(poly)]
    acc = sum(c * ch ** ce * sh ** se for c, ce, se in bad)
    if np.max(np.abs((float(pref) * acc) ** 2 - f2(6, 3, 3))) / np.max(f2(6, 3, 3)) <= 1e-11:
        raise MachineryError("negative control failed: perturbed exponent not detected")
    ck.notes["negative_control"] = "an exponent changed by 3 in one term of F_633 moves F^2 by far more than the 1e-11 tolerance"
    ck.cov["rule"] = "one case = one (l, m, p, implementation) table entry compared at 240 obliquities, one _off entry, one degree coefficient or one lookup helper"
    ck.assumptions += ["F^2 is a trigonometric polynomial of degree <= 4l in I/2: 240 distinct angles decide equality up to the 1e-11 tolerance",
                       "tolerance relative to the entry's maximum over [0, pi]"]
    return ck.finish()


def replay(path):
    print(open(path).read()[:2000])
    return 1
