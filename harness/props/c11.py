"""C11 - spin-orbit evolution rates conserve energy and angular momentum.

Spec: specs/Dynamics.tla in exact rationals (Kepler III imposed by defining G): TLC checks the energy balance, the
zero-obliquity angular-momentum balance and de/dt = 0 at e = 0 on every lattice point (single and dual dissipation) and
exports the rates. Binding (X): TidalPy.dynamics helpers (jitted + undecorated, scalar + array) on every exported row,
<= 8 ulp, exact zero and no exception at e = 0; (P) closed loop through quick_tidal_dissipation /
quick_dual_body_tidal_dissipation on random physical states (residuals relative to the heating)."""
import json
import math
import random
from fractions import Fraction

import numpy as np

from .. import core
from ..core import pyf, Check, MachineryError, run_tlc

ULP = 2.0 ** -52


def fr(p):
    return Fraction(p[0], p[1])


def rel(a, b):
    a, b = float(a), float(b)
    if a == b:
        return 0.0
    if not (math.isfinite(a) and math.isfinite(b)):
        return float("inf")
    return abs(a - b) / max(abs(a), abs(b))


def run(tier, seed):
    ck = Check("C11", "model_checking", tier, seed)
    rng = random.Random(seed)
    import TidalPy  # noqa
    from TidalPy.dynamics import single_dissipation as S, dual_dissipation as D
    TOL = 8 * ULP
    worst = {}
    seen_exc = set()

    def call(fn, f, args, exp, det, clause="rates", scale=None):
        try:
            got = f(*args)
        except Exception as ex:
            key = {"fn": fn, "clause": "total", "exc": type(ex).__name__, "e": det["e"]}
            ck.violation(key, "%s raised %s(%s) at %s" % (fn, type(ex).__name__, str(ex)[:80], det), det)
            return None
        gots = got if isinstance(got, tuple) else (got,)
        exps = exp if isinstance(exp, tuple) else (exp,)
        for nm, g, x in zip(("a", "b"), gots, exps):
            g0 = float(np.asarray(g).ravel()[-1])
            e = rel(g0, x)
            if scale is not None and nm == scale[0] and math.isfinite(g0):
                # de/dt is a difference of two terms: the error bound is relative to the terms, not to their difference
                e = abs(g0 - x) / max(scale[1], 1e-300)
            worst[fn] = max(worst.get(fn, 0.0), e / ULP if math.isfinite(e) else 1e300)
            if e > TOL:
                ck.violation({"fn": fn, "clause": "nan_at_e0" if (det["e"] == "0" and not math.isfinite(g0)) else clause, "e": det["e"]},
                             "%s[%s] = %r, exact rational value %r (rel %.3g) at %s" % (fn, nm, g0, x, e, det), det)
        return got

    for cfg, dual in (("Dynamics_single.cfg", False), ("Dynamics_dual.cfg", True)):
        r = run_tlc("MC_Dynamics", cfg, workers=1, timeout=900)
        ck.add_tlc(r, "Dynamics lattice, %s dissipation" % ("dual" if dual else "single"))
        rows = core.printed_values(r.stdout, "ROW")
        if len(rows) != r.distinct or not rows:
            raise MachineryError("exported %d rows for %d states" % (len(rows), r.distinct))
        if tier == "quick":
            rows = rows[::3] if not dual else rows[::6]
        for row in rows:
            _, m1, m2, a, n, ecc, u1, u2, w1, w2, c1, c2, dadt, dedt, dw1, dw2, h1, h2 = row
            e = float(fr(ecc[0]))
            det = {"dual": dual, "m1": m1, "m2": m2, "a": a, "n": n, "e": str(fr(ecc[0])), "u1": list(u1), "u2": list(u2)}
            ck.case(("row", dual, m1, m2, a, n, det["e"], tuple(u1), tuple(u2), w1, c1), True)
            da, de = float(fr(dadt)), float(fr(dedt))
            binv = (m1 + m2) / (m1 * m2)
            sq = float(fr(ecc[1]))
            tmag = 0.0 if float(fr(ecc[0])) == 0 else (sq / (n * a * a * float(fr(ecc[0])))) * (
                sq * binv * abs(m2 * u1[0] + m1 * u2[0]) + binv * abs(m2 * u1[1] + m1 * u2[1]))
            A, N, E = float(a), float(n), e
            arr = lambda x: np.array([1.0, float(x)]) * np.array([float(x), 1.0])      # [x, x]
            if not dual:
                for tag, w in (("jit", lambda f: f), ("py", lambda f: pyf(f))):
                    call("single.semi_major_axis_derivative/" + tag, w(S.semi_major_axis_derivative), (A, N, float(m1), float(u1[0]), float(m2)), da, det)
                    call("single.eccentricity_derivative/" + tag, w(S.eccentricity_derivative),
                         (A, N, E, float(m1), float(u1[0]), float(u1[1]), float(m2)), de, det, scale=("a", tmag))
                    call("single.semia_eccen_derivatives/" + tag, w(S.semia_eccen_derivatives),
                         (A, N, E, float(m1), float(u1[0]), float(u1[1]), float(m2)), (da, de), det, scale=("b", tmag))
                    call("spin_rate_derivative/" + tag, w(S.spin_rate_derivative), (float(u1[2]), float(c1), float(m2)), float(fr(dw1)), det)
                call("single.semia_eccen_derivatives/array", S.semia_eccen_derivatives,
                     (arr(A), arr(N), arr(E), float(m1), arr(u1[0]), arr(u1[1]), float(m2)), (da, de), det, scale=("b", tmag))
                call("single.eccentricity_derivative/array", S.eccentricity_derivative,
                     (arr(A), arr(N), arr(E), float(m1), arr(u1[0]), arr(u1[1]), float(m2)), de, det, scale=("a", tmag))
            else:
                for tag, w in (("jit", lambda f: f), ("py", lambda f: pyf(f))):
                    call("dual.semi_major_axis_derivative/" + tag, w(D.semi_major_axis_derivative),
                         (A, N, float(m1), float(u1[0]), float(m2), float(u2[0])), da, det)
                    call("dual.eccentricity_derivative/" + tag, w(D.eccentricity_derivative),
                         (A, N, E, float(m1), float(u1[0]), float(u1[1]), float(m2), float(u2[0]), float(u2[1])), de, det, scale=("a", tmag))
                    call("dual.semia_eccen_derivatives/" + tag, w(D.semia_eccen_derivatives),
                         (A, N, E, float(m1), float(u1[0]), float(u1[1]), float(m2), float(u2[0]), float(u2[1])), (da, de), det, scale=("b", tmag))
                call("dual.semia_eccen_derivatives/array", D.semia_eccen_derivatives,
                     (arr(A), arr(N), arr(E), float(m1), arr(u1[0]), arr(u1[1]), float(m2), arr(u2[0]), arr(u2[1])), (da, de), det, scale=("b", tmag))
        for row in rows[:1] + rows[-1:]:
            ck.sample({"dual": dual, "m1,m2,a,n": list(row[1:5]), "e,sqrt(1-e2)": [list(row[5][0]), list(row[5][1])],
                       "dU(1)": list(row[6]), "dU(2)": list(row[7]), "da/dt": list(row[13]), "de/dt": list(row[14])})
        ck.cov["traces_validated_against_impl"] += len(rows)
    ck.notes["worst_ulp_by_function"] = {k: (round(v, 2) if v < 1e290 else "non-finite") for k, v in sorted(worst.items())}
    closed_loop(ck, rng, 20 if tier == "quick" else 300)
    ck.cov["rule"] = "one case = one exact lattice row through every helper/implementation, or one random physical state of the closed-loop check"
    ck.assumptions += ["lattice eccentricities have rational sqrt(1-e^2); 8-ulp tolerance", "closed loop residuals relative to the total heating, tolerance 1e-9"]
    return ck.finish()


def closed_loop(ck, rng, n_states):
    from TidalPy.constants import G
    from TidalPy.toolbox.quick_tides import quick_tidal_dissipation, quick_dual_body_tidal_dissipation
    worst_e, worst_l = 0.0, 0.0
    for t in range(n_states):
        arrform = t % 3 == 2
        Rr = 10 ** rng.uniform(5.8, 7)
        rho = rng.uniform(1500, 6000)
        m = 4 / 3 * math.pi * Rr ** 3 * rho
        g = G * m / Rr ** 2
        moi = 0.35 * m * Rr ** 2
        M = 10 ** rng.uniform(24, 30)
        n = 10 ** rng.uniform(-6, -4)
        spin = n * rng.choice([1.0, 1.5, -0.7, 2.3, 0.4])
        e = rng.choice([0.0, 0.01, 0.1, 0.3, 0.5])
        obl = rng.choice([None, 0.0, 0.3, 1.2])
        rheo = rng.choice(["maxwell", "andrade", "cpl", "ctl"])
        trunc = rng.choice([2, 6, 10])
        lmax = rng.choice([2, 3])
        e_other = rng.choice([0.0, 0.05, 0.2, 0.35])
        # which inputs are arrays rotates through the broadcast branches of the function: e only, n only, spin only, viscosity only, pairs, all
        which = ["e", "n", "spin", "visc", "e+spin", "n+spin", "e+n", "e+n+spin"][(t // 3) % 8] if arrform else ""
        ev = np.array([e_other, e]) if "e" in which.split("+") else e
        visc0 = 10 ** rng.uniform(15, 21)
        n_other, spin_other, visc_other = n * rng.uniform(0.6, 1.7), spin * rng.uniform(0.5, 1.4), visc0 * 10 ** rng.uniform(-1, 1)
        scal = {"eccentricity": (e_other, e), "orbital_frequency": (n_other, n), "spin_frequency": (spin_other, spin), "viscosity": (visc_other, visc0)}
        arr_keys = [k for k, tag in (("eccentricity", "e"), ("orbital_frequency", "n"), ("spin_frequency", "spin"), ("viscosity", "visc")) if tag in which.split("+")]
        kw = dict(viscosity=visc0, shear_modulus=10 ** rng.uniform(9.5, 11), rheology=rheo,
                  eccentricity=e, orbital_frequency=n, spin_frequency=spin, max_tidal_order_l=lmax,
                  eccentricity_truncation_lvl=trunc, fixed_q=50.0, fixed_k2=0.3, fixed_dt=100.0,
                  calculate_orbit_spin_derivatives=True)
        # tidal_scale (fraction of the world that dissipates) rotates through 1 and two proper fractions (deterministic in t, the
        # random stream is untouched): heating and all three potential derivatives scale together, so the balances must still close
        ts = [1.0, 0.375, 1.0, 0.6][t % 4]
        ts2 = [1.0, 0.8][(t // 2) % 2]
        if ts != 1.0:
            kw["tidal_scale"] = ts
        for k_ in arr_keys:
            kw[k_] = np.array(scal[k_], dtype=float)
        if obl is not None:
            kw["obliquity"] = obl
        det = {"R": Rr, "rho": rho, "M_host": M, "n": n, "spin": spin, "e": str(e), "obliquity": obl, "rheology": rheo,
               "trunc": trunc, "lmax": lmax, "array": which or False, "tidal_scale": ts}
        ck.case(("loop", t), True)
        try:
            res = quick_tidal_dissipation(M, Rr, m, g, rho, moi, **kw)
        except Exception as ex:
            ck.violation({"fn": "quick_tidal_dissipation", "clause": "total", "exc": type(ex).__name__, "e": str(e)},
                         "quick_tidal_dissipation raised %s(%s) at %s" % (type(ex).__name__, str(ex)[:100], det), det)
            continue
        pick = (lambda x: float(np.asarray(x).ravel()[-1]))
        if arrform:
            # array inputs give the same rates element-wise as scalar calls
            for idx in range(2):
                rs = quick_tidal_dissipation(M, Rr, m, g, rho, moi, **dict(kw, **{k_: scal[k_][idx] for k_ in arr_keys}))
                for key in ("tidal_heating", "dUdM", "dUdw", "dUdO", "semi_major_axis", "semi_major_axis_derivative", "eccentricity_derivative", "spin_rate_derivative"):
                    ra = np.asarray(res[key]).ravel()
                    va, vs = float(ra[idx] if ra.size > 1 else ra[0]), float(np.asarray(rs[key]).ravel()[0])     # a quantity that does not depend on the array inputs may stay scalar
                    if not (va == vs or abs(va - vs) <= 1e-12 * max(abs(va), abs(vs))):
                        ck.violation({"fn": "quick_tidal_dissipation", "clause": "array_vs_scalar", "what": key},
                                     "element %d of the array call: %s = %r, scalar call gives %r at %s" % (idx, key, va, vs, det), det)
        a = pick(res["semi_major_axis"])
        heat = pick(res["tidal_heating"])
        dadt, dedt, dsp = pick(res["semi_major_axis_derivative"]), pick(res["eccentricity_derivative"]), pick(res["spin_rate_derivative"])
        if not all(math.isfinite(x) for x in (dadt, dedt, dsp, heat)):
            ck.violation({"fn": "quick_tidal_dissipation", "clause": "nan_at_e0" if e == 0.0 else "finite", "e": str(e)},
                         "non-finite rates (da/dt=%r, de/dt=%r, dspin/dt=%r) at %s" % (dadt, dedt, dsp, det), det)
            continue
        if e == 0.0 and dedt != 0.0:
            ck.violation({"fn": "quick_tidal_dissipation", "clause": "de_dt_zero_at_e0", "e": "0"}, "de/dt = %r at e = 0: %s" % (dedt, det), det)
        dE = G * M * m / (2 * a * a) * dadt + moi * spin * dsp
        scale = max(abs(heat), abs(G * M * m / (2 * a * a) * dadt), abs(moi * spin * dsp), 1e-300)
        re_ = abs(dE + heat) / scale
        worst_e = max(worst_e, re_)
        if re_ > 1e-9:
            ck.violation({"fn": "quick_tidal_dissipation", "clause": "energy", "e": str(e)},
                         "energy balance residual %.3g (dE_orb+dE_rot=%r, heating=%r) at %s" % (re_, dE, heat, det), det)
        if (obl in (None, 0.0)) and e > 0:
            beta = M * m / (M + m)
            L = beta * n * a * a * math.sqrt(1 - e * e)
            dL = L * (dadt / (2 * a) - e * dedt / (1 - e * e)) + moi * dsp
            sc = max(abs(L * dadt / (2 * a)), abs(moi * dsp), abs(L * e * dedt / (1 - e * e)), 1e-300)
            rl = abs(dL) / sc
            worst_l = max(worst_l, rl)
            if rl > 1e-9:
                ck.violation({"fn": "quick_tidal_dissipation", "clause": "angular_momentum", "e": str(e)},
                             "angular momentum residual %.3g at %s" % (rl, det), det)
        # dual body: both dissipate
        if t % 2 == 0:
            R2 = 10 ** rng.uniform(6.5, 7.5)
            rho2 = rng.uniform(1000, 5000)
            M2 = 4 / 3 * math.pi * R2 ** 3 * rho2
            g2 = G * M2 / R2 ** 2
            moi2 = 0.3 * M2 * R2 ** 2
            spin2 = n * rng.choice([1.0, 3.1, -1.2])
            try:
                rd = quick_dual_body_tidal_dissipation((R2, Rr), (M2, m), (g2, g), (rho2, rho), (moi2, moi),
                                                       viscosities=(1e18, visc0), shear_moduli=(5e10, kw["shear_modulus"]),
                                                       rheologies=("maxwell", "andrade" if rheo in ("cpl", "ctl") else rheo),
                                                       obliquities=(obl, obl) if obl is not None else None,
                                                       spin_frequencies=(spin2, spin), eccentricity=ev, orbital_frequency=n,
                                                       max_tidal_order_l=lmax, eccentricity_truncation_lvl=trunc, tidal_scales=(ts2, ts))
                # other ways of saying the same thing: a spin given as a period, and None for a spin-locked body (spin = n)
                from TidalPy.utilities.conversions import rads2days
                alt_forms = [("spin_periods", dict(spin_periods=(float(rads2days(spin2)), float(rads2days(spin)))), (spin2, spin))]
                alt_forms.append(("host_explicit_secondary_locked", dict(spin_frequencies=(spin2, None)), (spin2, n)))
                alt_forms.append(("host_locked_secondary_explicit", dict(spin_frequencies=(None, spin)), (n, spin)))
                alt_forms.append(("period_and_locked", dict(spin_periods=(float(rads2days(spin2)), None)), (spin2, n)))
                nm_alt, kw_alt, explicit = alt_forms[(t // 2) % len(alt_forms)]
                common = dict(viscosities=(1e18, kw["viscosity"] if "viscosity" not in arr_keys else visc0), shear_moduli=(5e10, kw["shear_modulus"]),
                              rheologies=("maxwell", "andrade" if rheo in ("cpl", "ctl") else rheo), obliquities=(obl, obl) if obl is not None else None,
                              eccentricity=ev, orbital_frequency=n, max_tidal_order_l=lmax, eccentricity_truncation_lvl=trunc, tidal_scales=(ts2, ts))
                r_alt = quick_dual_body_tidal_dissipation((R2, Rr), (M2, m), (g2, g), (rho2, rho), (moi2, moi), **dict(common, **kw_alt))
                r_exp = quick_dual_body_tidal_dissipation((R2, Rr), (M2, m), (g2, g), (rho2, rho), (moi2, moi), **dict(common, spin_frequencies=explicit))
                ck.case(("loop-dual-forms", t, nm_alt), True)
                for body in ("host", "secondary"):
                    for key in ("tidal_heating", "dUdM", "dUdw", "spin_rate_derivative"):
                        va, vs = np.asarray(r_alt[body][key], dtype=float).ravel(), np.asarray(r_exp[body][key], dtype=float).ravel()
                        if va.shape != vs.shape or not np.all((va == vs) | (np.abs(va - vs) <= 1e-9 * np.maximum(np.abs(va), np.abs(vs)))):
                            ck.violation({"fn": "quick_dual_body_tidal_dissipation", "clause": "spin_forms", "form": nm_alt, "what": key},
                                         "dual-body %s %s with %s = %r, with both spins spelled out as frequencies %r at %s" % (body, key, kw_alt, va.tolist(), vs.tolist(), det), det)
                            break
            except Exception as ex:
                ck.violation({"fn": "quick_dual_body_tidal_dissipation", "clause": "total", "exc": type(ex).__name__, "e": str(e)},
                             "quick_dual_body_tidal_dissipation raised %s(%s) at %s" % (type(ex).__name__, str(ex)[:100], det), det)
                continue
            # each body's part of a dual-body result equals the single-body calculation for that body (independent path)
            for nm, (Mh, Rb, mb, gb, rb, ib, vb, sb, rhb, spb, tsb) in (("host", (m, R2, M2, g2, rho2, moi2, 1e18, 5e10, "maxwell", spin2, ts2)),
                                                                       ("secondary", (M2, Rr, m, g, rho, moi, visc0, kw["shear_modulus"],
                                                                                      "andrade" if rheo in ("cpl", "ctl") else rheo, spin, ts))):
                ref = quick_tidal_dissipation(Mh, Rb, mb, gb, rb, ib, viscosity=vb, shear_modulus=sb, rheology=rhb, eccentricity=ev,
                                              obliquity=obl, orbital_frequency=n, spin_frequency=spb, max_tidal_order_l=lmax,
                                              eccentricity_truncation_lvl=trunc, use_obliquity=(obl is not None), tidal_scale=tsb)
                for key in ("tidal_heating", "dUdM", "dUdw", "dUdO"):
                    va, vs = np.asarray(rd[nm][key], dtype=float).ravel(), np.asarray(ref[key], dtype=float).ravel()
                    if va.shape != vs.shape or not np.all((va == vs) | (np.abs(va - vs) <= 1e-11 * np.maximum(np.abs(va), np.abs(vs)))):
                        ck.violation({"fn": "quick_dual_body_tidal_dissipation", "clause": "dual_vs_single", "what": key},
                                     "dual-body %s %s = %r, single-body calculation gives %r at %s" % (nm, key, va.tolist(), vs.tolist(), det), det)
                        break
            from TidalPy.utilities.conversions import orbital_motion2semi_a
            a2 = float(orbital_motion2semi_a(n, M2, m))
            da2, de2 = pick(rd["semi_major_axis_derivative"]), pick(rd["eccentricity_derivative"])
            hh, hs = pick(rd["host"]["tidal_heating"]), pick(rd["secondary"]["tidal_heating"])
            sh, ss = pick(rd["host"]["spin_rate_derivative"]), pick(rd["secondary"]["spin_rate_derivative"])
            if not all(math.isfinite(x) for x in (da2, de2, sh, ss)):
                ck.violation({"fn": "quick_dual_body_tidal_dissipation", "clause": "nan_at_e0" if e == 0.0 else "finite", "e": str(e)},
                             "non-finite dual rates (da/dt=%r, de/dt=%r) at %s" % (da2, de2, det), det)
                continue
            dE = G * M2 * m / (2 * a2 * a2) * da2 + moi2 * spin2 * sh + moi * spin * ss
            scale = max(abs(hh) + abs(hs), abs(G * M2 * m / (2 * a2 * a2) * da2), 1e-300)
            re_ = abs(dE + hh + hs) / scale
            worst_e = max(worst_e, re_)
            ck.case(("loop-dual", t), True)
            if re_ > 1e-9:
                ck.violation({"fn": "quick_dual_body_tidal_dissipation", "clause": "energy", "e": str(e)},
                             "dual energy balance residual %.3g at %s" % (re_, det), det)
    # evolution-loop pattern: the caller keeps ONE array per quantity, updates it in place between calls and hands the same objects
    # back; every call must equal the scalar calculation at the arrays' current contents (no result may depend on array identity)
    for t in range(3 if n_states <= 20 else 12):
        Rr = 10 ** rng.uniform(5.8, 7)
        rho = rng.uniform(1500, 6000)
        m = 4 / 3 * math.pi * Rr ** 3 * rho
        g = G * m / Rr ** 2
        moi = 0.35 * m * Rr ** 2
        M = 10 ** rng.uniform(24, 30)
        n_arr = np.array([10 ** rng.uniform(-6, -4), 10 ** rng.uniform(-6, -4)])
        e_arr = np.array([rng.uniform(0.02, 0.3), rng.uniform(0.02, 0.3)])
        s_arr = n_arr * np.array([1.5, 2.3])
        rheo = rng.choice(["maxwell", "cpl", "ctl"])
        kw = dict(viscosity=10 ** rng.uniform(15, 21), shear_modulus=10 ** rng.uniform(9.5, 11), rheology=rheo, max_tidal_order_l=2,
                  eccentricity_truncation_lvl=6, fixed_q=50.0, fixed_k2=0.3, fixed_dt=100.0, calculate_orbit_spin_derivatives=True)
        keys = ("tidal_heating", "dUdM", "dUdw", "dUdO", "semi_major_axis", "semi_major_axis_derivative", "eccentricity_derivative", "spin_rate_derivative")
        R2 = 10 ** rng.uniform(6.5, 7.5)
        M2 = 4 / 3 * math.pi * R2 ** 3 * 3000.0
        for step in range(3):
            det = {"R": Rr, "rho": rho, "M_host": M, "n": n_arr.tolist(), "spin": s_arr.tolist(), "e": e_arr.tolist(), "rheology": rheo, "call": step + 1}
            ck.case(("inplace-loop", t, step), True)
            res = quick_tidal_dissipation(M, Rr, m, g, rho, moi, eccentricity=e_arr, orbital_frequency=n_arr, spin_frequency=s_arr, **kw)
            for idx in range(2):
                rs = quick_tidal_dissipation(M, Rr, m, g, rho, moi, eccentricity=float(e_arr[idx]), orbital_frequency=float(n_arr[idx]), spin_frequency=float(s_arr[idx]), **kw)
                for key in keys:
                    va = float((np.asarray(res[key]) * np.ones(2)).ravel()[idx])
                    vs = float(np.asarray(rs[key]).ravel()[0])
                    if not (va == vs or abs(va - vs) <= 1e-11 * max(abs(va), abs(vs))):
                        ck.violation({"fn": "quick_tidal_dissipation", "clause": "inplace_reuse", "what": key},
                                     "call %d with the same arrays updated in place: element %d %s = %r, scalar calculation at the current values gives %r: %s" % (step + 1, idx, key, va, vs, det), det)
                        break
            if t % 2 == 0:
                dual = lambda ee, nn, ss: quick_dual_body_tidal_dissipation((R2, Rr), (M2, m), (G * M2 / R2 ** 2, g), (3000.0, rho), (0.3 * M2 * R2 ** 2, moi),
                                                                            viscosities=(1e18, kw["viscosity"]), shear_moduli=(5e10, kw["shear_modulus"]), rheologies=("maxwell", "maxwell"),
                                                                            spin_frequencies=(ss, ss), eccentricity=ee, orbital_frequency=nn, max_tidal_order_l=2, eccentricity_truncation_lvl=6)
                rd = dual(e_arr, n_arr, s_arr)
                for idx in range(2):
                    rs = dual(float(e_arr[idx]), float(n_arr[idx]), float(s_arr[idx]))
                    for key in ("semi_major_axis_derivative", "eccentricity_derivative"):
                        va = float((np.asarray(rd[key]) * np.ones(2)).ravel()[idx])
                        vs = float(np.asarray(rs[key]).ravel()[0])
                        if not (va == vs or abs(va - vs) <= 1e-11 * max(abs(va), abs(vs))):
                            ck.violation({"fn": "quick_dual_body_tidal_dissipation", "clause": "inplace_reuse", "what": key},
                                         "dual-body call %d with the same arrays updated in place: element %d %s = %r, scalar calculation gives %r: %s" % (step + 1, idx, key, va, vs, det), det)
                            break
            n_arr *= 1.15
            e_arr *= 0.9
            s_arr *= 1.07
    ck.notes["closed_loop_worst_energy_residual"] = worst_e
    ck.notes["closed_loop_worst_angmom_residual"] = worst_l


def replay(path):
    print(open(path).read()[:3000])
    return 1
