"""C06 - the radial solver is total, memory-safe and leaves its inputs intact.

Spec: specs/SolverControl.tla - pc-level model of radial_solver / cf_radial_solver (validation, in-place
non-dimensionalisation, heap blocks, try/finally, failure protocol). TLC checks every clause of C06 on the intended design
(Guarded = TRUE) and enumerates every exit of the design as found (Guarded = FALSE) with its predicted outcome, input state
and leaked blocks.  Binding (R): each exit (fault x nondimensionalize x raise_on_fail) is realised with concrete arguments
in its own subprocess; the observed (exception class | success/message/result protocol | input arrays before/after |
process exit status) must equal the prediction of the intended model, or - for the listed known findings - the prediction
of the as-found model.  Fault enumeration beyond the model: malformed / extreme arguments and every layer stack with a
liquid surface, for which the property itself is the oracle (no crash, no hang, protocol, inputs intact)."""
import json
import os
import random
import subprocess
import time

from .. import core
from ..core import Check, MachineryError, run_tlc, scratch, PY, VERIF

SOLID = dict(type="solid", rho=4000.0, mu=[6e10, 5e9], K=2e11, static=True, incompressible=False)
CORE = dict(type="solid", rho=9000.0, mu=[1e11, 1e9], K=4e11, static=True, incompressible=False)


def base_layers():
    return [dict(CORE, R=3.0e6), dict(SOLID, R=6.0e6)]


def realise(fault, nondim, rof):
    c = {"layers": base_layers(), "nondim": nondim, "raise_on_fail": rof, "solve_for": ["tidal"], "n": 20}
    if fault in ("len_is_static", "len_is_incompressible", "len_upper_radius"):
        # the (nondim, raise_on_fail) coordinates of the model double as the way the length is wrong: short / long / empty / short
        n = len(c["layers"])
        how = {(True, True): n - 1, (True, False): n + 1, (False, True): 0, (False, False): n - 1}[(bool(nondim), bool(rof))]
        key = {"len_is_static": "is_static", "len_is_incompressible": "is_incompressible", "len_upper_radius": "upper_radius"}[fault]
        good = {"is_static": [False] * n, "is_incompressible": [False] * n, "upper_radius": [L["R"] for L in c["layers"]]}[key]
        c[key] = (good + good)[:how]
    elif fault == "solve_for_not_tuple":
        c["solve_for"] = ["tidal"]
        c["solve_for_as_list"] = True
    elif fault == "unknown_layer_type":
        c["layer_types"] = ["solid", "plasma"]
    elif fault == "unknown_integrator":
        c["method"] = "rk99"
    elif fault == "no_layers":
        c.update(layer_types=[], is_static=[], is_incompressible=[], upper_radius=[])
    elif fault == "too_few_slices_total":
        c["truncate"] = 6
    elif fault == "nan_after_nondim":
        c["bulk_density"] = "nan"
    elif fault == "too_many_solve_for":
        c["solve_for"] = ["tidal", "loading", "free", "tidal", "loading", "free"]
    elif fault == "unknown_solve_for":
        c["solve_for"] = ["bogus"]
    elif fault == "thin_layer":
        c["upper_radius"] = [3.0e6 * 0.02 * 1.5, 6.0e6]      # the first 'layer' holds fewer than four slices
    elif fault == "start_not_implemented":
        c["use_kamata"] = True
        c["layers"][0]["incompressible"] = True
    elif fault == "integration_fails":
        c["max_num_steps"] = 2
    elif fault == "surface_bc_fails":
        return None
    return c


def extra_cases(rng, tier):
    """malformed / extreme arguments and liquid-surface stacks: the property itself is the oracle"""
    out = []
    LIQ = dict(type="liquid", rho=1000.0, mu=[0.0, 0.0], K=2.2e9, static=True, incompressible=False)

    def add(name, **kw):
        for nondim in (True, False):
            c = {"layers": base_layers(), "nondim": nondim, "raise_on_fail": False, "solve_for": ["tidal"], "n": 20, "name": name}
            c.update(kw)
            out.append(c)
    add("nan_shear", poke=[["shear", 25, [float("nan"), 0.0]]])
    add("zero_shear_in_solid", poke=[["shear", 30, [0.0, 0.0]]])
    add("zero_density", poke=[["density", 10, 0.0]])
    add("nan_density", poke=[["density", 10, float("nan")]])
    add("zero_bulk", poke=[["bulk", 12, 0.0]])
    add("negative_bulk", poke=[["bulk", 12, -1.0e9]])
    add("zero_frequency", frequency=0.0)
    add("nan_frequency", frequency="nan")
    add("negative_frequency", frequency=-1.0e-5)
    add("huge_degree", l=40)
    add("tiny_ram", max_ram_MB=1, rtol=1e-13, atol=1e-16)
    add("tight_tolerance_few_steps", max_num_steps=50, rtol=1e-12)
    add("radius_not_monotone", poke=[["radius", 7, 1.0]])
    # a grid that starts AT the centre (a normal call takes well under a second: 25 s is the hang oracle for this case)
    add("zero_first_radius", poke=[["radius", 0, 0.0]], max_num_steps=10000, hang_timeout=25)
    add("zero_gravity", poke=[["gravity", 0, 0.0]])
    add("all_three_solutions", solve_for=["tidal", "loading", "free"])
    # valid values in unusual containers: the call must raise cleanly or work, never crash, and never leave the arrays changed
    for form in ("noncontiguous", "float32_radius", "fortran_2d_slice", "readonly", "mmap_readonly"):
        add("array_form_" + form, array_form=form)
    add("result_lifetime", check_lifetime=True)
    # expected_size is a storage HINT for the integrator: any value (0 = let the integrator choose) must give the same answer and
    # must never end the interpreter, whatever the share of a thin layer in the grid is
    for lay_name, lay in (("equal", [20, 20, 20]), ("40_40_20", [40, 40, 20]), ("thin_top", [400, 400, 5])):
        for es in (0, 2, 3, 7, 16, 500):
            add("expected_size_%s_%d" % (lay_name, es), n=lay, expected_size=es, layers=[dict(CORE, R=3.0e6), dict(SOLID, R=5.5e6), dict(SOLID, R=6.0e6, rho=3300.0)])
    add("expected_size_equal_1", n=[20, 20, 20], expected_size=1, layers=[dict(CORE, R=3.0e6), dict(SOLID, R=5.5e6), dict(SOLID, R=6.0e6, rho=3300.0)])
    # liquid surface layers (static and dynamic), liquid sandwiches, five-layer stacks
    for static in (True, False):
        for freq in (1.0e-4,):
            add("liquid_surface_%s" % ("static" if static else "dynamic"),
                layers=[dict(CORE, R=3.0e6), dict(SOLID, R=5.5e6), dict(LIQ, R=6.0e6, static=static)], frequency=freq, solve_for=["tidal", "loading"])
            add("all_liquid_%s" % ("static" if static else "dynamic"), layers=[dict(LIQ, R=6.0e6, static=static, rho=3000.0)], frequency=freq, n=40)
            add("solid_liquid_solid_liquid_%s" % ("static" if static else "dynamic"),
                layers=[dict(CORE, R=2.0e6), dict(LIQ, R=3.0e6, static=static, rho=8000.0), dict(SOLID, R=5.5e6), dict(LIQ, R=6.0e6, static=static)], frequency=freq)
    kinds = [("solid", True), ("solid", False), ("liquid", True), ("liquid", False)]
    for t in range(6 if tier == "quick" else 60):
        nl = rng.choice([3, 4, 5])
        layers = []
        R = 0.0
        for i in range(nl):
            R += rng.uniform(0.8e6, 1.6e6)
            ty, st = rng.choice(kinds)
            base = dict(SOLID) if ty == "solid" else dict(LIQ, rho=rng.uniform(900, 9000))
            layers.append(dict(base, R=R, static=st, incompressible=rng.random() < 0.3, rho=base["rho"] if ty == "liquid" else rng.uniform(3000, 9000)))
        layers[0]["type"], layers[0]["mu"] = "solid", [1e11, 1e9]       # solid centre
        add("random_stack_%d" % t, layers=layers, frequency=rng.choice([1e-4, 3e-5]), use_kamata=rng.random() < 0.5,
            solve_for=rng.choice([["tidal"], ["loading"], ["tidal", "free"]]))
    return out


def run_cases(cases, timeout=90):
    wd = scratch("c06")
    procs = []
    env = dict(os.environ, PYTHONPATH=core.pythonpath(), PYTHONHASHSEED="0", NUMBA_NUM_THREADS="1", OMP_NUM_THREADS="1", MALLOC_CHECK_="3")
    results = [None] * len(cases)
    pending = list(enumerate(cases))
    running = []
    while pending or running:
        while pending and len(running) < core.NCPU:
            i, c = pending.pop(0)
            p = os.path.join(wd, "case%d.json" % i)
            json.dump(c, open(p, "w"))
            pr = subprocess.Popen([PY, "-m", "harness.solver_fault_driver", p], cwd=VERIF, env=env, stdin=subprocess.DEVNULL,
                                  stdout=subprocess.PIPE, stderr=subprocess.PIPE, text=True)
            running.append((i, pr, time.time()))
        for item in list(running):
            i, pr, t0 = item
            if pr.poll() is not None:
                out, err = pr.communicate()
                running.remove(item)
                line = [x for x in out.splitlines() if x.startswith("RESULT ")]
                results[i] = {"exit": pr.returncode, "res": json.loads(line[0][7:]) if line else None, "stderr": err[-600:]}
            elif time.time() - t0 > cases[i].get("hang_timeout", timeout):
                pr.kill()
                pr.communicate()
                running.remove(item)
                results[i] = {"exit": "timeout", "res": None, "stderr": ""}
        time.sleep(0.02)
    return results


def run(tier, seed):
    ck = Check("C06", "model_checking", tier, seed)
    rng = random.Random(seed)
    ri = run_tlc("SolverControl", "SolverControl_intended.cfg", workers=1, timeout=300, coverage=True)
    ck.add_tlc(ri, "SolverControl intended design: all clauses of C06 on every path")
    ra = run_tlc("SolverControl", "SolverControl_asfound.cfg", workers=1, timeout=300, coverage=True)
    ck.add_tlc(ra, "SolverControl as found: exit enumeration")
    pred_i = {(e[1], e[2], e[3]): e for e in core.printed_values(ri.stdout, "EXIT")}
    pred_a = {(e[1], e[2], e[3]): e for e in core.printed_values(ra.stdout, "EXIT")}
    if len(pred_i) != 64 or len(pred_a) != 64:
        raise MachineryError("expected 64 exits per model, got %d / %d" % (len(pred_i), len(pred_a)))
    model_findings = sorted({(k[0], "inputs" if pred_a[k][5] != "orig" else "leak") for k in pred_a if pred_a[k][5] != "orig" or pred_a[k][6]})
    ck.notes["as_found_model_deviations"] = ["%s:%s" % x for x in model_findings]
    cases, keys = [], []
    for k in sorted(pred_i, key=str):
        c = realise(*k)
        if c is None:
            continue
        cases.append(c)
        keys.append(k)
    extras = extra_cases(rng, tier)
    results = run_cases(cases + extras)
    # ---- modelled exits
    for k, c, r in zip(keys, cases, results[:len(cases)]):
        fault, nondim, rof = k
        ck.case(("exit", fault, nondim, rof), fault != "none")
        det = {"fault": fault, "nondimensionalize": nondim, "raise_on_fail": rof, "observed": r}
        if r["exit"] != 0 or r["res"] is None:
            ck.violation({"clause": "total", "fault": fault, "nondimensionalize": nondim}, "radial_solver call (fault %s) ended the interpreter: exit status %s %s" % (
                fault, r["exit"], r["stderr"][-200:]), det)
            continue
        o = r["res"]

        def agrees(pred):
            kind, cls = pred[4]
            if kind == "raise":
                ok = o["outcome"] == "raise" and o.get("cls") == cls
            else:
                ok = o["outcome"] == kind
            return ok and (o["inputs_restored"] == (pred[5] == "orig"))
        if agrees(pred_i[k]):
            if o["outcome"] == "returned_fail" and (o["message_empty"] or not o["result_none"] or not o["love_none"]):
                ck.violation({"clause": "failure_protocol", "fault": fault}, "unsuccessful solve exposes a result / has no message: %s" % o, det)
            if o["outcome"] == "returned_ok" and (o["result_none"] or o["love_none"]):
                ck.violation({"clause": "failure_protocol", "fault": fault}, "successful solve has no result: %s" % o, det)
            continue
        if agrees(pred_a[k]):
            what = "inputs_restored" if not o["inputs_restored"] else "outcome"
            ck.violation({"clause": what, "fault": fault, "nondimensionalize": nondim, "api": "radial_solver"},
                         "fault %s, nondimensionalize=%s: raises %s and leaves the caller's arrays non-dimensionalised (top radius %r, %.3g ulp off): the raise sits between the in-place scaling and the try/finally" % (
                             fault, nondim, o.get("cls"), o.get("radius_top_after"), o["inputs_max_ulp"]), det)
            continue
        ck.violation({"clause": "conformance", "fault": fault, "nondimensionalize": nondim, "raise_on_fail": rof},
                     "fault %s nondim=%s raise_on_fail=%s: observed %s, intended model predicts %s/%s, as-found model %s/%s" % (
                         fault, nondim, rof, {x: o.get(x) for x in ("outcome", "cls", "inputs_restored", "msg")}, pred_i[k][4], pred_i[k][5], pred_a[k][4], pred_a[k][5]), det)
    # ---- beyond the model: the property is the oracle
    for c, r in zip(extras, results[len(cases):]):
        name = c["name"]
        ck.case(("extra", name, c["nondim"]), True)
        det = {"case": name, "nondimensionalize": c["nondim"], "observed": r}
        fam = name.split("_")[0] + "_" + name.split("_")[1] if name.startswith(("random", "liquid", "all", "solid")) else name
        top = c["layers"][-1]
        top_kind = "%s_%s" % (top["type"], "static" if top["static"] else "dynamic")
        if r["exit"] != 0 or r["res"] is None:
            ck.violation({"clause": "total", "top_layer": top_kind, "status": str(r["exit"]), "case": name if name in ("zero_first_radius", "expected_size_equal_1") else ("expected_size" if name.startswith("expected_size_") else "other")}, "case %s (nondim=%s) ended the interpreter: exit status %s %s" % (name, c["nondim"], r["exit"], r["stderr"][-300:]), det)
            continue
        o = r["res"]
        if not o["inputs_restored"]:
            ck.violation({"clause": "inputs_restored", "case": fam, "nondimensionalize": c["nondim"]}, "case %s: input arrays differ after the call by %.3g ulp (outcome %s %s)" % (
                name, o["inputs_max_ulp"], o["outcome"], o.get("cls", "")), det)
        if o["outcome"] == "returned_fail" and (o["message_empty"] or not o["result_none"] or not o["love_none"]):
            ck.violation({"clause": "failure_protocol", "case": fam}, "case %s: unsuccessful solve exposes a result / has no message: %s" % (name, o), det)
        if o["outcome"] == "returned_ok" and (o["result_none"] or o["love_none"]):
            ck.violation({"clause": "failure_protocol", "case": fam}, "case %s: successful solve has no result" % name, det)
        if name.startswith("expected_size_") and o["outcome"] == "returned_ok":
            ref_name = name.rsplit("_", 1)[0] + "_0"
            ref = next((rr["res"] for cc, rr in zip(extras, results[len(cases):]) if cc["name"] == ref_name and cc["nondim"] == c["nondim"] and rr["res"]), None)
            if ref and ref.get("love") and o.get("love"):
                dd = max(abs(complex(*a) - complex(*b)) for a, b in zip(o["love"], ref["love"]))
                if dd > 1e-9:
                    ck.violation({"clause": "expected_size_is_a_hint", "case": name}, "case %s: Love numbers differ by %.3g from the run with expected_size = 0" % (name, dd), det)
        if name.startswith("expected_size_") and o["outcome"] != "returned_ok":
            ck.violation({"clause": "expected_size_is_a_hint", "case": name, "outcome": o["outcome"]}, "case %s: a valid stack no longer solves: %s %s" % (name, o["outcome"], o.get("msg", "")), det)
        if c.get("check_lifetime") and o.get("lifetime_ok") is False:
            ck.violation({"clause": "result_lifetime", "api": "RadialSolverSolution.result/.love"},
                         "arrays returned by .result / .love change after the solution object is collected (they alias memory the object frees): `radial_solver(...).love` reads freed memory", det)
    ck.cov["traces_validated_against_impl"] = len(cases) + len(extras)
    ck.notes["subprocess_runs"] = len(cases) + len(extras)
    ck.sample({"modelled_exit": list(keys[5]), "intended_prediction": [list(pred_i[keys[5]][4]), pred_i[keys[5]][5]], "observed": results[5]["res"]})
    ck.sample({"extra_case": extras[0]["name"], "observed": results[len(cases)]["res"]})
    ck.cov["rule"] = "one case = one radial_solver call in its own subprocess: a modelled exit (fault x nondimensionalize x raise_on_fail) or an extreme-argument / liquid-surface / random-stack case"
    ck.assumptions += ["heap leaks and the 4-into-1 stack-matrix write for a dynamic-liquid surface are decided at model level only (not observable from Python without an instrumented rebuild); MALLOC_CHECK_=3 is set for every run",
                       "surface_bc_fails has no known concrete realisation and is covered by the model only", "60-90 s per call as the hang oracle"]
    return ck.finish()


def replay(path):
    d = json.load(open(path))
    print(json.dumps(d, indent=1)[:3000])
    return 1
