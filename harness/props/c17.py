"""C17 - unit/orbital conversions are exact inverses and agree across implementations.

Spec: specs/Conversions.tla (helpers as monomials c*x^k over symbolic generators; TLC: every closed walk through the
conversion graph is the identity) + invariant C17_Kepler of specs/WorldTides.tla (orbit triple after any update sequence).
Binding (X): the monomial of every implementation of every helper (interpreted jitted scalar / array, undecorated
py_func, compiled) is MEASURED (exponent from exact powers of two over >30 decades, constant at x=1) and handed to TLC,
which decides conformance with the spec monomial and twin agreement; round trips on log-uniform inputs; (R) the orbit
history clause is replayed on real orbit objects with TLC behaviours of WorldTides."""
import json
import math
import os
import random
import time
from fractions import Fraction

import numpy as np

from .. import core
from ..core import pyf, Check, MachineryError, run_tlc, scratch

ULP = 2.0 ** -52


def rel(a, b):
    return abs(a - b) / max(abs(a), abs(b)) if (a != b) else 0.0


def measure():
    import TidalPy  # noqa
    from TidalPy.constants import G as G_py
    from TidalPy.utilities.conversions import conversions as cp
    from TidalPy.utilities.conversions import conversions_x as cx
    M, m = 1.8982e27, 8.93e22
    masses = [(M, 0.0), (M, m), (5.97e24, 7.3e22)]
    impls = {}
    for h in ["rads2days", "days2rads", "m2Au", "Au2m", "sec2myr", "myr2sec", "orbital_motion2semi_a", "semi_a2orbital_motion"]:
        f = getattr(cp, h)
        impls[(h, "py_jit_scalar")] = f
        impls[(h, "py_jit_array")] = (lambda f: lambda x, *a: float(f(np.array([x, x]), *a)[1]))(f)
        impls[(h, "py_func")] = pyf(f)
        impls[(h, "cy")] = getattr(cx, h)
    gens = {"TWO_PI": {"2pi": 2 * math.pi}, "DAY": {"86400": 86400.0},
            "AU": {"1.496e11": 1.496e11, "149597870700": 149597870700.0},
            "MYR": {"3.154e13": 3.154e13, "3.15576e13": 3.15576e13},
            "G": {"6.6743e-11": 6.6743e-11, "6.67408e-11": 6.67408e-11, "6.674e-11": 6.674e-11}}
    spec = {"rads2days": (Fraction(-1), {"TWO_PI": 1, "DAY": -1}), "days2rads": (Fraction(-1), {"TWO_PI": 1, "DAY": -1}),
            "m2Au": (Fraction(1), {"AU": -1}), "Au2m": (Fraction(1), {"AU": 1}),
            "sec2myr": (Fraction(1), {"MYR": -1}), "myr2sec": (Fraction(1), {"MYR": 1}),
            "orbital_motion2semi_a": (Fraction(-2, 3), {"GM": Fraction(1, 3)}),
            "semi_a2orbital_motion": (Fraction(-3, 2), {"GM": Fraction(1, 2)})}
    obs = []
    detail = []
    for (h, impl), f in sorted(impls.items()):
        kspec, cgen = spec[h]
        massy = "GM" in cgen
        for (Mh, mt) in (masses if massy else [(None, None)]):
            args = (Mh, mt) if massy else ()
            # exponent from exact powers of two (span > 30 decades): ratio over 6 binades = 2^(6k)
            ks = set()
            worst = 0.0
            for j in range(-54, 54, 2):
                x0, x1 = 2.0 ** j, 2.0 ** (j + 6)
                r = f(x1, *args) / f(x0, *args)
                k = math.log2(r) / 6.0
                kf = Fraction(k).limit_denominator(12)
                worst = max(worst, abs(k - float(kf)))
                ks.add(kf)
            kmeas = ks.pop() if len(ks) == 1 and worst < 1e-12 else None
            c = f(1.0, *args)
            # identify the numeric generators
            ids = {}
            cok = False
            if h in ("rads2days", "days2rads"):
                cs = 2 * math.pi / 86400.0
                cok = rel(c, cs) <= 4 * ULP
                ids = {"TWO_PI": "2pi", "DAY": "86400"} if cok else {"TWO_PI": "unknown:%r" % c}
            elif "AU" in cgen or "MYR" in cgen:
                g = "AU" if "AU" in cgen else "MYR"
                for name, v in gens[g].items():
                    if rel(c, v ** cgen[g]) <= 2 * ULP:
                        ids[g] = name
                        cok = True
                if not cok:
                    ids[g] = "unknown:%r" % c
            else:
                p = cgen["GM"]
                for name, v in gens["G"].items():
                    if rel(c, (v * (Mh + mt)) ** float(p)) <= 8 * ULP:
                        ids["GM"] = "G=%s*(M+m)" % name
                        cok = True
                if not cok:
                    ids["GM"] = "unknown:%r(M=%g,m=%g)" % (c, Mh, mt)
            rec = {"helper": h, "impl": impl, "k": [kmeas.numerator, kmeas.denominator] if kmeas is not None else [0, 1],
                   "c_matches_spec": bool(cok), "gen_ids": ids}
            obs.append(rec)
            detail.append(dict(rec, c=c, masses=[Mh, mt] if massy else None, k_worst_dev=worst))
    return obs, detail, impls


def round_trips(ck, impls, rng, n):
    pairs = [("rads2days", "days2rads"), ("m2Au", "Au2m"), ("sec2myr", "myr2sec"),
             ("orbital_motion2semi_a", "semi_a2orbital_motion")]
    worst = {}
    M, m = 1.8982e27, 8.93e22
    xs = np.array([10.0 ** rng.uniform(-15, 15) for _ in range(n)])
    from TidalPy.utilities.conversions import conversions as cp
    for a, b in pairs:
        massy = a.startswith("orbital")
        for (Mh, mt) in ([(M, 0.0), (M, m), (3.3e23, 1.0e3)] if massy else [(None, None)]):
            args = (Mh, mt) if massy else ()
            for impl in ["py_jit_scalar", "py_func", "cy", "py_jit_array"]:
                fa, fb = impls[(a, impl)], impls[(b, impl)]
                if impl == "py_jit_array":
                    ga, gb = getattr(cp, a), getattr(cp, b)
                    for (f, g, tag) in ((ga, gb, a + ">" + b), (gb, ga, b + ">" + a)):
                        xs_keep = xs.copy()
                        mid = f(xs, *args)
                        if not np.array_equal(xs, xs_keep) or np.shares_memory(np.asarray(mid), xs):
                            ck.violation({"clause": "inputs_unmodified", "pair": tag, "impl": impl}, "%s (array form) changed / returned the caller's array" % tag.split(">")[0], {"pair": tag})
                            xs = xs_keep.copy()
                            mid = f(xs_keep.copy(), *args)
                        y = g(mid, *args)
                        e = np.abs(y / xs - 1.0) / ULP
                        i = int(np.argmax(e))
                        ck.case((tag, impl, args), True)
                        worst[(tag, impl)] = max(worst.get((tag, impl), 0), float(e[i]))
                        if e[i] > 256:
                            ck.violation({"clause": "round_trip", "pair": tag, "impl": impl},
                                         "%s(%s) round trip off by %.1f ulp at x=%r masses=%s" % (tag, impl, e[i], float(xs[i]), args),
                                         {"pair": tag, "impl": impl, "x": float(xs[i]), "args": args})
                    continue
                sub = xs if impl != "py_func" else xs[: max(200, n // 20)]
                for (f, g, tag) in ((fa, fb, a + ">" + b), (fb, fa, b + ">" + a)):
                    wv, wx = 0.0, None
                    for x in sub:
                        y = g(f(float(x), *args), *args)
                        e = abs(y / x - 1.0) / ULP
                        if e > wv:
                            wv, wx = e, float(x)
                    ck.case((tag, impl, args), True)
                    worst[(tag, impl)] = max(worst.get((tag, impl), 0), wv)
                    if wv > 256:
                        ck.violation({"clause": "round_trip", "pair": tag, "impl": impl},
                                     "%s(%s) round trip off by %.1f ulp at x=%r masses=%s" % (tag, impl, wv, wx, args),
                                     {"pair": tag, "impl": impl, "x": wx, "args": args})
    ck.notes["round_trip_worst_ulp"] = {"%s/%s" % k: round(v, 2) for k, v in sorted(worst.items())}
    # twin agreement value by value (compiled vs interpreted)
    tw = {}
    for h in sorted({h for h, _ in impls}):
        massy = "orbital" in h
        args = (M, m) if massy else ()
        wv, wx = 0.0, None
        for x in xs[:2000]:
            a, b = impls[(h, "py_jit_scalar")](float(x), *args), impls[(h, "cy")](float(x), *args)
            e = rel(a, b) / ULP
            if e > wv:
                wv, wx = e, float(x)
        tw[h] = round(wv, 2)
        ck.case(("twin", h), True)
        if wv > 256:
            ck.violation({"clause": "twin_value", "helper": h, "rel_decade": int(round(math.log10(wv * ULP)))},
                         "%s: compiled and interpreted results differ by %.3g ulp (rel %.3g) at x=%r" % (h, wv, wv * ULP, wx),
                         {"helper": h, "x": wx})
    ck.notes["twin_worst_ulp"] = tw


def run(tier, seed):
    ck = Check("C17", "model_checking", tier, seed)
    rng = random.Random(seed)
    obs, detail, impls = measure()
    wd = scratch("c17")
    of = os.path.join(wd, "obs.json")
    json.dump(obs, open(of, "w"))
    r = run_tlc("Conversions", "Conversions.cfg", workdir=wd, timeout=300, env={"OBS_FILE": of}, coverage=True)
    ck.add_tlc(r, "Conversions: closed walks of length <= 6 + conformance of %d measured monomials" % len(obs))
    (_, bad), = core.printed_values(r.stdout, "BADOBS")
    (_, twins), = core.printed_values(r.stdout, "BADTWINS")
    (_, nobs), = core.printed_values(r.stdout, "NOBS")
    if nobs != len(obs):
        raise MachineryError("TLC saw %s observations, harness wrote %d" % (nobs, len(obs)))
    for i, d in enumerate(detail):
        ck.case(("monomial", d["helper"], d["impl"], str(d["masses"])), True)
    for i in sorted(bad):
        d = detail[i - 1]
        ck.violation({"clause": "monomial", "helper": d["helper"], "impl": d["impl"]},
                     "%s[%s]: measured x^%s, constant %r (%s) does not match the spec monomial" % (
                         d["helper"], d["impl"], Fraction(*d["k"]) if d["k"][1] else "?", d["c"], d["gen_ids"]), d)
    seen = set()
    for (i, j) in sorted(twins):
        a, b = detail[i - 1], detail[j - 1]
        fam = tuple(sorted({a["helper"], b["helper"]}))
        compiled = tuple(sorted({"compiled" if a["impl"] == "cy" else "interpreted", "compiled" if b["impl"] == "cy" else "interpreted"}))
        gname = next(g for g in a["gen_ids"] if g in b["gen_ids"] and a["gen_ids"][g] != b["gen_ids"][g])
        key = {"clause": "twin_generator", "generator": gname, "between": "/".join(compiled),
               "ids": "/".join(sorted({a["gen_ids"][gname], b["gen_ids"][gname]}))}
        ks = json.dumps(key, sort_keys=True)
        if ks in seen:
            continue
        seen.add(ks)
        ck.violation(key, "%s[%s] uses %s but %s[%s] uses %s" % (a["helper"], a["impl"], a["gen_ids"], b["helper"], b["impl"], b["gen_ids"]),
                     {"a": a, "b": b})
    # negative control: a perturbed observation must be reported by TLC
    neg = json.loads(json.dumps(obs))
    neg[0]["k"] = [1, 2]
    neg[5]["c_matches_spec"] = False
    nf = os.path.join(wd, "neg.json")
    json.dump(neg, open(nf, "w"))
    rn = run_tlc("Conversions", "Conversions.cfg", timeout=300, env={"OBS_FILE": nf})
    (_, nbad), = core.printed_values(rn.stdout, "BADOBS")
    if not {1, 6} <= set(nbad):
        raise MachineryError("negative control: perturbed observations not reported by TLC: %s" % (nbad,))
    ck.notes["negative_control"] = "two corrupted observations (exponent, constant) were both reported by TLC"
    round_trips(ck, impls, rng, 2000 if tier == "quick" else 20000)
    # orbit history clause: WorldTides invariant C17_Kepler + replay on real orbit objects
    from . import c13
    for sync, obl in [(True, False), (False, True)]:
        rr = run_tlc("WorldTides", c13.cfgname(sync, obl), timeout=900)
        ck.add_tlc(rr, "WorldTides C17_Kepler sync=%s obl=%s" % (sync, obl))
    jobs = []
    nb = 30 if tier == "quick" else 300
    for sync, obl in [(True, False), (False, True)]:
        behs = c13.behaviours_from_sim(sync, obl, nb, 30, seed + 3)
        for form in ("scalar", "array"):
            jobs.append({"config": {"sync": sync, "obl_on": obl, "ctl": False}, "form": form,
                         "behaviours": behs[:nb // 2] if form == "scalar" else behs[nb // 2:]})
    results = c13.run_jobs(jobs)
    nsteps = 0
    for job, res in results:
        for rb in res["results"]:
            nsteps += rb["steps"]
            beh = job["behaviours"][rb["behaviour"]]
            for st in beh[:rb["steps"]]:
                ck.case(("orbit-history", job["form"], job["config"]["sync"], st[0], tuple(map(str, st[1]))), st[0] != "Init")
            for bad in rb["bad"]:
                mm = [m for m in bad["mismatch"] if m.get("kind") in ("kepler", "input")]
                if mm:
                    ck.violation({"clause": "orbit_kepler", "action": bad["act"], "what": mm[0]["what"]},
                                 "after %s%s the orbit reports a/n/P that break Kepler III or differ from a fresh orbit: %s" % (
                                     bad["act"], bad["params"], json.dumps(mm[0])[:300]),
                                 {"config": job["config"], "form": job["form"], "behaviour": beh[:bad["k"] + 1], "mismatch": mm})
    ck.cov["traces_validated_against_impl"] = sum(len(j["behaviours"]) for j in jobs)
    ck.notes["orbit_history_steps"] = nsteps
    orbit_triples(ck, rng, tier, seed)
    orbit_registry_extension(ck, tier, seed)
    for d in detail[:3] + detail[-2:]:
        ck.sample(d)
    ck.cov["rule"] = ("cases: (helper, implementation, mass pair) monomial measurements; (inverse pair, implementation, masses) round-trip batches of "
                      "log-uniform inputs over 30 decades; compiled/interpreted twin comparisons; replayed orbit update steps")
    ck.assumptions += ["monomial exponent measured on powers of two 2^-54..2^54; constants identified against the numeric generator candidates listed in the harness",
                       "round-trip and twin tolerance 256 ulp (5.7e-14 relative): observed worst on the unchanged tree is ~10 ulp (x**(1/3) vs cbrt at |ln x| ~ 100); every constant or exponent error is > 1e-6"]
    return ck.finish()


def orbit_triples(ck, rng, tier, seed):
    """specs/OrbitTriple.tla: moon and stellar orbit triples of a star / non-stellar host / moon system."""
    import subprocess
    from . import c13
    from .. import tlaval
    from ..core import PY, VERIF
    r = run_tlc("OrbitTriple", "OrbitTriple.cfg", coverage=True, timeout=300)
    ck.add_tlc(r, "OrbitTriple complete graph")
    ra = run_tlc("OrbitTriple", "OrbitTriple_asfound_mass.cfg", timeout=300, expect_violation=True)
    if ra.ok or ra.violated != "KeplerCurrentAlways":
        raise MachineryError("OrbitTriple_asfound_mass: expected KeplerCurrentAlways to be violated, got %s" % ra.violated)
    st = lambda s: {"moon": s["moon"]["a"], "stellar": s["stellar"]["a"], "moon_m": list(s["moon"]["m"]), "stellar_m": list(s["stellar"]["m"]),
                    "moon_current": list(s["moon"]["m"]) == [s["mm"], s["hm"]], "stellar_current": list(s["stellar"]["m"]) == [s["hm"]]}
    # 288 states / 17.8k transitions with the mass ids: the quick tier replays a uniform sample of the transitions, the thorough tier all
    walks = c13.graph_walks(ck, "OrbitTriple", "OrbitTriple.cfg", st, rng, 1500 if tier == "quick" else 10 ** 9, "OrbitTriple")
    if not any(stp[0] in ("MoonMass", "HostMass") for w in walks for stp in w):
        raise MachineryError("vacuity: no mass change in the OrbitTriple walks")
    # the star as tidal host (StarHost = TRUE): the planet's own orbit is its stellar orbit, set_stellar_distance updates that triple
    rs = run_tlc("OrbitTriple", "OrbitTriple_starhost.cfg", coverage=True, timeout=300)
    ck.add_tlc(rs, "OrbitTriple, star as tidal host (complete graph)")
    if not rs.ok:
        raise MachineryError("OrbitTriple_starhost: %s violated" % rs.violated)
    walks_star = c13.graph_walks(ck, "OrbitTriple", "OrbitTriple_starhost.cfg", st, rng, 10 ** 9, "OrbitTriple_starhost")
    if not any(stp[0] == "StellarDistance" for w in walks_star for stp in w):
        raise MachineryError("vacuity: no StellarDistance step in the star-host walks")
    wd = scratch("c17orb")
    jobs = []
    all_walks = {}
    for form in ("scalar", "array", "inplace", "star_scalar", "star_inplace"):
        p = os.path.join(wd, "orb_%s.json" % form)
        all_walks[form] = walks_star if form.startswith("star_") else walks
        json.dump({"form": form.replace("star_", ""), "star_host": form.startswith("star_"), "behaviours": all_walks[form]}, open(p, "w"))
        env = dict(os.environ, PYTHONPATH=core.pythonpath(), PYTHONHASHSEED="0", NUMBA_NUM_THREADS="1", NUMBA_CACHE_DIR=core.private_numba_cache(form))
        jobs.append((form, p, subprocess.Popen([PY, "-m", "harness.orbit_driver", p], cwd=VERIF, env=env, stdin=subprocess.DEVNULL,
                                               stdout=open(p + ".log", "w"), stderr=subprocess.STDOUT)))
    total = 0
    stale_seen = []
    for form, p, pr in jobs:
        pr.wait(timeout=1800)
        if pr.returncode != 0 or not os.path.exists(p + ".out.json"):
            raise MachineryError("orbit_driver failed: %s" % open(p + ".log").read()[-1200:])
        res = json.load(open(p + ".out.json"))["results"]
        for beh, rb in zip(all_walks[form], res):
            total += rb["steps"]
            for stp in beh[:rb["steps"]]:
                ck.case(("orbit-triple", form, stp[0], tuple(map(str, stp[1])), json.dumps(stp[2], sort_keys=True)), stp[0] != "Init")
            if rb["bad"]:
                b = rb["bad"]
                m = b["mismatch"][0]
                ck.violation({"clause": "orbit_kepler", "action": b["act"], "orbit": m["orbit"], "what": m["what"],
                              "via": (b["params"][-1] if b["act"] == "StellarDistance" else None)},
                             "form=%s after %d calls, %s%s: %s orbit: %s" % (form, b["k"], b["act"], b["params"], m["orbit"], m["detail"]),
                             {"form": form, "behaviour": beh[:b["k"] + 1], "mismatch": b["mismatch"]})
            if rb.get("stale") and not stale_seen:
                # "always ... for the current masses": right after world.set_geometry(radius, mass) the stored triple is still the old one
                stale_seen.append(rb["stale"][0])
                ck.violation({"clause": "orbit_kepler", "what": "stale_after_mass_change", "action": "set_geometry"},
                             "after a mass change (world.set_geometry) and before the next orbit update the %s triple is Keplerian for the old masses only: n^2 a^3/(G(M+m)) - 1 = %.3g" % (
                                 rb["stale"][0]["orbit"], rb["stale"][0]["r_current"]), {"form": form, "stale": rb["stale"][:3]})
    ck.notes["orbit_triple_steps"] = total
    ck.cov["traces_validated_against_impl"] += 3 * len(walks) + 2 * len(walks_star)


def orbit_registry_extension(ck, tier, seed):
    """specs/OrbitRegistry.tla (beyond the listed property): a host with several moons - registry order, signature resolution
    (instance / name / lower / title / index / the host standing for its tide raiser), per-world storage, clear_state."""
    from .. import tlaval
    r = run_tlc("OrbitRegistry", "OrbitRegistry.cfg", coverage=True, timeout=600, workers=8)
    ck.add_tlc(r, "OrbitRegistry (extension): three moons, two values (complete graph under VIEW)")
    if not r.ok:
        raise MachineryError("OrbitRegistry: %s violated" % r.violated)
    zero = [a for a, (d, t) in r.coverage.items() if t == 0 and a != "ReAdd"]     # ReAdd is switched off in this configuration
    if zero:
        raise MachineryError("vacuity: OrbitRegistry actions never taken: %s" % zero)
    wd = scratch("orsim")
    os.makedirs(os.path.join(wd, "sim"))
    nb = 16 if tier == "quick" else 160
    run_tlc("OrbitRegistry", "OrbitRegistry_sim.cfg", workdir=wd, workers=1, timeout=600, depth=16,
            simulate="file=%s,num=%d" % (os.path.join(wd, "sim", "b"), nb), seed=seed + 3)
    # the same registry with add_tidal_world repeated for a world that is already there (ReAdd, as found: a second slot, the two
    # look-up tables part ways): the structural invariants still hold, NoDuplicates / LookupAgree are the named deviation
    rr = run_tlc("OrbitRegistry", "OrbitRegistry_readd.cfg", coverage=True, timeout=600, workers=8)
    ck.add_tlc(rr, "OrbitRegistry (extension): re-adding a world, two moons, three slots (complete graph under VIEW)")
    if not rr.ok:
        raise MachineryError("OrbitRegistry_readd: %s violated" % rr.violated)
    if any(t == 0 for a, (d, t) in rr.coverage.items()):
        raise MachineryError("vacuity: OrbitRegistry_readd actions never taken")
    ra = run_tlc("OrbitRegistry", "OrbitRegistry_asfound_readd.cfg", timeout=300, workers=4, expect_violation=True)
    if ra.ok or ra.violated not in ("NoDuplicates", "LookupAgree"):
        raise MachineryError("OrbitRegistry_asfound_readd: expected NoDuplicates / LookupAgree to be violated, got %s" % ra.violated)
    os.makedirs(os.path.join(wd, "simr"))
    run_tlc("OrbitRegistry", "OrbitRegistry_readd_sim.cfg", workdir=wd, workers=1, timeout=600, depth=16,
            simulate="file=%s,num=%d" % (os.path.join(wd, "simr", "b"), 40 * nb), seed=seed + 5)
    behs = []
    n_readd = n_kept = 0
    for sub in ("sim", "simr"):
        for f in sorted(os.listdir(os.path.join(wd, sub))):
            b = tlaval.parse_sim_file(os.path.join(wd, sub, f))
            if b:
                bb = [[list(st["last"]), {k: st[k] for k in ("order", "raiser", "ecc", "sma", "byInst", "byName")}] for _a, _g, st in b]
                nr = sum(1 for x in bb if x[0][0] == "ReAdd")
                # a ReAdd is one of several hundred enabled steps: simulate 40 x as many behaviours and keep those that contain one
                if sub == "simr" and (nr == 0 or n_kept >= nb):
                    continue
                n_kept += sub == "simr"
                behs.append(bb)
                n_readd += nr
    if not behs:
        raise MachineryError("no OrbitRegistry behaviours")
    if n_readd == 0:
        raise MachineryError("vacuity: no ReAdd step in the simulated OrbitRegistry behaviours")
    ck.notes["orbit_registry_readd"] = {"readd_steps_replayed": 2 * n_readd, "named_deviation": "OrbitRegistry_asfound_readd.cfg violates %s" % ra.violated}
    groups = [{"orbit": "base", "behaviours": behs}, {"orbit": "physics", "behaviours": behs}]

    def drive(grps, sabotage=False):
        out = scratch("orjob")
        jf = os.path.join(out, "job.json")
        json.dump({"groups": grps, "sabotage": sabotage}, open(jf, "w"))
        p = core.run_py(["-m", "harness.orbit_registry_driver", jf], timeout=3000, env={"NUMBA_NUM_THREADS": "1", "OMP_NUM_THREADS": "1"})
        if p.returncode != 0 or not os.path.exists(jf + ".out.json"):
            raise MachineryError("orbit_registry_driver failed: %s" % (p.stderr or "")[-1200:])
        return json.load(open(jf + ".out.json"))
    res = drive(groups)
    for g in groups:
        for b in g["behaviours"]:
            ck.cov["traces_validated_against_impl"] += 1
            for lab, st in b:
                ck.case(("orbit-registry", g["orbit"], json.dumps(lab), json.dumps(st, sort_keys=True)), lab[0] != "Init")
    for v in res["results"]:
        g = groups[v["group"]]
        kinds = {pr[0] for pr in v["problems"]}
        # C17 is about the Kepler triple the orbit reports after updates given as a / n / P: a broken triple, or a stored semi-major
        # axis that is not the one the update stands for, violates it; registry order, signature resolution and clear_state
        # semantics are specification extension
        relevant = "kepler" in kinds or (v["label"][0] == "SetA" and bool(kinds & {"sma", "world_property"}))
        report = ck.violation if relevant else ck.extension
        report({"clause": "orbit_registry_conformance", "action": v["label"][0], "what": v["problems"][0][0]},
                     "orbit registry (%s orbit) after %s: %s (history: %s)" % (v["orbit"], v["label"], "; ".join("%s: %s" % (a, b[:200]) for a, b in v["problems"][:3]), v["prefix"]),
                     {"kind": "orbit_registry", "orbit": v["orbit"], "behaviour": g["behaviours"][v["behaviour"]][:v["step"] + 1], "problems": v["problems"]})
    neg = drive([dict(groups[0], behaviours=[next(b for b in behs if any(x[0][0] in ("SetE", "SetA") and x[1] != y[1] for x, y in zip(b[1:], b)))])], sabotage=True)
    if not neg["results"]:
        raise MachineryError("orbit registry binding self-test failed: a skipped setter went unnoticed")
    ck.notes["orbit_registry_extension"] = {"behaviours": 2 * len(behs), "steps_replayed": res["steps"],
                                            "negative_control": "a skipped setter is reported (%s)" % neg["results"][0]["problems"][0][0]}


def replay(path):
    d = json.load(open(path))
    print(json.dumps(d, indent=1)[:3000])
    return 1
