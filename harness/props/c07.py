"""C07 - rheology models return the exact, passive complex modulus of their law.

Spec: specs/Rheology.tla - (a) elastic, Newton, Maxwell, Voigt-Kelvin, Burgers from their published complex compliance
over Gaussian rationals (TLC: M = 1/J, Re M >= 0, Im M >= 0, |M| <= mu for the Maxwell family; M exported); (b) the value
each of the seven models must return in the documented extreme-value branches (limit of the law), frequency limits taking
precedence over the modulus guard.
Binding (X): every exported case through every API path - scalar call, vectorize_frequency, vectorize_modulus_viscosity
(array lengths 1, 2, 7, 1000), find_rheology under every alias, and the legacy compliance functions inverted; (P) Andrade and
Sundberg-Cooper (Gamma function, fractional powers) against the law evaluated in Python on a log grid, plus passivity, the
unrelaxed bound and API-path identity for all seven models on that grid."""
import cmath
import json
import math
import random
from fractions import Fraction

import numpy as np

from .. import core
from ..core import Check, MachineryError, run_tlc, pyf

INF = float("inf")
ALIASES = {"elastic": ["elastic", "off", " Elastic "], "newton": ["newton", "viscous", "NEWTON"], "maxwell": ["maxwell", "Maxwell"],
           "voigt": ["voigt", "voigtkelvin", "VoigtKelvin"], "burgers": ["burgers", "Burgers"], "andrade": ["andrade", "Andrade "],
           "sundberg": ["sundberg", "sundbergcooper", "SundbergCooper"]}
NARGS = {"elastic": 0, "newton": 0, "maxwell": 0, "voigt": 2, "burgers": 2, "andrade": 2, "sundberg": 4}


def fr(p):
    return Fraction(p[0], p[1])


def relc(a, b):
    a, b = complex(a), complex(b)
    if a == b:
        return 0.0
    if not (cmath.isfinite(a) and cmath.isfinite(b)):
        return INF
    return abs(a - b) / max(abs(a), abs(b))


def law(model, w, mu, eta, args):
    """The published complex compliance, evaluated in Python complex arithmetic; returns M = 1/J."""
    w = abs(w)
    if model == "elastic":
        return complex(mu, 0)
    if model == "newton":
        return complex(0, w * eta)
    J = 1.0 / mu - 1.0j / (eta * w)
    if model == "maxwell":
        return 1.0 / J
    if model in ("voigt", "burgers"):
        sm, sv = args
        Jv = 1.0 / (sm * mu + 1.0j * w * sv * eta)
        return 1.0 / Jv if model == "voigt" else 1.0 / (J + Jv)
    if model == "andrade":
        alpha, zeta = args
    else:
        sm, sv, alpha, zeta = args
    tau = eta / mu
    Ja = (1.0 / mu) * (1.0j * w * tau * zeta) ** (-alpha) * math.gamma(1.0 + alpha)
    if model == "andrade":
        return 1.0 / (J + Ja)
    return 1.0 / (J + Ja + 1.0 / (sm * mu + 1.0j * w * sv * eta))


def all_paths(R, model, args, w, mu, eta, rng, lengths=(1, 2, 7, 1000)):
    """Evaluate one (w, mu, eta) through every API path; returns {path: value}."""
    out = {}
    classes = {nm: R.find_rheology(nm) for nm in ALIASES[model]}
    for nm, cls in classes.items():
        inst = cls(args) if NARGS[model] else cls()
        out["call/" + nm.strip().lower()] = inst(w, mu, eta)
    inst = list(classes.values())[0](args) if NARGS[model] else list(classes.values())[0]()
    for n in lengths:
        k = rng.randrange(n)
        f = np.full(n, w * 1.37)
        f[k] = w
        o = np.empty(n, dtype=np.complex128)
        inst.vectorize_frequency(f, mu, eta, o)
        out["vectorize_frequency/%d" % n] = complex(o[k])
        m = np.full(n, mu * 0.61)
        v = np.full(n, eta * 2.3)
        m[k], v[k] = mu, eta
        o2 = np.empty(n, dtype=np.complex128)
        inst.vectorize_modulus_viscosity(w, m, v, o2)
        out["vectorize_modulus_viscosity/%d" % n] = complex(o2[k])
    return out


def legacy_arrays(CM, model, args, w, mu, eta):
    """the legacy compliance functions with ARRAY compliance / viscosity (what the layered worlds pass): first call, the caller's
    arrays afterwards, and a second call with the same arrays. Returns (first, second, inputs_changed)"""
    import numpy as np
    comp = np.array([1.0 / mu, 1.0 / mu])
    visc = np.array([eta, eta])
    keep = (comp.copy(), visc.copy())

    def call():
        if model == "voigt":
            return CM.voigt(w, comp, visc, 1.0 / args[0], args[1])
        if model == "burgers":
            return CM.burgers(w, comp, visc, 1.0 / args[0], args[1])
        if model == "andrade":
            return CM.andrade(w, comp, visc, args[0], args[1])
        if model == "maxwell":
            return CM.maxwell(w, comp, visc)
        if model == "sundberg":
            return CM.sundberg(w, comp, visc, 1.0 / args[0], args[1], args[2], args[3])
        return None
    j1 = call()
    if j1 is None:
        return None
    j1 = np.array(j1, copy=True)
    changed = not (np.array_equal(comp, keep[0]) and np.array_equal(visc, keep[1]))
    j2 = np.array(call(), copy=True)
    return 1.0 / complex(j1[1]), 1.0 / complex(j2[1]), changed


def legacy(CM, model, args, w, mu, eta):
    comp = 1.0 / mu
    if model == "elastic":
        J = CM.elastic(w, comp, eta)
    elif model == "newton":
        J = CM.newton(w, comp, eta)
    elif model == "maxwell":
        J = CM.maxwell(w, comp, eta)
    elif model == "voigt":
        J = CM.voigt(w, comp, eta, 1.0 / args[0], args[1])
    elif model == "burgers":
        J = CM.burgers(w, comp, eta, 1.0 / args[0], args[1])
    elif model == "andrade":
        J = CM.andrade(w, comp, eta, args[0], args[1])
    else:
        J = CM.sundberg(w, comp, eta, 1.0 / args[0], args[1], args[2], args[3])
    return 1.0 / complex(J)


def by_name_and_freq_variants(ck, CM, rng, tier):
    """(a) Every legacy compliance function is also reached BY NAME: rheology/complex_compliance parses the '!TPY_args const:' line of
    its docstring into known_model_const_args and passes those values positionally after (frequency, compliance, viscosity). The
    declared order must be the order of the signature, and a by-name evaluation with distinguishable values must equal the keyword call.
    (b) andrade_freq / sundberg_freq are Andrade / Sundberg-Cooper with zeta replaced by zeta * exp(min(100, max(0, falloff * (1 -
    |w| / w_crit)))): identical to the plain law at and above the critical frequency, Maxwell-like (larger effective zeta) below."""
    import inspect
    from TidalPy.rheology.complex_compliance import known_models, known_model_const_args, known_model_live_args
    for name, fn in sorted(known_models.items()):
        f = pyf(fn)
        # positional order of a by-name evaluation: frequency, the live arguments (compliance, viscosity, ...), then the constants
        n_live = len(known_model_live_args.get(name, ())) or 2
        params = [p_ for p_ in inspect.signature(f).parameters][1 + n_live:]
        declared = list(known_model_const_args.get(name, ()))
        ck.case(("by_name_order", name), True)
        if declared != params:
            ck.violation({"clause": "by_name_argument_order", "model": name},
                         "compliance model %s declares its constant arguments as %s but its signature takes %s after (frequency, compliance, viscosity): every by-name evaluation passes them in the declared order" % (name, declared, params), {"model": name})
            continue
        if n_live != 2:
            continue
        vals = [0.31 + 0.17 * i for i in range(len(params))]                 # distinguishable, physically harmless values
        w, comp, visc = 2.0e-6, 1.0 / 5.0e10, 1.0e18
        a = complex(np.asarray(f(w, comp, visc, *vals)).ravel()[0])
        b = complex(np.asarray(f(w, comp, visc, **dict(zip(params, vals)))).ravel()[0])
        if relc(a, b) > 1e-14:
            ck.violation({"clause": "by_name_argument_order", "model": name}, "%s: positional (by-name order) %r != keyword call %r" % (name, a, b), {"model": name})
    n = 300 if tier == "quick" else 5000
    for t in range(n):
        base = ("andrade", "sundberg")[t % 2]
        wc = 10 ** rng.uniform(-8, -5)
        fall = rng.choice([30.0, 5.0, 100.0])
        ratio = [1.0, 1.0 + 10 ** rng.uniform(-6, 1), 10 ** rng.uniform(-3, -0.001), 1.0 - 10 ** rng.uniform(-6, -2), rng.uniform(0.0, 1.0)][t % 5]
        w = wc * ratio
        mu, eta = 10 ** rng.uniform(9, 11.5), 10 ** rng.uniform(14, 24)
        alpha, zeta = rng.uniform(0.05, 0.6), 10 ** rng.uniform(-1, 1)
        sm, sv = 10 ** rng.uniform(-0.5, 1.0), 10 ** rng.uniform(-2, 0.5)
        zeff = zeta * math.exp(min(100.0, max(0.0, -fall * (ratio - 1.0))))
        args_eff = (alpha, zeff) if base == "andrade" else (sm, sv, alpha, zeff)
        exp = law(base, w, mu, eta, args_eff)
        fn = getattr(CM, base + "_freq")
        extra = (alpha, zeta, wc, fall) if base == "andrade" else (1.0 / sm, sv, alpha, zeta, wc, fall)       # (compliance offset = 1 / modulus scale)
        det = {"model": base + "_freq", "w": w, "w/w_crit": ratio, "falloff": fall, "mu": mu, "eta": eta, "alpha": alpha, "zeta": zeta}
        ck.case(("freq_variant", t), True)
        for tag, f in (("jit", fn), ("py", pyf(fn))) if t % 10 == 0 else (("jit", fn),):
            got = 1.0 / complex(np.asarray(f(w, 1.0 / mu, eta, *extra)).ravel()[0])
            ga = 1.0 / complex(np.asarray(f(np.array([w, w]), 1.0 / mu, eta, *extra)).ravel()[1])
            e = relc(got, exp)
            if not e <= 1e-10 or relc(ga, got) > 1e-13:
                ck.violation({"clause": "law_value", "model": base + "_freq", "region": "below_critical" if ratio < 1 else "at_or_above_critical"},
                             "%s[%s](w = %.4g = %.6g w_crit): 1/J = %r (array call %r), the law with zeta_eff = %.6g gives %r (rel %.3g)" % (base + "_freq", tag, w, ratio, got, ga, zeff, exp, e), det)
                break
            if got.imag < 0 or got.real < 0:
                ck.violation({"clause": "passive", "model": base + "_freq"}, "%s: modulus %r is not passive" % (base + "_freq", got), det)


def run(tier, seed):
    ck = Check("C07", "model_checking", tier, seed)
    rng = random.Random(seed)
    r = run_tlc("MC_Rheology", "Rheology.cfg", workers=4, timeout=600)
    ck.add_tlc(r, "Rheology: exact lattice of the rational models + extreme-value region table")
    rows = [x[1] for x in core.printed_values(r.stdout, "ROW")]
    if len(rows) != r.distinct or len(rows) < 150:
        raise MachineryError("exported %d rows for %d states" % (len(rows), r.distinct))
    import os
    import warnings
    warnings.filterwarnings("ignore")
    os.environ.setdefault("OMP_NUM_THREADS", "4")      # the 1000-element helpers use prange; 16 threads per tiny call only add overhead
    import TidalPy  # noqa
    from TidalPy import rheology as R
    from TidalPy.rheology.complex_compliance import compliance_models as CM
    worst = {}
    for c in rows:
        model = c["model"]
        if c["kind"] == "exact":
            sm, sv = float(fr(c["sm"])), float(fr(c["sv"]))
            args = (sm, sv) if model in ("voigt", "burgers") else None
            w, mu, eta = float(fr(c["w"])) * 2.0 ** -20, float(fr(c["mu"])) * 2.0 ** 30, float(fr(c["eta"])) * 2.0 ** 50
            exp = complex(float(fr(c["M"][0])), float(fr(c["M"][1]))) * 2.0 ** 30
            ck.case(("exact", model, str(c["w"]), str(c["mu"]), str(c["eta"]), str(c["sm"]), str(c["sv"])), True)
            vals = all_paths(R, model, args, w, mu, eta, rng)
            vals["legacy_compliance_inverted"] = legacy(CM, model, args or (), w, mu, eta)
            vals["negative_frequency"] = R.find_rheology(model)(args)(-w, mu, eta) if args else R.find_rheology(model)()(-w, mu, eta)
            for path, got in vals.items():
                e = relc(got, exp)
                worst[model] = max(worst.get(model, 0.0), e)
                if e > 1e-13:
                    ck.violation({"clause": "law_value", "model": model, "path": path.split("/")[0]},
                                 "%s via %s: M(w=%g, mu=%g, eta=%g%s) = %r, 1/J of the published law = %r (rel %.3g)" % (
                                     model, path, w, mu, eta, ", voigt scales %s" % (args,) if args else "", got, exp, e), {"case": str(c), "path": path})
                    break
        else:
            freqs = {"low": [0.0, 1e-18, -1e-18, 5e-324], "mid": [1.0e-5], "high": [1.0e9, INF, -INF]}[c["freg"]]
            mods = {"tiny": [1.0e-4, 0.0], "normal": [5.0e10]}[c["mreg"]]
            eta = 1.0e18
            args = {"voigt": (5.0, 0.02), "burgers": (5.0, 0.02), "andrade": (0.3, 1.0), "sundberg": (5.0, 0.02, 0.3, 1.0)}.get(model)
            inst = R.find_rheology(model)(args) if args else R.find_rheology(model)()
            for w in freqs:
                for mu in mods:
                    ck.case(("region", model, c["freg"], c["mreg"], w, mu), True)
                    got = inst(w, mu, eta)
                    tag = c["value"]
                    if tag == "zero":
                        ok = got == 0j
                    elif tag == "mu":
                        ok = got == complex(mu, 0)
                    elif tag == "mu_v":
                        ok = got == complex(args[0] * mu, 0)
                    elif tag == "i_inf":
                        ok = got.real == 0 and got.imag == INF
                    elif tag == "i_w_eta":
                        ok = got.real == 0 and relc(got.imag, abs(w) * eta) < 1e-15
                    elif tag == "i_w_eta_v":
                        ok = got.real == 0 and relc(got.imag, abs(w) * args[1] * eta) < 1e-15
                    else:
                        ok = relc(got, law(model, w, mu, eta, args)) < 1e-12
                    if not ok:
                        ck.violation({"clause": "extreme_value_branch", "model": model, "freq_region": c["freg"], "modulus_region": c["mreg"]},
                                     "%s(w=%r, mu=%r, eta=%g) = %r, documented branch value: %s" % (model, w, mu, eta, got, tag), {"case": str(c)})
                    # the array helpers take the same branch
                    o = np.empty(3, dtype=np.complex128)
                    inst.vectorize_frequency(np.array([w, w, w]), mu, eta, o)
                    if not all((x == got) or (cmath.isnan(x) and cmath.isnan(got)) for x in o):
                        ck.violation({"clause": "path_identity", "model": model, "path": "vectorize_frequency"},
                                     "%s: vectorize_frequency gives %r, scalar call %r at w=%r mu=%r" % (model, o.tolist(), got, w, mu), {"case": str(c)})
    # ---- log grid: the two transcendental laws + passivity, bound, path identity for all seven models
    n = 7000 if tier == "quick" else 70000
    mono_bad = 0
    for t in range(n):
        model = ["elastic", "newton", "maxwell", "voigt", "burgers", "andrade", "sundberg"][t % 7]
        w = 10 ** rng.uniform(-12, 2)
        mu = 10 ** rng.uniform(3, 13)
        eta = 10 ** rng.uniform(0, 30)
        alpha, zeta = rng.uniform(0.02, 0.98), 10 ** rng.uniform(-2, 2)
        sm, sv = 10 ** rng.uniform(-1, 1.5), 10 ** rng.uniform(-3, 1)
        args = {"voigt": (sm, sv), "burgers": (sm, sv), "andrade": (alpha, zeta), "sundberg": (sm, sv, alpha, zeta)}.get(model)
        exp = law(model, w, mu, eta, args)
        det = {"model": model, "w": w, "mu": mu, "eta": eta, "args": args}
        ck.case(("grid", t), True)
        vals = all_paths(R, model, args, w, mu, eta, rng, lengths=(1, 7) if t % 40 else (1, 2, 7, 1000))
        base = vals["call/" + ALIASES[model][0]]
        e = relc(base, exp)
        worst[model + "/grid"] = max(worst.get(model + "/grid", 0.0), e)
        if e > 1e-11:
            ck.violation({"clause": "law_value", "model": model, "path": "call"}, "%s(w=%g, mu=%g, eta=%g, args=%s) = %r, law gives %r (rel %.3g)" % (
                model, w, mu, eta, args, base, exp, e), det)
            continue
        for path, got in vals.items():
            if got != base:
                ck.violation({"clause": "path_identity", "model": model, "path": path.split("/")[0]},
                             "%s: %s gives %r, scalar call gives %r" % (model, path, got, base), det)
                break
        lg = legacy(CM, model, args or (), w, mu, eta)
        if relc(lg, base) > 1e-10:
            ck.violation({"clause": "path_identity", "model": model, "path": "legacy_compliance_inverted"},
                         "%s: 1/J of the legacy compliance function = %r, compiled model = %r (rel %.3g)" % (model, lg, base, relc(lg, base)), det)
        if t % 3 == 0:
            la = legacy_arrays(CM, model, args or (), w, mu, eta)
            if la is not None:
                f1, f2, changed = la
                if changed:
                    ck.violation({"clause": "inputs_unmodified", "model": model, "path": "legacy_array"}, "%s: the legacy compliance function modified the caller's compliance / viscosity arrays" % model, det)
                elif relc(f1, base) > 1e-10 or relc(f2, base) > 1e-10:
                    ck.violation({"clause": "path_identity", "model": model, "path": "legacy_array"},
                                 "%s: legacy compliance function with array inputs: first call %r, second call %r, compiled model %r" % (model, f1, f2, base), det)
        if base.real < -1e-13 * abs(base) or base.imag < -1e-13 * abs(base):
            ck.violation({"clause": "passive", "model": model}, "%s: modulus %r has a negative part (energy generation)" % (model, base), det)
        if model in ("maxwell", "burgers", "andrade", "sundberg") and abs(base) > mu * (1 + 1e-12):
            ck.violation({"clause": "bounded_by_unrelaxed", "model": model}, "%s: |M| = %r exceeds the unrelaxed rigidity %r" % (model, abs(base), mu), det)
        if model in ("maxwell", "burgers", "andrade", "sundberg") and t % 5 == 0:
            inst = R.find_rheology(model)(args) if args else R.find_rheology(model)()
            ws = np.logspace(math.log10(w), 7.9, 12)
            o = np.empty(12, dtype=np.complex128)
            inst.vectorize_frequency(ws, mu, eta, o)
            if abs(abs(o[-1]) - mu) > abs(abs(o[0]) - mu) * (1 + 1e-9) + 1e-12 * mu:
                ck.violation({"clause": "tends_to_unrelaxed", "model": model}, "%s: |M| moves away from mu with increasing frequency: %r -> %r (mu=%r)" % (
                    model, abs(o[0]), abs(o[-1]), mu), det)
    by_name_and_freq_variants(ck, CM, rng, tier)
    ck.cov["traces_validated_against_impl"] = len(rows)
    ck.notes["worst_relative_deviation"] = {k: float("%.3g" % v) for k, v in sorted(worst.items())}
    ck.sample({k: str(v) for k, v in rows[0].items()})
    ck.sample({k: str(v) for k, v in next(x for x in rows if x["kind"] == "region" and x["model"] == "sundberg").items()})
    if relc(1.0 + 3e-13, 1.0) <= 1e-13:
        raise MachineryError("negative control failed")
    ck.notes["negative_control"] = "a 3e-13 relative perturbation exceeds the exact-lattice tolerance"
    ck.cov["rule"] = "one case = one exported lattice / region case through every API path, or one random grid point of one model through every API path"
    ck.assumptions += ["lattice values are scaled into the physical range by exact powers of two (w 2^-20, mu 2^30, eta 2^50: M scales by 2^30)",
                       "Andrade / Sundberg-Cooper: the law is evaluated with Python's cmath and math.gamma (rel. 1e-11)",
                       "thread count is whatever OpenMP picks for the 1000-element helpers (16 here); OMP_NUM_THREADS is not varied"]
    return ck.finish()


def replay(path):
    print(open(path).read()[:2000])
    return 1
