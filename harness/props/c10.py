"""C10 - mode-summed tidal heating and torques are consistent and physically signed.

Spec: specs/Modes.tla - the mode sums from their definition in exact rationals plus the skip / frequency-signature
grouping bookkeeping of calculate_terms; TLC (simulation over arbitrary integer tables, frequencies in -3..3) checks the
energy identity, non-negativity, grouping soundness + invariance, skip-rule soundness, vanishing for circular synchronous
zero-obliquity tables, and exports every visited state with its exact sums.
Binding (X/R): every exported state is replayed through the real calculate_terms / collapse_modes with the same integer
tables and compared with the exact sums (and the number of unique frequency signatures with the spec's grouping);
(P) the identities are evaluated on quick_tidal_dissipation over l_max, truncation level, rheology, scalar/array."""
import json
import math
import random
from fractions import Fraction

import numpy as np

from .. import core
from ..core import pyf, Check, MachineryError, run_tlc

S_SUS = 8.0
M_HOST = 4.0


def fr(p):
    return Fraction(p[0], p[1])


def replay_row(row, calc, coll, array_form=False, coll_jit=None):
    replay_row.array_issue = None
    _, n, w, kmul, koff, ecc, inc, H, dM, dW, dO, nsig = row
    Ls = sorted({k[0] for k, v in ecc} | {k[0] for k, v in inc} | {2, 3})
    eccd = {l: {p: {} for p in range(l + 1)} for l in Ls}
    incd = {l: {} for l in Ls}
    for (l, p, q), v in ecc:
        eccd[l][p][q] = float(v)
    for (l, m, p), v in inc:
        incd[l][(m, p)] = float(v)
    added = False
    if 0 not in eccd[2][0]:
        eccd[2][0][0] = 0.0          # the code reads this entry to type its containers; a zero entry changes no sum
        added = True
    if (0, 1) not in incd[2]:
        incd[2][(0, 1)] = 0.0
        added = True
    fn = float(n)
    fw = fn if n == w else float(w)      # same object when synchronous: the code's `is` test
    uf, terms = calc(fw, fn, 1.0, 1.0, eccd, incd, True)
    K = lambda f: 0 if f == 0 else (f * kmul + koff) % 3
    love = {sig: complex(0.3, -float(K(int(round(abs(f)))))) for sig, f in uf.items()}
    if not love:
        return None, added, 0
    out = coll(1.0, 1.0, 1.0, 1.0, 1.0, M_HOST, S_SUS, love, terms, max(Ls), True)
    replay_row.array_issue = None
    # tidal_scale multiplies the dissipating volume: heating AND the three potential derivatives scale with it (a binary fraction:
    # the scaling is exact); the mode-sum identities are homogeneous in it
    out_s = coll(1.0, 1.0, 1.0, 1.0, 0.375, M_HOST, S_SUS, love, terms, max(Ls), True)
    for k, nm in enumerate(("tidal_heating", "dUdM", "dUdw", "dUdO")):
        a, b = float(out_s[k]), 0.375 * float(out[k])
        if abs(a - b) > 1e-11 * max(1.0, abs(b)):           # same normalisation as the definition clause: sums that cancel leave rounding noise
            replay_row.array_issue = ("tidal_scale", "collapse_modes with tidal_scale = 0.375: %s = %r, 0.375 x the unscaled result = %r" % (nm, a, b))
            break
    if array_form and replay_row.array_issue is None:
        # array-valued frequencies / Love numbers: the caller's containers must come back untouched, a second call with the same
        # containers must give the same numbers, and every element must equal the scalar result
        import numpy as np
        fwa = np.array([fw, fw])
        fna = fwa if n == w else np.array([fn, fn])
        ufa, termsa = calc(fwa, fna, 1.0, 1.0, eccd, incd, True)
        lovea = {sig: np.full(2, complex(0.3, -float(K(int(round(abs(float(np.asarray(f).ravel()[0])))))))) for sig, f in ufa.items()}
        keep = {sig: v.copy() for sig, v in lovea.items()}
        for impl_name, impl in (("py", coll), ("jit", coll_jit)):
            if impl is None:
                continue
            o1 = impl(1.0, 1.0, 1.0, 1.0, 1.0, M_HOST, S_SUS, lovea, termsa, max(Ls), True)
            changed = [str(sig) for sig in lovea if not np.array_equal(lovea[sig], keep[sig])]
            o2 = impl(1.0, 1.0, 1.0, 1.0, 1.0, M_HOST, S_SUS, lovea, termsa, max(Ls), True)
            if changed:
                replay_row.array_issue = ("inputs_unmodified", "collapse_modes[%s] modified the caller's Love-number arrays for signatures %s" % (impl_name, changed[:3]))
                for sig in lovea:
                    lovea[sig] = keep[sig].copy()
            for k in range(4):
                a1, a2 = np.asarray(o1[k], dtype=float) * np.ones(2), np.asarray(o2[k], dtype=float) * np.ones(2)
                sc = float(np.asarray(out[k], dtype=float).ravel()[0])
                tol = 1e-11 * max(1.0, abs(sc))
                if replay_row.array_issue is None and float(np.max(np.abs(a1 - a2))) > tol:
                    replay_row.array_issue = ("repeat_call", "collapse_modes[%s] called twice with the same containers: output %d %r then %r" % (impl_name, k, a1.tolist(), a2.tolist()))
                if replay_row.array_issue is None and float(np.max(np.abs(a1 - sc))) > tol:
                    replay_row.array_issue = ("array_vs_scalar", "collapse_modes[%s] array form output %d = %r, scalar form %r" % (impl_name, k, a1.tolist(), sc))
    return out[:4], added, len(uf)


def run(tier, seed):
    ck = Check("C10", "model_checking", tier, seed)
    rng = random.Random(seed)
    num = 14 if tier == "quick" else 150
    r = run_tlc("MC_Modes", "Modes_sim.cfg", workers=8, timeout=3000, simulate="num=%d" % num, depth=20, seed=seed + 5)
    rows = core.printed_values(r.stdout, "ROW")
    ck.cov["states"] += len(rows)
    ck.cov["transitions"] += len(rows)
    ck.notes["tlc_runs"] = [{"run": "Modes simulation num=%d/worker depth=20, 6 invariants on every state" % num, "states_visited": len(rows),
                             "wall_s": round(r.wall, 1)}]
    if len(rows) < 100:
        raise MachineryError("too few states exported by TLC: %d" % len(rows))
    import TidalPy  # noqa
    from TidalPy.tides.modes import mode_manipulation as MM
    calc, coll = pyf(MM.calculate_terms), pyf(MM.collapse_modes)
    seen = set()
    nz = 0
    worst = 0.0
    for row in rows:
        key = (row[1], row[2], row[3], row[4], row[5], row[6])
        if key in seen:
            continue
        seen.add(key)
        exp = [float(fr(row[7])) * S_SUS, float(fr(row[8])) * S_SUS / M_HOST, float(fr(row[9])) * S_SUS / M_HOST,
               float(fr(row[10])) * S_SUS / M_HOST]
        nontriv = any(x != 0 for x in exp)
        nz += nontriv
        ck.case(("row", hash(key)), nontriv)
        det = {"n": row[1], "W": row[2], "K(f)=(f*%d+%d)%%3" % (row[3], row[4]): True, "ecc": sorted([list(k) + [v] for k, v in row[5]]),
               "inc": sorted([list(k) + [v] for k, v in row[6]])}
        try:
            got, added, nsig = replay_row(row, calc, coll, array_form=(len(seen) % 4 == 1), coll_jit=None)
            if replay_row.array_issue:
                ck.violation({"clause": replay_row.array_issue[0], "fn": "collapse_modes"}, replay_row.array_issue[1] + " tables=%s" % json.dumps(det)[:300], det)
        except Exception as ex:
            ck.violation({"clause": "exception", "exc": type(ex).__name__}, "calculate_terms/collapse_modes raised %s: %s on %s" % (
                type(ex).__name__, str(ex)[:100], json.dumps(det)[:300]), det)
            continue
        if got is None:
            if nontriv:
                ck.violation({"clause": "definition", "what": "no_modes"}, "code produced no modes, spec sums %s" % exp, det)
            continue
        for nm, g, x in zip(("tidal_heating", "dUdM", "dUdw", "dUdO"), got, exp):
            err = abs(float(g) - x) / max(1.0, abs(x))
            worst = max(worst, err)
            if err > 1e-11:
                ck.violation({"clause": "definition", "what": nm}, "%s = %r, exact mode sum %r (n=%s, W=%s) tables=%s" % (
                    nm, float(g), x, row[1], row[2], json.dumps(det)[:400]), det)
                break
        if not added and nsig != row[11]:
            ck.violation({"clause": "grouping", "what": "signatures"}, "code stores %d unique frequency signatures, spec grouping has %d: %s" % (
                nsig, row[11], json.dumps(det)[:300]), det)
        if len(ck.cov["samples"]) < 3 and nontriv:
            ck.sample({"state": det, "exact_sums[heating/S, dUdM*Mh/S, dUdw*Mh/S, dUdO*Mh/S]": [str(fr(row[i])) for i in (7, 8, 9, 10)],
                       "signatures": row[11]})
    ck.cov["traces_validated_against_impl"] = len(seen)
    ck.notes["table_replay"] = {"distinct_states": len(seen), "with_nonzero_sums": nz, "worst_error": worst}
    # negative control: a replay against perturbed expectations must fail
    row = next(rw for rw in rows if fr(rw[7]) != 0)
    got, _, _ = replay_row(row, calc, coll)
    if abs(float(got[0]) - float(fr(row[7])) * S_SUS * (1 + 1e-9)) / max(1.0, abs(float(got[0]))) <= 1e-11:
        raise MachineryError("negative control failed")
    physical(ck, rng, 40 if tier == "quick" else 600)
    shipped_defaults(ck)
    ck.cov["rule"] = ("one case = one distinct TLC-visited table state (n, W, K, eccentricity table, inclination table) replayed through the real "
                      "calculate_terms/collapse_modes, or one physical configuration of the quick_tidal_dissipation identities; non-trivial = non-zero sums")
    ck.assumptions += ["table replay uses the undecorated (py_func) bookkeeping; the jitted path and the shipped tables are exercised through quick_tidal_dissipation",
                       "non-negativity asserted only for e <= 0.1 (N<=4), 0.25 (N<=8), 0.4 (N>=10)"]
    return ck.finish()


def physical(ck, rng, nstates):
    from TidalPy.constants import G
    from TidalPy.toolbox.quick_tides import quick_tidal_dissipation
    worst = 0.0
    for t in range(nstates):
        lmax = rng.choice([2, 2, 3, 4, 5, 6, 7]) if t % 5 == 0 else rng.choice([2, 2, 3])
        trunc = rng.choice([2, 4, 6, 8, 10, 12, 14, 16, 18, 20])
        emax = 0.1 if trunc <= 4 else (0.25 if trunc <= 8 else 0.4)
        kind = t % 4
        Rr = 10 ** rng.uniform(5.8, 7)
        rho = rng.uniform(1500, 6000)
        m = 4 / 3 * math.pi * Rr ** 3 * rho
        g = G * m / Rr ** 2
        moi = 0.35 * m * Rr ** 2
        M = 10 ** rng.uniform(24, 30)
        n = 10 ** rng.uniform(-6, -4)
        rheo = rng.choice(["maxwell", "andrade", "burgers", "sundberg", "cpl", "ctl", "voigt"])
        arr = (t % 3 == 1)
        e = rng.uniform(0, emax)
        obl = rng.choice([0.0, rng.uniform(0, math.pi / 2)])
        ratio = rng.choice([1.0, 1.5, 2.0, -1.0, 0.5, rng.uniform(-3, 3)])
        if kind == 1:      # circular, zero obliquity, synchronous
            e, obl, ratio = 0.0, 0.0, 1.0
        if kind == 2:      # classical limit
            obl, ratio, trunc, lmax = 0.0, 1.0, 2, 2
            e = rng.uniform(0.001, 0.05)
        spin = n * ratio
        mk = (lambda x: np.array([x, x])) if arr else (lambda x: x)
        kw = dict(viscosity=10 ** rng.uniform(15, 21), shear_modulus=10 ** rng.uniform(9.5, 11), rheology=rheo,
                  eccentricity=mk(e), obliquity=mk(obl), orbital_frequency=mk(n), max_tidal_order_l=lmax,
                  eccentricity_truncation_lvl=trunc, fixed_q=50.0, fixed_k2=0.3, fixed_dt=100.0, use_obliquity=(obl != 0.0 or t % 2 == 0))
        # (classical-limit states never pass an explicit spin: an equal-valued but distinct spin object keeps the
        #  zero-frequency mode in the *average* that defines negative_imk_by_orderl, see DESIGN.md C13 notes)
        if (ratio != 1.0 or t % 2) and kind != 2:
            kw["spin_frequency"] = mk(spin)
        det = {"kind": ["general", "sync_circular", "classical", "general"][kind], "lmax": lmax, "trunc": trunc, "e": e, "obliquity": obl,
               "spin/n": ratio, "rheology": rheo, "array": arr, "R": Rr, "rho": rho, "M_host": M, "n": n}
        ck.case(("phys", t), True)
        try:
            if kind in (2, 3):
                # a result must not depend on what was evaluated before: the same state at ANOTHER truncation level first (a sweep over
                # truncation levels at fixed eccentricity), then the state itself, then (below) the classical limit / identities on it
                other = 8 if trunc != 8 else 4
                r_other = quick_tidal_dissipation(M, Rr, m, g, rho, moi, **dict(kw, eccentricity_truncation_lvl=other))
            res = quick_tidal_dissipation(M, Rr, m, g, rho, moi, **kw)
            if kind == 3:
                quick_tidal_dissipation(M, Rr, m, g, rho, moi, **dict(kw, eccentricity_truncation_lvl=other))
                res_again = quick_tidal_dissipation(M, Rr, m, g, rho, moi, **kw)
                for key in ("tidal_heating", "dUdM", "dUdw", "dUdO"):
                    a1, a2 = np.asarray(res[key], dtype=float).ravel(), np.asarray(res_again[key], dtype=float).ravel()
                    if not np.array_equal(a1, a2):
                        ck.violation({"clause": "call_order", "what": key}, "%s at truncation %d: %r, after a call at truncation %d and back: %r: %s" % (key, trunc, a1.tolist(), other, a2.tolist(), det), det)
                        break
                if e > 0.1 and trunc != other:        # (0.1^10 = 1e-10 relative: far above rounding)
                    h1, h2 = float(np.asarray(res["tidal_heating"]).ravel()[-1]), float(np.asarray(r_other["tidal_heating"]).ravel()[-1])
                    if h1 == h2 and h1 != 0.0:
                        ck.violation({"clause": "call_order", "what": "truncation_ignored"}, "tidal heating at truncation %d equals the one at truncation %d bit for bit (%r) at e = %.3f: %s" % (trunc, other, h1, e, det), det)
        except ZeroDivisionError as ex:
            if kind == 1:
                # all -Im k vanish: the effective-Q diagnostic divides by zero inside collapse_modes
                ck.violation({"clause": "sync_circular_zero", "what": "ZeroDivisionError"}, "quick_tidal_dissipation raised ZeroDivisionError for a circular synchronous orbit: %s" % det, det)
            else:
                ck.violation({"clause": "exception", "exc": "ZeroDivisionError"}, "quick_tidal_dissipation raised ZeroDivisionError: %s" % det, det)
            continue
        except Exception as ex:
            ck.violation({"clause": "exception", "exc": type(ex).__name__}, "quick_tidal_dissipation raised %s(%s): %s" % (type(ex).__name__, str(ex)[:100], det), det)
            continue
        pk = lambda x: float(np.asarray(x).ravel()[-1])
        H, dM, dW, dO = pk(res["tidal_heating"]), pk(res["dUdM"]), pk(res["dUdw"]), pk(res["dUdO"])
        rhs = M * (n * dM - spin * dO)
        sc = max(abs(H), abs(M * n * dM), abs(M * spin * dO), 1e-300)
        er = abs(H - rhs) / sc
        worst = max(worst, er)
        if er > 1e-10:
            ck.violation({"clause": "energy_identity"}, "heating %r != M_host (n dUdM - spin dUdO) = %r (rel %.3g): %s" % (H, rhs, er, det), det)
        if kind == 1 and not (H == 0.0 and dM == 0.0 and dW == 0.0 and dO == 0.0):
            ck.violation({"clause": "sync_circular_zero", "what": "nonzero"}, "circular synchronous zero-obliquity orbit: heating=%r dUdM=%r dUdw=%r dUdO=%r: %s" % (H, dM, dW, dO, det), det)
        if kind == 2:
            a = pk(res["semi_major_axis"])
            sus = 1.5 * G * M ** 2 * Rr ** 5 / a ** 6
            # -Im k2 at the single forcing frequency n: read from a run whose unique-frequency set is exactly {|omega| = n}
            # (no obliquity table, no explicit spin); negative_imk_by_orderl is an average over the stored frequencies
            kw2 = dict(kw, use_obliquity=False)
            kw2.pop("spin_frequency", None)
            kw2.pop("obliquity", None)
            nik = pk(quick_tidal_dissipation(M, Rr, m, g, rho, moi, **kw2)["negative_imk_by_orderl"][2])
            cl = 7.0 * nik * sus * n * e * e
            ec = abs(H - cl) / max(abs(cl), 1e-300)
            if ec > 1e-10:
                ck.violation({"clause": "classical_limit"}, "heating %r != (21/2)(-Im k2) G M^2 R^5 n e^2 / a^6 = %r (rel %.3g): %s" % (H, cl, ec, det), det)
        if rheo != "voigt" and H < 0 and abs(H) > 1e-12 * sc:
            ck.violation({"clause": "non_negative"}, "negative tidal heating %r for a passive rheology: %s" % (H, det), det)
    ck.notes["physical_worst_energy_identity_residual"] = worst


def shipped_defaults(ck):
    """the CPL/CTL laws as SHIPPED (default configuration) are passive: a world built with `use_ctl` and no explicit time lag must
    not have negative tidal heating (the exact mode sums of Modes.tla are >= 0 whenever every -Im k(f) is)"""
    import logging
    logging.disable(logging.WARNING)
    from TidalPy.structures import build_world, build_from_world
    from TidalPy.structures.orbit import PhysicsOrbit
    base, star = build_world("earth_simple"), build_world("55cnc")
    for use_ctl in (False, True):
        w = build_from_world(base, new_config={"force_spin_sync": False, "type": "simple_tidal", "mass": 5.972e24, "slices": 100,
                                               "tides": {"model": "global_approx", "use_ctl": use_ctl, "eccentricity_truncation_lvl": 2, "max_tidal_order_l": 2, "obliquity_tides_on": False}})
        s2 = build_from_world(star, new_config={})
        PhysicsOrbit(s2, tidal_host=s2, tidal_bodies=w)
        n = w.orbital_frequency
        for spin_ratio in (1.0, 1.5, 0.4):
            w.set_state(eccentricity=0.1, spin_frequency=spin_ratio * n)
            H = float(np.asarray(w.tidal_heating_global).ravel()[0])
            ck.case(("shipped_default", use_ctl, spin_ratio), True)
            det = {"use_ctl": use_ctl, "fixed_q": w.fixed_q, "fixed_dt": w.fixed_dt, "spin/n": spin_ratio, "e": 0.1}
            if not H >= 0.0:
                ck.violation({"clause": "non_negative_heating", "model": "ctl_default" if use_ctl else "cpl_default"},
                             "a %s world built with the shipped default dissipation parameters (fixed_q = %r, fixed_dt = %r) has tidal heating %r < 0 at e = 0.1, spin/n = %g" % (
                                 "CTL" if use_ctl else "CPL", w.fixed_q, w.fixed_dt, H, spin_ratio), det)


def replay(path):
    print(open(path).read()[:3000])
    return 1
