"""C01 - Love numbers of a uniform body equal the Kelvin/Love closed form.

Spec: specs/SolverObs.tla (representation space of the uniform problem: integrator, family, start level, static / dynamic,
compressible-limit / incompressible flag, non-dimensionalisation, rescaling ...; dispatch prediction) and specs/Love1d.tla
(the closed form itself, exact rationals, checked by C12). Binding (R): every representation of the uniform sphere TLC reaches
is solved at a quasi-static frequency (dynamic term omega^2 R / g <= 1e-8) with K/|mu| = 2e6 (O(mu/K) = 1e-7) and compared
with 3/(2(l-1))/(1+m_l); thorough adds l = 2..10 and random radii / densities / complex rigidities."""
import math
import random

from .. import solver_obs as so
from ..core import Check
from .c03 import expand

G = 6.67430e-11


def quasi_static(rho):
    return 1.0e-4 * math.sqrt(4.0 / 3.0 * math.pi * G * rho)


def variants(tier, rng):
    out = [dict(prob="uniform_solid", l=2, freq=quasi_static(5000.0))]
    for l in ((3, 4) if tier == "quick" else range(3, 11)):
        out.append(dict(prob="uniform_solid", l=l, freq=quasi_static(5000.0), _max_changes=1))
    for i in range(4 if tier == "quick" else 40):
        R = 10 ** rng.uniform(5, 8)
        rho = rng.uniform(1000, 10000)
        mu = 10 ** rng.uniform(8, 11.3)
        out.append(dict(prob="uniform_solid", l=rng.choice(range(2, 11)) if i % 2 else 2, freq=quasi_static(rho), _max_changes=1,
                        material=dict(R=R, rho=rho, mu=[mu, mu * 10 ** rng.uniform(-3, 0)], K=1.0e6 * max(mu, 4.0 / 3.0 * math.pi * G * rho * rho * R * R))))
    return out


def run(tier, seed):
    ck = Check("C01", "model_checking", tier, seed)
    rng = random.Random(seed)
    reps, yscale = so.representations(ck)
    reps = [r for r in reps if r["prob"] == "uniform_solid"]
    sel = []
    for v in variants(tier, rng):
        mc = v.pop("_max_changes", 3)
        sel += expand(reps, [v], max_changes=mc)
    outs = so.run_reps(sel)
    so.check_dispatch(ck, "C01", sel, outs, min_solved=0.6)
    so.check_c01(ck, sel, outs)
    ck.cov["traces_validated_against_impl"] = len(sel)
    ck.cov["rule"] = "uniform sphere: all TLC-reached representations at l=2 + single-step representations at other degrees / random bodies; closed form tolerance 5e-6 (+RK23/grid allowances)"
    ck.assumptions += ["K = 1e6 max(|mu|, rho g R) (random bodies; 2e6 |mu| for the catalogue body) stands for 'effectively incompressible': compressibility enters through mu/K AND, amplified for near-fluid bodies, through rho g R/K (measured: the Shida number moves as 14 rho g R / K); allowance 16 max(|mu|, rho g R)/K unless the incompressible flag is set (stiffer K makes most solves fail with 'maximum number of steps'); forcing frequency 1e-4 sqrt(4/3 pi G rho)",
                       "Takeuchi start vectors at r0/R >= 0.1 are a known finding of C04 and excluded",
                       "converged solves only"]
    return ck.finish()


def replay(path):
    """re-solve the representation recorded in a replay file and print what the solver returns next to the closed form"""
    import json
    from .. import solver_obs as so
    d = json.load(open(path))
    print(d["desc"][:3000])
    rep = (d.get("replay") or {}).get("rep")
    if rep:
        rep = dict(rep)
        out = so.run_reps([rep], nproc=1)[0]
        print(json.dumps({k: out.get(k) for k in ("status", "love", "tight_shift", "msg")}, indent=1)[:3000])
    return 1
