"""C20 - compiled math helpers match their mathematical definitions.

Spec: specs/CMath.tla - C99 Annex G special-value tables of csqrt / clog derived from the standard's rules + conjugate
symmetry on the 7x7 class lattice; exactly representable finite cases generated in integer arithmetic (principal roots of
Gaussian-integer squares, Pythagorean triples, Gaussian-integer powers, unit powers, n!! as prime-exponent vectors).
TLC checks the definitions against each other and exports 860 cases. Binding (X): the compiled helpers (and the interpreted
sqrt_neg twin) are evaluated on every case, scaled by exact powers of two across the exponent range incl. subnormals and
near overflow; bit-exact / <= 2 ulp as stated per case kind."""
import json
import math
import random

import numpy as np

from .. import core
from ..core import Check, MachineryError, run_tlc

ULP = 2.0 ** -52
INF, NAN = float("inf"), float("nan")
REPS = {"-inf": [-INF], "-fin": [-2.5, -1e300, -5e-324, -1.0], "-0": [-0.0], "+0": [0.0], "+fin": [3.0, 1e300, 5e-324, 1.0],
        "+inf": [INF], "nan": [NAN]}


def cls(v):
    if math.isnan(v):
        return "nan"
    if math.isinf(v):
        return "+inf" if v > 0 else "-inf"
    if v == 0:
        return "-0" if math.copysign(1.0, v) < 0 else "+0"
    return "+fin" if v > 0 else "-fin"


def IsFin(c):
    return c in ("-fin", "-0", "+0", "+fin")


def ulps(got, exp):
    if got == exp:
        return 0.0
    if not (math.isfinite(got) and math.isfinite(exp)):
        return float("inf")
    return abs(got - exp) / (math.ulp(exp) if exp != 0 else 5e-324)


ANGLES = {"pi": math.pi, "pi/2": math.pi / 2, "pi/4": math.pi / 4, "3pi/4": 3 * math.pi / 4}


def angle_ok(name, v):
    neg = name.startswith("-") and name not in ("-0",)
    base = name[1:] if neg else name
    if name == "nan":
        return math.isnan(v)
    if name in ("+0", "-0"):
        return v == 0 and cls(v) == name
    if base in ANGLES:
        return abs(abs(v) - ANGLES[base]) <= 2 * math.ulp(ANGLES[base]) and ((v < 0) == neg)
    if base == "(0,pi/2)":
        return 0 <= abs(v) <= math.pi / 2 and ((math.copysign(1.0, v) < 0) == neg)      # closed: rounding may reach the end points
    if base == "(pi/2,pi)":
        return math.pi / 2 <= abs(v) <= math.pi and ((v < 0) == neg)
    raise ValueError(name)


def run(tier, seed):
    ck = Check("C20", "model_checking", tier, seed)
    rng = random.Random(seed)
    r = run_tlc("CMath", "CMath.cfg", workers=4, timeout=900)
    ck.add_tlc(r, "CMath: 98 Annex-G cells + 762 exact finite cases, 6 consistency invariants")
    rows = [x[1] for x in core.printed_values(r.stdout, "ROW")]
    if len(rows) != r.distinct or len(rows) < 800:
        raise MachineryError("exported %d rows for %d states" % (len(rows), r.distinct))
    import TidalPy  # noqa
    from TidalPy.utilities.math import complex as C
    from TidalPy.utilities.math.special_x import double_factorial
    from TidalPy.utilities.math.special import sqrt_neg, _sqrt_neg_python
    js_big = list(range(-535, 505, 5 if tier == "thorough" else 37)) + [-537, -536, 0, 1, 507, 508]
    worst = {}

    def note(kind, u):
        worst[kind] = max(worst.get(kind, 0.0), u if math.isfinite(u) else 1e300)

    for c in rows:
        kind = c["kind"]
        if kind in ("csqrt_class", "clog_class"):
            fn = C.csqrt if kind == "csqrt_class" else C.clog
            name = kind.split("_")[0]
            bad = None
            for xv in REPS[c["x"]]:
                for yv in REPS[c["y"]]:
                    try:
                        out = fn(complex(xv, yv))
                    except Exception as ex:
                        bad = "raised %s at %r" % (type(ex).__name__, complex(xv, yv))
                        break
                    er, ei = c["out"]
                    if name == "csqrt":
                        okr = cls(out.real) == er or (er == "+fin" and cls(out.real) in ("+fin",)) or (er == "+0" and out.real == 0 and cls(out.real) == "+0")
                        if er == "+fin" and c["x"] in ("+fin", "-fin") and c["y"] in ("+fin", "-fin"):
                            okr = out.real > 0 or cls(out.real) == "+0"          # underflow to +0 allowed for subnormal inputs
                        if ei == "inf-any-sign":
                            oki = math.isinf(out.imag)
                        elif ei in ("+fin", "-fin") and c["x"] in ("+fin", "-fin") and c["y"] in ("+fin", "-fin"):
                            oki = (math.copysign(1.0, out.imag) > 0) == (ei == "+fin") and math.isfinite(out.imag)
                        else:
                            oki = cls(out.imag) == ei
                    else:
                        okr = (er == "fin" and math.isfinite(out.real)) or cls(out.real) == er
                        oki = angle_ok(ei, out.imag)
                    if IsFin(c["x"]) and IsFin(c["y"]) and not (math.isfinite(out.real) and math.isfinite(out.imag)) and not (
                            name == "clog" and xv == 0 and yv == 0):
                        # a finite argument whose result is finite: this is an accuracy failure, not an Annex G cell
                        ck.violation({"fn": name, "clause": "finite_result", "input": repr(complex(xv, yv))},
                                     "%s(%r) = %r for a finite argument with a finite exact result" % (name, complex(xv, yv), out), {"case": dict(c)})
                        continue
                    if not (okr and oki):
                        bad = "%s(%r) = %r, Annex G: (%s, %s)" % (name, complex(xv, yv), out, er, ei)
                        break
                if bad:
                    break
            ck.case((kind, c["x"], c["y"]), True)
            if bad:
                ck.violation({"fn": name, "clause": "annex_g", "cell": "%s,%s" % (c["x"], c["y"])}, bad, {"case": dict(c)})
        elif kind == "csqrt_exact":
            zr, zi = c["z"]
            rr, ri = c["root"]
            for conj in (1, -1):
                for j in js_big:
                    z = complex(math.ldexp(float(zr), 2 * j), conj * math.ldexp(float(zi), 2 * j) if zi != 0 else conj * 0.0)
                    exp = complex(math.ldexp(float(rr), j), conj * math.ldexp(float(ri), j) if ri != 0 or True else 0.0)
                    if rr == 0 and ri == 0:
                        exp = complex(0.0, conj * 0.0)
                    if zi == 0 and ri != 0 and conj == -1:
                        exp = complex(0.0, -math.ldexp(float(ri), j))      # sqrt(-b^2 - 0i) = +0 - |b| i
                    got = C.csqrt(z)
                    u = max(ulps(got.real, exp.real), ulps(got.imag, exp.imag))
                    note("csqrt_exact", u)
                    ck.case(("csqrt_exact", zr, zi, conj, j), True)
                    signs_ok = (cls(got.imag)[0] == cls(exp.imag)[0]) or exp.imag != 0 and got.imag == exp.imag
                    if u > 2 or not signs_ok:
                        ck.violation({"fn": "csqrt", "clause": "exact" if u > 2 else "signed_zero", "zero_sign_cell": ("x>=0,-0" if (zi == 0 and conj == -1 and zr >= 0) else "other")},
                                     "csqrt(%r) = %r, exact principal root %r (%.3g ulp)" % (z, got, exp, u), {"case": dict(c), "j": j, "conj": conj})
                        break
                    # real (non-integer) power: z ** 0.5 is the principal root as well
                    if j == 0 and conj == 1 and (zr, zi) != (0, 0):
                        gp = C.cpow(z, 0.5 + 0j)
                        up = max(abs(gp.real - exp.real), abs(gp.imag - exp.imag)) / (max(abs(exp.real), abs(exp.imag)) * ULP)
                        note("cpow_half", up)
                        ck.case(("cpow_half", zr, zi), True)
                        if not up <= 16:
                            ck.violation({"fn": "cpow", "clause": "real_exponent_half"}, "cpow(%r, 0.5) = %r, principal root %r (%.3g ulp)" % (z, gp, exp, up), {"case": dict(c)})
                    # interpreted twin, moderate exponents only (it squares its argument)
                    if abs(j) <= 200 and j % 3 == 0:
                        tw = complex(_sqrt_neg_python(z))
                        u2 = max(ulps(tw.real, exp.real), ulps(abs(tw.imag), abs(exp.imag)))
                        note("sqrt_neg_twin", u2)
                        if u2 > 4:
                            ck.violation({"fn": "sqrt_neg", "clause": "twin"}, "special.sqrt_neg(%r) = %r, csqrt/exact %r (%.3g ulp)" % (z, tw, exp, u2),
                                         {"case": dict(c), "j": j})
                            break
        elif kind == "hypot_exact":
            x, y, h = c["x"], c["y"], c["h"]
            for j in list(range(-1070, 1015, 11 if tier == "thorough" else 97)) + [0]:
                for sx, sy, sw in ((1, 1, 0), (-1, 1, 0), (1, -1, 1), (-1, -1, 1)):
                    a, b = sx * math.ldexp(float(x), j), sy * math.ldexp(float(y), j)
                    if sw:
                        a, b = b, a
                    exp = math.ldexp(float(h), j)
                    if math.isinf(exp):
                        continue
                    got = C.hypot(a, b)
                    u = ulps(got, exp)
                    note("hypot_exact", u)
                    ck.case(("hypot", x, y, j, sx, sy, sw), True)
                    if u > 1:
                        ck.violation({"fn": "hypot", "clause": "exact"}, "hypot(%r, %r) = %r, exact %r (%.3g ulp)" % (a, b, got, exp, u), {"case": dict(c), "j": j})
        elif kind == "cipow_exact":
            a, b = c["base"]
            k = c["k"]
            er, ei = c["out"]
            got = C.cipow(complex(a, b), k)
            mag = max(abs(er), abs(ei), 1)
            u = max(abs(got.real - er), abs(got.imag - ei)) / (mag * ULP)
            note("cipow_exact", u)
            ck.case(("cipow", a, b, k), k > 1)
            if u > 2:
                ck.violation({"fn": "cipow", "clause": "exact"}, "cipow(%r, %d) = %r, exact %d%+dj (%.3g ulp of |result|)" % (complex(a, b), k, got, er, ei, u), {"case": dict(c)})
            if (a, b) != (0, 0):
                g2 = C.cpow(complex(a, b), complex(k, 0))
                u2 = max(abs(g2.real - er), abs(g2.imag - ei)) / (mag * ULP)
                note("cpow_integer_exponent", u2)
                if u2 > 64:
                    ck.violation({"fn": "cpow", "clause": "exact"}, "cpow(%r, %d) = %r, exact %d%+dj (%.3g ulp of |result|)" % (complex(a, b), k, g2, er, ei, u2), {"case": dict(c)})
        elif kind == "cipow_neg":
            from fractions import Fraction
            a, b = c["base"]
            k = c["k"]
            ir, ii = c["inv"]
            den = ir * ir + ii * ii
            er, ei = float(Fraction(ir, den)), float(Fraction(-ii, den))          # 1/(ir + i ii), correctly rounded
            mag = max(abs(er), abs(ei))
            for name, got, lim in (("cipow", C.cipow(complex(a, b), k), 4), ("cpow", C.cpow(complex(a, b), complex(k, 0)), 64),
                                   ("cpow", C.cpow(complex(a, b), complex(float(k), -0.0)), 64)):
                u = max(abs(got.real - er), abs(got.imag - ei)) / (mag * ULP)
                note(name + "_negative_exponent", u)
                ck.case((name, "neg", a, b, k), True)
                if not u <= lim:
                    ck.violation({"fn": name, "clause": "negative_integer_exponent"}, "%s(%r, %d) = %r, exact 1/(%d%+dj) = %.17g%+.17gj (%.3g ulp of |result|)" % (name, complex(a, b), k, got, ir, ii, er, ei, u), {"case": dict(c)})
            # the same reciprocal after an exact scaling of the base by 2^s: (2^s z)^k = 2^(s k) z^k exactly, so the expected value is
            # ldexp of the one above.  s is chosen so that z^|k| (the intermediate the code inverts) has a modulus whose SQUARE
            # overflows or underflows although the result itself is an ordinary normal double: the exact value is representable.
            for tgt in (-1000, -700, -530, 530, 700, 1000):
                sgn = 1 if tgt > 0 else -1
                s = sgn * (abs(tgt) // abs(k))
                if s == 0:
                    continue
                sk = s * k                                                         # exponent of two carried by the result
                xr, xi = math.ldexp(er, sk), math.ldexp(ei, sk)
                zs = complex(math.ldexp(float(a), s), math.ldexp(float(b), s))
                xm = max(abs(xr), abs(xi))
                if not (1e-290 < xm < 1e290):
                    continue
                for name, got, lim in (("cipow", C.cipow(zs, k), 4), ("cpow", C.cpow(zs, complex(k, 0)), 64)):
                    u = max(abs(got.real - xr), abs(got.imag - xi)) / (xm * ULP)
                    note(name + "_negative_exponent_scaled", u)
                    ck.case((name, "neg_scaled", a, b, k, s), True)
                    if not u <= lim:
                        ck.violation({"fn": name, "clause": "negative_integer_exponent_scaled"},
                                     "%s(%r, %d) = %r, exact 2^%d/(%d%+dj) = %.17g%+.17gj (%.3g ulp of |result|): the reciprocal of a power whose squared modulus "
                                     "leaves the double range is lost although the result is representable" % (name, zs, k, got, sk, ir, ii, xr, xi, u), {"case": dict(c), "s": s})
        elif kind == "unitpow_exact":
            a, b = c["base"]
            k = c["k"]
            er, ei = c["out"]
            got = C.cipow(complex(a, b), k)
            ck.case(("unitpow", a, b, k), True)
            if got.real != er or got.imag != ei:
                ck.violation({"fn": "cipow", "clause": "unit_power", "case": "(%d%+dj)^%d" % (a, b, k)}, "cipow(%r, %d) = %r, exact %d%+dj" % (complex(a, b), k, got, er, ei), {"case": dict(c)})
        elif kind == "double_factorial":
            n = c["n"]
            exact = 1
            for q, e in c["vec"].items():
                exact *= int(q) ** e
            exp = float(exact)
            got = double_factorial(n)
            u = ulps(got, exp)
            note("double_factorial", u)
            ck.case(("dfact", n), n > 1)
            if u > 0:
                ck.violation({"fn": "double_factorial", "clause": "exact", "n_ulps": "%d:%d" % (n, min(int(round(u)), 99) if u >= 1 else 0)},
                             "double_factorial(%d) = %r, exact integer %d -> correctly rounded %r (%.3g ulp)" % (n, got, exact, exp, u), {"n": n})
    # elementary exact points of cexp / clog / cpow
    pts = [("cexp", C.cexp, 0j, 1 + 0j), ("clog", C.clog, 1 + 0j, 0j), ("clog", C.clog, -1 + 0j, complex(0, math.pi)),
           ("clog", C.clog, complex(0, 1), complex(0, math.pi / 2)), ("cexp", C.cexp, complex(0, math.pi), complex(-1, math.sin(math.pi))),
           ("cexp", C.cexp, 1 + 0j, complex(math.e, 0)), ("clog", C.clog, complex(math.e, 0), 1 + 0j)]
    for name, f, z, exp in pts:
        got = f(z)
        u = max(abs(got.real - exp.real), abs(got.imag - exp.imag)) / (max(abs(exp), 1e-300) * ULP)
        ck.case((name, str(z)), True)
        if u > 2:
            ck.violation({"fn": name, "clause": "exact_point"}, "%s(%r) = %r, expected %r (%.3g ulp)" % (name, z, got, exp, u), {})
    cexp_lattice(ck, C, note)
    clog_unit_circle(ck, C, rows, note)
    symmetry_lattice(ck, C, rng)
    ck.cov["traces_validated_against_impl"] = len(rows)
    ck.notes["worst_ulp_by_kind"] = {k: (round(v, 2) if v < 1e290 else "non-finite") for k, v in worst.items()}
    for c in [rows[0], next(x for x in rows if x["kind"] == "csqrt_exact"), next(x for x in rows if x["kind"] == "double_factorial" and x["n"] == 9)]:
        ck.sample({k: (v if not isinstance(v, dict) else {str(a): b for a, b in v.items() if b}) for k, v in c.items()})
    if ulps(1.0000000000000004, 1.0) <= 1:
        raise MachineryError("negative control failed")
    ck.notes["negative_control"] = "a 2-ulp perturbation is reported by the ulp metric"
    ck.cov["rule"] = "one case = one exported spec case x one exact power-of-two scaling / sign variant evaluated on the compiled helper"
    ck.assumptions += ["math.ldexp scaling by powers of two is exact (also into the subnormal range for the integer multiples used)",
                       "Annex G cells are checked on 1-4 representative values per class including subnormal and near-overflow magnitudes"]
    return ck.finish()


def _dec_sincos(y, D, ctx):
    """sin, cos of a float in 60-digit decimal arithmetic (Taylor series; |y| <= 40)"""
    yy = D(y)
    # reduce by a 70-digit pi
    PI = D("3.14159265358979323846264338327950288419716939937510582097494459230781640628620899")
    k = int((yy / (2 * PI)).to_integral_value())
    r = yy - 2 * PI * k
    s, c, term_s, term_c = D(0), D(0), r, D(1)
    n = 0
    while n < 200:
        c += term_c
        s += term_s
        term_c = -term_c * r * r / ((2 * n + 1) * (2 * n + 2))
        term_s = -term_s * r * r / ((2 * n + 2) * (2 * n + 3))
        n += 1
        if abs(term_c) < D(10) ** -70 and abs(term_s) < D(10) ** -70:
            break
    return s, c


def symmetry_lattice(ck, C, rng):
    """principal values commute with complex conjugation off the branch cuts: f(conj z) = conj f(z) bit for bit, over 600 orders of
    magnitude; plus the exact algebraic points z^0 = 1, z^1 = z, 0^k = 0 (k > 0)"""
    n = 0
    for t in range(400):
        ex, ey = rng.randint(-300, 300), rng.randint(-300, 300)
        z = complex(rng.choice([-1, 1]) * rng.uniform(1, 2) * 2.0 ** ex, rng.choice([-1, 1]) * rng.uniform(1, 2) * 2.0 ** ey)
        for name, f in (("csqrt", C.csqrt), ("clog", C.clog), ("cexp", lambda w: C.cexp(complex(math.copysign(min(abs(w.real), 700.0), w.real), w.imag))),
                        ("cpow_real_exponent", lambda w: C.cpow(w, complex(0.37, 0.0))), ("cipow_3", lambda w: C.cipow(w, 3) if abs(w) < 1e100 else 0j)):
            a, b = f(z), f(z.conjugate())
            n += 1
            ck.case(("conj", name, t), True)
            same = (a.real == b.real or (a.real != a.real and b.real != b.real)) and (a.imag == -b.imag or (a.imag != a.imag and b.imag != b.imag))
            if not same:
                ck.violation({"fn": name.split("_")[0], "clause": "conjugate_symmetry"}, "%s(conj z) = %r but conj %s(z) = %r at z = %r" % (name, b, name, a.conjugate(), z), {"z": [z.real, z.imag]})
    for z in (complex(2.5, -1.5), complex(-3.0, 0.25), complex(1e-200, 1e-200), complex(-1e150, 3e149)):
        for name, got, want in (("cpow(z,0)", C.cpow(z, 0j), 1 + 0j), ("cipow(z,0)", C.cipow(z, 0), 1 + 0j), ("cipow(z,1)", C.cipow(z, 1), z), ("cpow(z,1)", C.cpow(z, 1 + 0j), z)):
            n += 1
            ck.case(("algebra", name, str(z)), True)
            tol = 0.0 if name.startswith("cipow") or name == "cpow(z,0)" else 4 * ULP * abs(z)
            if not abs(got - want) <= tol:
                ck.violation({"fn": name.split("(")[0], "clause": "algebraic_identity"}, "%s = %r at z = %r, expected %r" % (name, got, z, want), {"z": [z.real, z.imag]})
    for k in (1, 2, 7, 200):
        got = C.cipow(0j, k)
        ck.case(("algebra", "cipow(0,k)", k), True)
        if got != 0j:
            ck.violation({"fn": "cipow", "clause": "algebraic_identity"}, "cipow(0, %d) = %r" % (k, got), {})
    ck.notes["symmetry_lattice_points"] = n


def clog_unit_circle(ck, C, rows, note):
    """Re clog(z) = log|z| loses everything to cancellation near |z| = 1 unless log1p of the exactly formed x^2 + y^2 - 1 is used.
    Directions come from the exported Pythagorean triples (x/h, y/h as doubles), radii 1 +- d for d from 1e-2 down to 2^-50; the
    reference is log1p of the EXACT rational x^2 + y^2 - 1 of the doubles (correctly rounded to a double first), halved."""
    from fractions import Fraction
    triples = [(c["x"], c["y"], c["h"]) for c in rows if c["kind"] == "hypot_exact" and c["h"] != 0][:12]
    # directions on and next to the axes (the smaller component contributes little to the modulus): integer "triples" with h = 1
    triples += [(1, 0, 1), (0, 1, 1), (1, 2.0 ** -20, 1), (2.0 ** -27, 1, 1), (1, 2.0 ** -12, 1)]
    ds = [1e-2, 1e-3, 1e-5, 1e-8, 2.0 ** -35, 2.0 ** -44, 2.0 ** -50]
    for (x, y, h) in triples:
        for sx, sy in ((1, 1), (-1, 1), (1, -1), (-1, -1)):
            for d in ds:
                for sg in (1.0, -1.0):
                    zr, zi = sx * (x / h) * (1.0 + sg * d), sy * (y / h) * (1.0 + sg * d)
                    t = Fraction(zr) ** 2 + Fraction(zi) ** 2 - 1
                    if t == 0:
                        continue
                    ref = 0.5 * math.log1p(float(t))
                    got = C.clog(complex(zr, zi))
                    u = abs(got.real - ref) / (abs(ref) * ULP) if ref != 0 else abs(got.real) / 5e-324
                    note("clog_near_unit_modulus", u)
                    ck.case(("clog_unit", x, y, sx, sy, d, sg), True)
                    region = "near_axis" if min(abs(zr), abs(zi)) <= 2.0 ** -10 * max(abs(zr), abs(zi)) else "off_axis"
                    note("clog_near_unit_modulus_" + region, u)
                    if not u <= 8:
                        ck.violation({"fn": "clog", "clause": "near_unit_modulus", "region": region},
                                     "clog(%r).real = %r, log1p of the exact x^2 + y^2 - 1 (= %.6g) halved = %r (%.3g ulp): cancellation near |z| = 1" % (
                                         complex(zr, zi), got.real, float(t), ref, u), {"z": [zr, zi]})
                    ea = math.atan2(zi, zr)
                    if abs(got.imag - ea) > 4 * ULP * abs(ea):
                        ck.violation({"fn": "clog", "clause": "argument"}, "clog(%r).imag = %r, atan2 = %r" % (complex(zr, zi), got.imag, ea), {"z": [zr, zi]})


def cexp_lattice(ck, C, note):
    """(P) cexp across the exponent range against a 60-digit decimal evaluation of e^x (cos y + i sin y): every component whose exact
    value is a finite normal double must be returned to within 4 ulp; covers the overflow-rescaling branch (709.78 < x < 1455)
    where only |cos y|, |sin y| << 1 keep the result finite, and results in the subnormal/underflow direction."""
    import decimal
    D = decimal.Decimal
    ctx = decimal.getcontext()
    ctx.prec = 80
    DBL_MAX = D(1.7976931348623157e308)
    DBL_MIN = D(2.2250738585072014e-308)
    xs = [-740.0, -700.5, -300.25, -1.0, 0.5, 100.0, 700.0, 709.0, 709.7, 709.9, 710.2, 710.4, 710.5, 712.0, 800.0, 1000.0, 1400.0, 1454.0]
    ys = [0.0, 1e-250, -1e-250, 1e-10, 0.05, -0.7853981633974483, 1.5, 1.5707963267948966, -1.5707963267948966, 3.0, 3.141592653589793, -4.0, 25.0]
    n = 0
    for x in xs:
        ex = D(x).exp()
        for y in ys:
            s, c = _dec_sincos(y, D, ctx)
            want = (ex * c, ex * s)
            got = C.cexp(complex(x, y))
            for part, w, g in (("real", want[0], got.real), ("imag", want[1], got.imag)):
                if w == 0 or abs(w) > DBL_MAX or abs(w) < DBL_MIN:
                    continue                     # not a finite normal double: outside the claim (overflow / underflow conventions)
                wf = float(w)
                u = abs(D(g) - w) / (D(abs(wf)) * D(ULP)) if math.isfinite(g) else D("1e300")
                u = float(u)
                n += 1
                note("cexp_lattice", min(u, 1e290))
                ck.case(("cexp", x, y, part), True)
                if not u <= 4:
                    ck.violation({"fn": "cexp", "clause": "value", "region": "unscaled_over_709.78" if 709.78 < x < 710.4759 else ("scaled" if x >= 710.4759 else "normal"), "part": part},
                                 "cexp(%r).%s = %r, e^x %s(y) = %.17g (%.3g ulp)" % (complex(x, y), part, g, "cos" if part == "real" else "sin", wf, u), {"x": x, "y": y})
    ck.notes["cexp_lattice_components"] = n


def replay(path):
    print(open(path).read()[:2000])
    return 1
