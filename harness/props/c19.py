"""C19 - thermal building blocks are additive, monotone and sign-correct.

Spec: specs/Thermal.tla. TLC checks on exact lattices: radiogenic heating (whole numbers of half-lives: rational values)
is additive over isotopes, linear in mass, halves per half-life, equals the reference value at the reference time and
decays; parameterised convection with beta = 1/3 on perfect-cube Rayleigh ratios (rational Nusselt numbers) is never below
conduction, monotone in Ra and zero without contrast, through the thin-layer and Nu-floor guards; the region a melt
fraction falls in for the Henning law and the exact value demanded there. Every case is exported.
Binding (X): the real models on every exported case (scalar and array). (P) the transcendental interiors: monotonicity
of cooling in contrast / viscosity, of the viscosity laws in temperature and of the Henning viscosity in melt fraction
on random chains; floors of every partial-melt law."""
import json
import math
import random
from fractions import Fraction

import numpy as np

from .. import core
from ..core import pyf, Check, MachineryError, run_tlc


def fr(p):
    return Fraction(p[0], p[1])


def run(tier, seed):
    ck = Check("C19", "model_checking", tier, seed)
    rng = random.Random(seed)
    r = run_tlc("Thermal", "Thermal.cfg", workers=4, timeout=600)
    ck.add_tlc(r, "Thermal lattices: radiogenics, convection regions, melt regions")
    rows = [x[1] for x in core.printed_values(r.stdout, "ROW")]
    if len(rows) != r.distinct or len(rows) < 200:
        raise MachineryError("exported %d rows for %d states" % (len(rows), r.distinct))
    import TidalPy  # noqa
    from TidalPy.radiogenics import radiogenic_models as RM
    from TidalPy.cooling import cooling_models as CM
    from TidalPy.rheology.viscosity import viscosity_models as VM
    from TidalPy.rheology.partial_melt import melting_models as MM
    worst = {}

    def rel(a, b):
        return 0.0 if a == b else abs(a - b) / max(abs(a), abs(b))

    melt_chain = {}
    for c in rows:
        if c["kind"] == "radio":
            isos = c["isos"]
            f = tuple(float(fr(i["f"])) for i in isos)
            cc = tuple(float(fr(i["c"])) for i in isos)
            hl = tuple(float(i["hl"]) for i in isos)
            q = tuple(float(fr(i["q"])) for i in isos)
            ref = 4600.0
            t = ref + c["dt"]
            exp = float(fr(c["out"]))
            ck.case(("radio", len(isos), c["dt"], c["m"], tuple(hl), f, cc), True)
            for tag, got in (("jit", RM.isotope(t, float(c["m"]), f, cc, hl, q, ref)), ("py", pyf(RM.isotope)(t, float(c["m"]), f, cc, hl, q, ref)),
                             ("array", RM.isotope(np.array([t, t]), float(c["m"]), f, cc, hl, q, ref)[1])):
                e = rel(float(got), exp)
                worst["radio"] = max(worst.get("radio", 0), e)
                if e > 1e-12:
                    ck.violation({"fn": "isotope", "clause": "radiogenic_value"}, "isotope[%s](t=ref%+d, m=%d, %d isotopes) = %r, exact %r" % (tag, c["dt"], c["m"], len(isos), float(got), exp), {"case": str(c)})
            if len(isos) == 1:
                got = RM.fixed(t, float(c["m"]), f[0] * cc[0] * q[0], hl[0], ref)
                if rel(float(got), exp) > 1e-12:
                    ck.violation({"fn": "fixed", "clause": "radiogenic_value"}, "fixed(t=ref%+d) = %r, exact %r" % (c["dt"], float(got), exp), {"case": str(c)})
            if float(RM.off(t, 3.0)) != 0.0:
                ck.violation({"fn": "off", "clause": "radiogenic_value"}, "off() is not zero", {})
        elif c["kind"] == "cool":
            alpha = float(fr(c["alpha"]))
            cube, thick, dTpos = c["cube"], float(c["thick"]), c["dTpos"]
            dT = 2.0 if dTpos else 0.0
            k, kappa, eta = 3.0, 1.0e-6, 1.0e19
            ra = 1.0 * 1.0 * 1.0 * 2.0 * thick ** 2 / eta / (kappa / thick)
            ra_c = ra / cube ** 3 if cube > 0 else 1.0e300
            exp = float(fr(c["factor"]))
            ck.case(("cool", str(c["alpha"]), cube, c["thick"], dTpos), True)
            for tag, fn in (("jit", CM.convection), ("py", pyf(CM.convection))):
                for arr in (False, True):
                    d = np.array([dT, dT]) if arr else dT
                    e_ = np.array([eta, eta]) if arr else eta
                    flux, bl, ray, nu = fn(d, e_, k, kappa, 1.0, thick, 1.0, 1.0, alpha, 1.0 / 3.0, ra_c)
                    flux = float(np.asarray(flux).ravel()[-1])
                    got = flux * thick / (k * dT) if dTpos else flux
                    e = rel(got, exp) if exp != 0 else abs(got)
                    worst["cool"] = max(worst.get("cool", 0), e)
                    if e > 1e-12:
                        ck.violation({"fn": "convection", "clause": "cooling_value", "region": "thin" if thick <= 50 else "thick"},
                                     "convection[%s%s](dT=%g, thickness=%g, alpha=%g, (Ra/Rac)^(1/3)=%d): flux*d/(k dT) = %r, spec %r" % (
                                         tag, "/array" if arr else "", dT, thick, alpha, cube, got, exp), {"case": str(c)})
                    cf = float(np.asarray(CM.conduction(d, k, thick)[0]).ravel()[-1])
                    if dTpos and flux < cf * (1 - 1e-12):
                        ck.violation({"fn": "convection", "clause": "convection_ge_conduction"}, "convective flux %r < conductive flux %r (thickness %g)" % (flux, cf, thick), {"case": str(c)})
                    if dTpos and rel(cf, k * dT / thick) > 1e-14:
                        ck.violation({"fn": "conduction", "clause": "cooling_value"}, "conduction flux %r != k dT / d = %r" % (cf, k * dT / thick), {})
        else:
            phi, crit, width = c["phi"] / 100.0, c["crit"] / 100.0, c["width"] / 100.0
            T, pv, lv, ps, sol, liq, ls = 1700.0, 1.0e20, 0.2, 6.0e10, 1600.0, 2000.0, 1.0e-5
            ck.case(("melt", c["phi"], c["crit"], c["width"]), True)
            for tag, fn in (("jit", MM.henning), ("py", pyf(MM.henning))):
                for arr in (False, True):
                    ph = np.array([phi, phi]) if arr else phi
                    v, s = fn(ph, T, pv, lv, ps, sol, liq, ls, crit, width)
                    v, s = float(np.asarray(v).ravel()[-1]), float(np.asarray(s).ravel()[-1])
                    reg = c["region"]
                    det = {"melt_fraction": phi, "crit": crit, "width": width, "region": reg, "impl": tag + ("/array" if arr else "")}
                    if reg == "premelt" and (v != pv or s != ps):
                        ck.violation({"fn": "henning", "clause": "premelt_at_zero_melt"}, "henning at zero melt: (%r, %r), pre-melt values (%r, %r)" % (v, s, pv, ps), det)
                    if reg == "liquid" and (v != lv or s != ls):
                        ck.violation({"fn": "henning", "clause": "liquid_beyond_window", "what": "viscosity" if v != lv else "shear"},
                                     "henning beyond the critical window (phi=%g): viscosity %r (liquid %r), shear modulus %r (liquid %r)" % (phi, v, lv, s, ls), det)
                    if v < lv or s < ls:
                        ck.violation({"fn": "henning", "clause": "floor"}, "henning below the liquid values: (%r, %r)" % (v, s), det)
                    if tag == "jit" and not arr:
                        melt_chain.setdefault((c["crit"], c["width"]), []).append((phi, v, s))
    for key, ch in melt_chain.items():
        ch.sort()
        for (p0, v0, s0), (p1, v1, s1) in zip(ch, ch[1:]):
            if v1 > v0 * (1 + 1e-12):
                ck.violation({"fn": "henning", "clause": "viscosity_monotone_in_melt"}, "henning viscosity rises from %r at phi=%g to %r at phi=%g" % (v0, p0, v1, p1), {"crit,width": key})
    # ---- transcendental interiors on random chains (predicates)
    n = 200 if tier == "quick" else 3000
    for t in range(n):
        k, kappa, alpha_e = rng.uniform(1, 6), 10 ** rng.uniform(-7, -5), 10 ** rng.uniform(-5.5, -4)
        thick = 10 ** rng.uniform(0.5, 6)
        g, rho = rng.uniform(0.5, 25), rng.uniform(900, 8000)
        ca, cb, rac = rng.uniform(0.5, 2.0), rng.choice([0.25, 1 / 3, 0.3]), rng.uniform(500, 2000)
        dts = np.sort(10 ** np.array([rng.uniform(-3, 4) for _ in range(8)]))
        eta = 10 ** rng.choice([rng.uniform(12, 24), rng.uniform(-4, 3)])       # solid-state creep and liquid-like viscosities
        dts_keep = dts.copy()
        flux = np.asarray(CM.convection(dts, eta, k, kappa, alpha_e, thick, g, rho, ca, cb, rac)[0])
        cond = np.asarray(CM.conduction(dts, k, thick)[0])
        ck.case(("chain-dT", t), True)
        det = {"thickness": thick, "viscosity": eta, "dT": dts_keep.tolist(), "alpha,beta,Rac": [ca, cb, rac]}
        # the caller's temperature-contrast array is an input: untouched, not returned, and a second call gives the same fluxes
        for fname, res in (("convection", flux), ("conduction", cond)):
            if res is dts or np.shares_memory(res, dts):
                ck.violation({"fn": fname, "clause": "inputs_unmodified", "what": "aliased"}, "%s returns (a view of) the caller's delta_temp array as its flux" % fname, det)
        if not np.array_equal(dts, dts_keep):
            ck.violation({"fn": "cooling", "clause": "inputs_unmodified", "what": "overwritten"}, "convection / conduction changed the caller's delta_temp array: %s -> %s" % (dts_keep.tolist()[:3], dts.tolist()[:3]), det)
            dts = dts_keep.copy()
        cond_again = np.array(CM.conduction(dts, k, thick)[0], dtype=float, copy=True)
        flux_again = np.array(CM.convection(dts, eta, k, kappa, alpha_e, thick, g, rho, ca, cb, rac)[0], dtype=float, copy=True)
        if not (np.allclose(cond_again, k * dts_keep / thick, rtol=1e-12, atol=0) and np.allclose(flux_again, np.asarray(flux, dtype=float), rtol=1e-12, atol=0)):
            ck.violation({"fn": "cooling", "clause": "repeat_call"}, "a second conduction / convection call on the same delta_temp array differs: conduction %s, k dT / d %s" % (
                cond_again.tolist()[:3], (k * dts_keep / thick).tolist()[:3]), det)
            dts = dts_keep.copy()
        cs = float(np.asarray(CM.conduction(float(dts_keep[4]), k, thick)[0]))
        if abs(cs - float(np.asarray(cond).ravel()[4])) > 1e-12 * abs(cs) or abs(cs - k * float(dts_keep[4]) / thick) > 1e-12 * abs(cs):
            ck.violation({"fn": "conduction", "clause": "scalar_array"}, "conduction scalar call %r, array element %r, k dT / d %r" % (cs, float(np.asarray(cond).ravel()[4]), k * float(dts_keep[4]) / thick), det)
        if np.any(flux <= 0) or np.any(np.diff(flux) < -1e-12 * flux[1:]):
            ck.violation({"fn": "convection", "clause": "monotone_in_contrast"}, "convective flux not positive / non-decreasing in dT: %s" % flux.tolist(), det)
        if np.any(flux < cond * (1 - 1e-12)):
            ck.violation({"fn": "convection", "clause": "convection_ge_conduction"}, "convection < conduction: %s vs %s" % (flux.tolist(), cond.tolist()), det)
        if np.any(np.diff(cond) < 0) or np.any(cond <= 0):
            ck.violation({"fn": "conduction", "clause": "monotone_in_contrast"}, "conductive flux not monotone", det)
        etas = np.sort(10 ** np.array([rng.uniform(-4, 26) for _ in range(8)]))
        fl2 = np.asarray(CM.convection(float(dts[4]), etas, k, kappa, alpha_e, thick, g, rho, ca, cb, rac)[0])
        if np.any(np.diff(fl2) > 1e-12 * fl2[:-1]):
            ck.violation({"fn": "convection", "clause": "monotone_in_viscosity"}, "convective flux increases with viscosity: %s" % fl2.tolist(), det)
        fs = float(CM.convection(float(dts[4]), float(etas[3]), k, kappa, alpha_e, thick, g, rho, ca, cb, rac)[0])
        if abs(fs - float(fl2[3])) > 1e-12 * abs(fs):
            ck.violation({"fn": "convection", "clause": "scalar_array"}, "scalar call %r != array element %r" % (fs, float(fl2[3])), det)
        # viscosity laws non-increasing in temperature
        Ts = np.sort(np.array([rng.uniform(150, 2500) for _ in range(8)]))
        P = rng.choice([0.0, 1e9, 5e10])
        E, V = rng.uniform(5e4, 6e5), rng.uniform(0, 1e-5)
        Ts_keep = Ts.copy()
        va = np.asarray(VM.arrhenius(Ts, P, 10 ** rng.uniform(-15, -5), False, 1.0, 1.0, 1.0, 1.0, E, V))
        vr = np.asarray(VM.reference(Ts, P, 10 ** rng.uniform(15, 24), rng.uniform(200, 1800), E, V))
        ck.case(("chain-T", t), True)
        if not np.array_equal(Ts, Ts_keep) or any(np.shares_memory(v, Ts) for v in (va, vr)):
            ck.violation({"fn": "viscosity", "clause": "inputs_unmodified"}, "a viscosity law changed / returned the caller's temperature array", {"T": Ts_keep.tolist()})
            Ts = Ts_keep.copy()
        for nm, v in (("arrhenius", va), ("reference", vr)):
            if np.any(np.diff(v) > 1e-12 * v[:-1]) or np.any(v <= 0) or not np.all(np.isfinite(v)):
                ck.violation({"fn": nm, "clause": "viscosity_monotone_in_temperature"}, "%s viscosity not non-increasing in T: %s at T=%s" % (nm, v.tolist(), Ts.tolist()),
                             {"E": E, "V": V, "P": P})
        # the same laws on a cold ladder that walks through the overflow guards of their exponentials (exponent 560 .. 730, the
        # guards sit at ln(DBL_MAX) ~ 709.8): the viscosity may saturate (even at inf), it must not come back down when it gets colder
        R_gas = 8.31446261815324
        xs = np.linspace(730.0, 560.0, 86)
        eta_ref, T_ref = 10 ** rng.uniform(15, 24), rng.uniform(200, 1800)
        T_cold_r = np.sort(1.0 / (xs * R_gas / (E + P * V) + 1.0 / T_ref))
        T_cold_a = np.sort((E + P * V) / (R_gas * xs))
        with np.errstate(all="ignore"):
            cold = (("arrhenius", T_cold_a, np.asarray(VM.arrhenius(T_cold_a.copy(), P, 1.0e-9, False, 1.0, 1.0, 1.0, 1.0, E, V), dtype=float)),
                    ("reference", T_cold_r, np.asarray(VM.reference(T_cold_r.copy(), P, eta_ref, T_ref, E, V), dtype=float)))
        ck.case(("chain-T-cold", t), True)
        for nm, Tc, v in cold:
            with np.errstate(all="ignore"):
                rising = np.diff(v) > 1e-12 * v[:-1]
            if np.any(rising) or np.any(np.isnan(v)) or np.any(v <= 0):
                i = int(np.argmax(rising)) if np.any(rising) else 0
                ck.violation({"fn": nm, "clause": "viscosity_monotone_in_temperature", "where": "overflow_guard"},
                             "%s viscosity rises with temperature next to its overflow guard: %r at T=%r -> %r at T=%r" % (nm, float(v[i]), float(Tc[i]), float(v[i + 1]), float(Tc[i + 1])),
                             {"E": E, "V": V, "P": P, "eta_ref": eta_ref, "T_ref": T_ref, "T": Tc.tolist()})
        # partial-melt floors and Henning monotonicity on a dense chain
        phis = np.linspace(0, 1, 41)
        T = rng.uniform(1200, 2200)
        pv, lv, ps, ls = 10 ** rng.uniform(16, 23), 10 ** rng.uniform(-2, 2), 10 ** rng.uniform(9.5, 11), 10 ** rng.uniform(-6, -3)
        crit, width = rng.uniform(0.2, 0.6), rng.uniform(0.02, 0.15)
        hv, hs = MM.henning(phis, T, pv, lv, ps, 1600., 2000., ls, crit, width)
        hv, hs = np.asarray(hv), np.asarray(hs)
        det = {"T": T, "premelt_viscosity": pv, "liquid_viscosity": lv, "premelt_shear": ps, "liquid_shear": ls, "crit": crit, "width": width}
        ck.case(("melt-chain", t), True)
        if np.any(hv < lv) or np.any(hs < ls):
            ck.violation({"fn": "henning", "clause": "floor"}, "henning below liquid values", det)
        if np.any(np.diff(hv) > 1e-12 * hv[:-1]):
            ck.violation({"fn": "henning", "clause": "viscosity_monotone_in_melt"}, "henning viscosity not non-increasing in melt fraction: %s" % hv.tolist()[:12], det)
        beyond = phis > crit + width + 1e-9
        if np.any(hv[beyond] != lv) or np.any(hs[beyond] != ls):
            bad = "viscosity" if np.any(hv[beyond] != lv) else "shear"
            ck.violation({"fn": "henning", "clause": "liquid_beyond_window", "what": bad},
                         "henning beyond the critical window: viscosity %s (liquid %r), shear %s (liquid %r)" % (sorted(set(hv[beyond].tolist()))[:3], lv, sorted(set(hs[beyond].tolist()))[:3], ls), det)
        if hv[0] != pv or hs[0] != ps:
            ck.violation({"fn": "henning", "clause": "premelt_at_zero_melt"}, "henning at zero melt != pre-melt values", det)
        sv, ss = MM.spohn(phis, T, lv, ls)
        if np.any(np.asarray(sv) < lv) or np.any(np.asarray(ss) < ls):
            ck.violation({"fn": "spohn", "clause": "floor"}, "spohn below liquid values", det)
        if not np.array_equal(phis, np.linspace(0, 1, 41)) or any(np.shares_memory(np.asarray(v), phis) for v in (hv, hs, sv, ss)):
            ck.violation({"fn": "melting", "clause": "inputs_unmodified"}, "a partial-melt law changed / returned the caller's melt-fraction array", det)
            phis = np.linspace(0, 1, 41)
        ov, os_ = MM.off(phis, pv, ps)
        if np.any(np.asarray(ov) != pv) or np.any(np.asarray(os_) != ps):
            ck.violation({"fn": "off", "clause": "premelt_at_zero_melt"}, "melting 'off' changes the values", det)
    ck.cov["traces_validated_against_impl"] = len(rows)
    ck.notes["worst_relative_deviation"] = worst
    for c in (rows[0], next(x for x in rows if x["kind"] == "cool" and x["cube"] == 3 and x["thick"] == 400), next(x for x in rows if x["kind"] == "melt")):
        ck.sample({k: str(v) for k, v in c.items()})
    ck.cov["rule"] = "one case = one exported lattice case through the real model, or one random chain (8 contrasts / 8 viscosities / 8 temperatures / 41 melt fractions)"
    ck.assumptions += ["temperature contrasts below 1e-3 K are outside the sampled range (the dT <= eps guard switches the boundary-layer thickness to 1 m)",
                       "monotonicity tolerance 1e-12 relative"]
    return ck.finish()


def replay(path):
    print(open(path).read()[:2000])
    return 1
