"""C14 - tidal potentials are harmonic, self-consistent and agree with each other.

Spec: specs/Harmonic2.tla - the space H2 of degree-2 surface harmonics as polynomials in (cos t, sin t, cos p, sin p) with
SYMBOLIC differentiation on term lists; TLC checks on a 7 x 7 lattice of Pythagorean angles (exact rationals) the degree-2
Laplace identity, symmetry of mixed partials and U_pp = -m^2 U for every basis function, that the basis is independent on the
fit points (5 x 5 rational determinant != 0), and exports value / derivative tables.
Binding (X): every implementation, every mode: the returned potential is fitted in H2 from its values on the lattice (the fit
residual decides membership), and the five returned derivative arrays must equal the derivative tables TLC exported applied to
the fitted coefficients (i.e. they are the true partial derivatives of the returned potential) and satisfy the Laplace
identity. (P): mode names = frequencies, per-mode variants sum to the non-modal counterpart, general variants reduce to the
simpler ones (exactly at zero obliquity; O(obliquity^3) for the medium-obliquity variants; O(e^2) for synchronous rotation),
inputs unmodified, scalar/array forms agree."""
import math
import random
import re
from fractions import Fraction

import numpy as np

from .. import core
from ..core import Check, MachineryError, run_tlc

IMPLS = [  # name, has obliquity, modal, counterpart (non-modal twin)
    ("tidal_potential_nsr", False, False, None),
    ("tidal_potential_nsr_modes", False, True, "tidal_potential_nsr"),
    ("tidal_potential_obliquity_nsr", True, False, None),
    ("tidal_potential_obliquity_nsr_modes", True, True, "tidal_potential_obliquity_nsr"),
    ("tidal_potential_gen_obliquity_nsr", True, False, None),
    ("tidal_potential_gen_obliquity_nsr_modes", True, True, "tidal_potential_gen_obliquity_nsr"),
    ("tidal_potential_gen_obliquity_low_e_nsr_modes", True, True, None),
]
KINDS = ("U", "U_t", "U_p", "U_tt", "U_pp", "U_tp")


def fr(p):
    return Fraction(int(p[0]), int(p[1]))


def call_raw(P, name, obl, th, ph, t, n, o, e, I, M, a, static, R=1.0e6):
    f = getattr(P, name)
    if name == "tidal_potential_simple":
        return f(R, ph, th, t, n, e, M, a)
    if obl:
        return f(R, ph, th, t, n, o, e, I, M, a, static)
    return f(R, ph, th, t, n, o, e, M, a, static)


def call(P, name, obl, th, ph, t, n, o, e, I, M, a, static, R=1.0e6):
    """the lattice is evaluated point by point through the scalar signature (an array call of the jitted functions costs seconds
    in this sandbox whatever the array size); the array signature is compared with it once per implementation"""
    if not isinstance(th, np.ndarray):
        return call_raw(P, name, obl, th, ph, t, n, o, e, I, M, a, static, R)
    outs = [call_raw(P, name, obl, float(x), float(y), t, n, o, e, I, M, a, static, R) for x, y in zip(th, ph)]
    fr0, mo0, _ = outs[0]
    tup = {m: tuple(np.array([float(np.asarray(oo[2][m][k]).ravel()[0]) for oo in outs]) for k in range(6)) for m in outs[0][2]}
    return fr0, mo0, tup


def mode_value(name, n, o):
    """'2o-3n' -> 2 o - 3 n"""
    tot = 0.0
    for sign, k, sym in re.findall(r"([+-]?)(\d*)([on])", name):
        v = (int(k) if k else 1) * (o if sym == "o" else n)
        tot += -v if sign == "-" else v
    return tot


def run(tier, seed):
    ck = Check("C14", "model_checking", tier, seed)
    rng = random.Random(seed)
    r = run_tlc("Harmonic2", "Harmonic2.cfg", workers=4, timeout=600)
    ck.add_tlc(r, "Harmonic2: Laplace identity, mixed partials, order structure, basis independence; table export")
    rows = core.printed_values(r.stdout, "PT")
    det = core.printed_values(r.stdout, "DET")
    if len(rows) != 49 or not det or fr(det[0][1]) == 0:
        raise MachineryError("Harmonic2 exported %d points, det %s" % (len(rows), det))
    pts = []
    tables = {k: [] for k in range(6)}
    for row in rows:
        _, pt, six = row
        c, s, cp, sp = (float(fr(x)) for x in pt)
        pts.append((math.atan2(s, c), math.atan2(sp, cp) % (2 * math.pi), s, c))
        for k in range(6):
            tables[k].append([float(fr(six[nb][k])) for nb in range(5)])
    th = np.array([p[0] for p in pts])
    ph = np.array([p[1] for p in pts])
    sinth = np.array([p[2] for p in pts])
    costh = np.array([p[3] for p in pts])
    B = {k: np.array(tables[k]) for k in range(6)}          # 49 x 5 each
    import logging
    import warnings
    warnings.filterwarnings("ignore")
    import TidalPy  # noqa
    logging.disable(logging.WARNING)
    from TidalPy.tides import potential as P

    n_samples = 6 if tier == "quick" else 40
    worst = {"fit": 0.0, "deriv": 0.0, "laplace": 0.0, "mode_sum": 0.0, "zero_obliquity": 0.0}
    for name, has_obl, modal, twin in IMPLS + [("tidal_potential_simple", False, True, None)]:
        for si in range(n_samples):
            n = 10 ** rng.uniform(-6, -4)
            o = n * rng.choice([1.0, 1.5, 2.0, rng.uniform(0.3, 4.0), -rng.uniform(0.5, 2.0), rng.uniform(5, 40)])
            e = rng.choice([0.0, 0.01, 0.1, rng.uniform(0, 0.4)])
            I = rng.choice([0.0, 0.05, 0.4, rng.uniform(0, math.pi), math.pi / 2]) if has_obl else 0.0
            t = rng.uniform(0, 3) * 2 * math.pi / n
            M = 10 ** rng.uniform(24, 30)
            a = 10 ** rng.uniform(8, 10)
            static = bool(si % 2)
            keep = (th.copy(), ph.copy())
            out = call(P, name, has_obl, th, ph, t, n, o, e, I, M, a, static)
            freqs, modes, tup = out
            det0 = dict(impl=name, n=n, spin=o, e=e, obliquity=I, time=t, host_mass=M, a=a, use_static=static)
            if not (np.array_equal(th, keep[0]) and np.array_equal(ph, keep[1])):
                ck.violation({"clause": "inputs_unmodified", "impl": name}, "%s modified its angle arrays" % name, det0)
            scale_all = max(float(np.max(np.abs(v[0]))) for v in tup.values()) or 1.0
            for mname, six in tup.items():
                six = [np.asarray(x, dtype=float) * np.ones_like(th) for x in six]
                ck.case((name, mname, si), True)
                det1 = dict(det0, mode=mname)
                # mode name = frequency bookkeeping
                if name != "tidal_potential_simple" and modal:
                    want = mode_value(mname, n, o)
                    got = float(np.asarray(modes[mname]).ravel()[0])
                    if abs(got - want) > 1e-12 * max(abs(n), abs(o)) or abs(float(np.asarray(freqs[mname]).ravel()[0]) - abs(want)) > 1e-12 * max(abs(n), abs(o)):
                        ck.violation({"clause": "mode_name", "impl": name, "mode": mname}, "%s mode '%s': mode %r, frequency %r, name says %r" % (name, mname, got, freqs[mname], want), det1)
                U = six[0]
                sc = max(float(np.max(np.abs(U))), 1e-6 * scale_all)
                coef, *_ = np.linalg.lstsq(B[0], U, rcond=None)
                fit = float(np.max(np.abs(B[0] @ coef - U))) / sc
                worst["fit"] = max(worst["fit"], fit)
                if not fit <= 1e-11:
                    ck.violation({"clause": "degree2_harmonic", "impl": name, "mode": mname}, "%s mode %s: potential is not a degree-2 surface harmonic (fit residual %.3g of its magnitude)" % (name, mname, fit), det1)
                    continue
                for k in range(1, 6):
                    pred = B[k] @ coef
                    dsc = max(float(np.max(np.abs(pred))), sc)
                    d = float(np.max(np.abs(pred - six[k]))) / dsc
                    worst["deriv"] = max(worst["deriv"], d)
                    if not d <= 1e-10:
                        j = int(np.argmax(np.abs(pred - six[k])))
                        ck.violation({"clause": "true_derivative", "impl": name, "kind": KINDS[k], "mode": mname},
                                     "%s mode %s: returned %s is not the %s of the returned potential: at colatitude %.6f longitude %.6f returned %.12g, derivative of the fitted harmonic %.12g (rel. %.3g)" % (
                                         name, mname, KINDS[k], KINDS[k], th[j], ph[j], six[k][j], pred[j], d), det1)
                lap = six[3] + (costh / sinth) * six[1] + six[4] / sinth ** 2 + 6.0 * U
                lsc = max(float(np.max(np.abs(six[3]))), float(np.max(np.abs(six[4] / sinth ** 2))), sc)
                lv = float(np.max(np.abs(lap))) / lsc
                worst["laplace"] = max(worst["laplace"], lv)
                if not lv <= 1e-10:
                    ck.violation({"clause": "laplace", "impl": name, "mode": mname}, "%s mode %s: U_tt + cot U_t + U_pp/sin^2 + 6U = %.3g of the terms' size" % (name, mname, lv), det1)
            # the array signature agrees with the scalar one (once per implementation: an array call costs seconds here)
            if si == 0:
                out_a = call_raw(P, name, has_obl, th, ph, t, n, o, e, I, M, a, static)
                if not (np.array_equal(th, keep[0]) and np.array_equal(ph, keep[1])):
                    ck.violation({"clause": "inputs_unmodified", "impl": name}, "%s modified its angle arrays" % name, det0)
                if set(out_a[2]) != set(tup):
                    ck.violation({"clause": "scalar_vs_array", "impl": name, "kind": "mode_set"}, "%s: array call returns modes %s, scalar call %s" % (name, sorted(out_a[2]), sorted(tup)), det0)
                for mname, six in out_a[2].items():
                    for k in range(6):
                        a_v = np.asarray(six[k]) * np.ones_like(th)
                        dmax = float(np.max(np.abs(a_v - tup[mname][k])))
                        ck.case((name, "array_form", mname, k), True)
                        if dmax > 1e-12 * max(float(np.max(np.abs(a_v))), scale_all * 1e-3):
                            ck.violation({"clause": "scalar_vs_array", "impl": name, "mode": mname, "kind": KINDS[k]}, "%s mode %s %s: array and scalar calls differ by %.3g" % (name, mname, KINDS[k], dmax), det0)
            # the orbital arguments as arrays (obliquity and eccentricity of the shape of the angle arrays): the caller's arrays come back
            # untouched, a second identical call gives the same numbers, and both equal the scalar evaluation
            if si == 0 and has_obl:
                I_arr, e_arr = np.full(th.shape, float(I)), np.full(th.shape, float(e))
                try:
                    f_ = getattr(P, name)
                    o1 = f_(1.0e6, ph, th, t, n, o, e_arr, I_arr, M, a, static)
                    changed = [nm for nm, arr, val in (("obliquity", I_arr, I), ("eccentricity", e_arr, e)) if not np.all(arr == float(val))]
                    o2 = f_(1.0e6, ph, th, t, n, o, e_arr, I_arr, M, a, static)
                    ck.case((name, "orbital_arrays"), True)
                    if changed:
                        ck.violation({"clause": "inputs_unmodified", "impl": name, "what": changed[0]}, "%s changed the caller's %s array (%.6g -> %.6g)" % (name, changed[0], float(I if changed[0] == "obliquity" else e), float((I_arr if changed[0] == "obliquity" else e_arr)[0])), det0)
                    for mname, six in o1[2].items():
                        for k in range(6):
                            v1, v2 = np.asarray(six[k]) * np.ones_like(th), np.asarray(o2[2][mname][k]) * np.ones_like(th)
                            lim = 1e-12 * max(float(np.max(np.abs(v1))), scale_all * 1e-3)
                            if float(np.max(np.abs(v1 - v2))) > lim or (not changed and float(np.max(np.abs(v1 - tup[mname][k]))) > lim):
                                ck.violation({"clause": "scalar_vs_array", "impl": name, "mode": mname, "kind": KINDS[k], "what": "orbital_arrays"},
                                             "%s mode %s %s with array obliquity / eccentricity: first call, second call and scalar call differ (%.3g, %.3g)" % (
                                                 name, mname, KINDS[k], float(np.max(np.abs(v1 - v2))), float(np.max(np.abs(v1 - tup[mname][k])))), det0)
                                break
                except Exception as ex:
                    ck.violation({"clause": "scalar_vs_array", "impl": name, "what": "orbital_arrays_raise"}, "%s raised %s(%s) for array obliquity / eccentricity" % (name, type(ex).__name__, str(ex)[:120]), det0)
            # per-mode variant sums to its non-modal counterpart
            if twin:
                out2 = call(P, twin, has_obl, th, ph, t, n, o, e, I, M, a, static)
                for k in range(6):
                    tot = sum(np.asarray(v[k]) * np.ones_like(th) for v in tup.values())
                    tot2 = sum(np.asarray(v[k]) * np.ones_like(th) for v in out2[2].values())
                    sck = max(float(np.max(np.abs(tot2))), sum(float(np.max(np.abs(v[k]))) for v in tup.values()), 1e-300)
                    d = float(np.max(np.abs(tot - tot2))) / sck
                    worst["mode_sum"] = max(worst["mode_sum"], d)
                    ck.case((name, "mode_sum", si, k), True)
                    if not d <= 1e-11:
                        ck.violation({"clause": "mode_sum", "impl": name, "kind": KINDS[k], "use_static": static}, "sum over the modes of %s differs from %s in %s by %.3g (relative)" % (name, twin, KINDS[k], d), det0)
        ck.sample({"impl": name, "samples": n_samples})
        ck.cov["traces_validated_against_impl"] += n_samples * 49

    # ---- limits between variants ----
    def total(name, has_obl, t, n, o, e, I, M, a, static):
        out = call(P, name, has_obl, th, ph, t, n, o, e, I, M, a, static)
        return [sum(np.asarray(v[k]) * np.ones_like(th) for v in out[2].values()) for k in range(6)]

    def order_of(f, lam0=1.0):
        """estimated order p of f(lam) ~ lam^p from lam0 and lam0/2; f returns max |difference| over the lattice, all six quantities"""
        d1, d2 = f(lam0), f(lam0 / 2.0)
        return (math.log2(d1 / d2) if d1 > 0 and d2 > 0 else 99.0), d1, d2

    GM_SCALE = 6.6743e-11 * 1.0e27 * (1.0e6) ** 2 / (1.0e9) ** 3        # G M R^2 / a^3 of the limit samples: a scale that does not depend on e or I

    def maxdiff(A, Bv):
        return max(float(np.max(np.abs(x - y))) for x, y in zip(A, Bv)) / GM_SCALE

    for si in range(n_samples):
        n = 10 ** rng.uniform(-6, -4)
        o = n * rng.uniform(1.2, 4.0)
        e = rng.uniform(0.01, 0.3)
        t = rng.uniform(0, 3) * 2 * math.pi / n
        M, a = 1.0e27, 1.0e9
        static = bool(si % 2)
        det = dict(n=n, spin=o, e=e, time=t, use_static=static)
        base = total("tidal_potential_nsr", False, t, n, o, e, 0.0, M, a, static)
        # (1) exactly at zero obliquity
        for name in ("tidal_potential_obliquity_nsr", "tidal_potential_obliquity_nsr_modes", "tidal_potential_gen_obliquity_nsr", "tidal_potential_gen_obliquity_nsr_modes"):
            if static and name.endswith("_modes"):
                continue            # the static term is replicated into every mode (clause mode_sum / known finding): totals are not comparable
            z = total(name, True, t, n, o, e, 0.0, M, a, static)
            d = maxdiff(z, base)
            worst["zero_obliquity"] = max(worst["zero_obliquity"], d)
            ck.case(("zero_obliquity", name, si), True)
            if not d <= 1e-11:
                ck.violation({"clause": "zero_obliquity_limit", "impl": name, "use_static": static}, "%s at obliquity 0 differs from the no-obliquity variant by %.3g (relative)" % (name, d), dict(det, impl=name))
        # (2) the medium-obliquity variants are the expansion of the general ones through total order 3 in (e, obliquity): with
        #     (e, I) = lam (e0, I0) the difference must vanish at least like lam^3 ("agree to second order"); measured: lam^4
        e0, I0 = rng.uniform(0.04, 0.1), rng.uniform(0.04, 0.1)
        for med, gen in (("tidal_potential_obliquity_nsr", "tidal_potential_gen_obliquity_nsr"), ("tidal_potential_obliquity_nsr_modes", "tidal_potential_gen_obliquity_nsr_modes")):
            if static and med.endswith("_modes"):
                continue
            order, d1, d2 = order_of(lambda lam: maxdiff(total(med, True, t, n, o, lam * e0, lam * I0, M, a, static), total(gen, True, t, n, o, lam * e0, lam * I0, M, a, static)))
            ck.case(("medium_obliquity_order", med, si), True)
            ck.notes.setdefault("medium_obliquity_orders", []).append(round(order, 2))
            if not (order >= 2.6 or d1 <= 1e-12):
                ck.violation({"clause": "medium_obliquity_second_order", "impl": med, "use_static": static},
                             "%s and %s differ at order %.2f (< 3) in (e, obliquity) = lam (%.3f, %.3f): they do not agree to second order (relative difference %.3g at lam = 1, %.3g at 1/2)" % (med, gen, order, e0, I0, d1, d2),
                             dict(det, impl=med, e0=e0, I0=I0))
        # (3) the low-eccentricity general-obliquity variant is the first-order-in-e truncation of the medium-eccentricity one
        if not static:
            I = rng.uniform(0.1, 2.5)
            order, d1, d2 = order_of(lambda lam: maxdiff(total("tidal_potential_gen_obliquity_low_e_nsr_modes", True, t, n, o, lam * 0.02, I, M, a, False),
                                                         total("tidal_potential_gen_obliquity_nsr_modes", True, t, n, o, lam * 0.02, I, M, a, False)))
            ck.case(("low_e_order", si), True)
            ck.notes.setdefault("low_e_orders", []).append(round(order, 2))
            if not (order >= 1.7 or d1 <= 1e-12):
                ck.violation({"clause": "low_e_first_order", "impl": "tidal_potential_gen_obliquity_low_e_nsr_modes"},
                             "low-e and medium-e general-obliquity variants differ at order %.2f (< 2) in e at obliquity %.3f (relative difference %.3g at e = 0.02, %.3g at 0.01)" % (order, I, d1, d2), dict(det, obliquity=I))
        # (4) synchronous rotation: the NSR variant at spin = n reduces to the low-e synchronous potential; difference O(e^2)
        order, d1, d2 = order_of(lambda lam: maxdiff(total("tidal_potential_simple", False, t, n, n, lam * 0.02, 0.0, M, a, False)[:1], total("tidal_potential_nsr", False, t, n, n, lam * 0.02, 0.0, M, a, False)[:1]))
        ck.case(("synchronous_order", si), True)
        ck.notes.setdefault("synchronous_orders", []).append(round(order, 2))
        if not order >= 1.7:
            ck.violation({"clause": "synchronous_second_order"}, "nsr(spin = n) - synchronous_low_e scales as e^%.2f (< 2)" % order, dict(det, diffs=[d1, d2]))
    ck.notes["worst_observed"] = worst
    ck.cov["rule"] = "8 implementations x %d random (n, spin, e, obliquity, time, host, a, static) samples x all modes x 49 exact lattice points x 6 quantities" % n_samples
    ck.assumptions += ["H2 membership and the derivative clauses are decided by fitting 5 coefficients on 49 points whose basis tables TLC derived symbolically and checked against the Laplace identity",
                       "tolerances 1e-11 (fit), 1e-10 (derivatives, Laplace): observed worst values are in evidence",
                       "limit clauses: order of the difference estimated from two step sizes; medium-vs-general obliquity under joint scaling of (e, obliquity) because the medium variants are joint expansions (at fixed e their difference has I e^3 terms by design): >= 2.6 required, 4 observed; low-e vs medium-e and synchronous: >= 1.7 required, 2 observed"]
    return ck.finish()


def replay(path):
    import json
    d = json.load(open(path))
    print(json.dumps(d, indent=1)[:4000])
    return 1
