"""C18 - an interrupted parameter study restarts without redoing or losing cases.

Spec: specs/MPStudy.tla (journal of multiprocessing_run, one action per file operation), checked exhaustively by TLC
(safety + liveness) for the repaired protocol; the three 'as found' variants are negative controls (TLC must find the
counterexample).  Binding: (R) crash scenarios taken from TLC simulation behaviours and from a systematic
kill-point x case x config enumeration are executed on the real multiprocessing_run with real SIGKILLs of the process
group (harness/mp_driver.py); (V) every recorded execution is validated by TLC against MPStudyTrace.tla, which also
evaluates the C18 invariants in every state of the recorded behaviour; the clauses are also decided directly on the
returned values / disk / execution counters so that a violation names its clause."""
import copy
import json
import os
import random
import subprocess
import time

from .. import core, tlaval
from ..core import Check, MachineryError, run_tlc, scratch, PY, VERIF

NCASE = 8
MODEL_KIND = {"grid3": "tuple"}      # the 12-case grid gives its must_include values as a tuple: the model's kind is that of the header parser
WORKER_EVS = ["WLog", "WMkDir", "WExec", "WMarker", "WLogOk", "WResBegin", "WResEnd", "WErr"]
ACT2EV = {"PHeaderEnd": "HeaderEnd", "PParse": "ParseOk", "PScan": "Scan", "PPoolDone": "PoolDone", "PLoad": "Load",
          "PStartFresh": "HeaderBegin"}


def tlc_design(ck, tier):
    """Exhaustive model checking of the protocol + negative controls."""
    r = run_tlc("MC_MPStudy", "MPStudy_fixed.cfg" if tier == "quick" else "MPStudy_fixed_big.cfg", coverage=True,
                timeout=3000)
    ck.add_tlc(r, "MPStudy repaired protocol, exhaustive (safety+liveness)")
    zero = [a for a, (d, t) in r.coverage.items() if t == 0]
    if zero:
        raise MachineryError("vacuity: actions never taken in MPStudy: %s" % zero)
    rt = run_tlc("MC_MPStudy", "MPStudy_transient.cfg", timeout=1200)
    ck.add_tlc(rt, "MPStudy with transient failures (the failing set changes between incarnations): NoRedo, ExactlyOneResult")
    if not rt.ok:
        raise MachineryError("MPStudy_transient: %s violated" % rt.violated)
    controls = {"MPStudy_asis_order.cfg": "C18_RestartCompletes", "MPStudy_asis_closure.cfg": "C18_OwnIdentity",
                "MPStudy_asis_parser.cfg": "C18_RestartCompletes", "MPStudy_asis_header.cfg": "C18_RestartCompletes"}
    neg = {}
    for cfg, inv in controls.items():
        rr = run_tlc("MC_MPStudy", cfg, expect_violation=True, timeout=600)
        if rr.violated != inv:
            raise MachineryError("negative control %s: expected violation of %s, got %s" % (cfg, inv, rr.violated))
        neg[cfg] = {"violated": rr.violated, "trace_len": len(rr.trace), "distinct": rr.distinct}
    ck.notes["negative_controls_model"] = neg


def scenarios_systematic(tier, rng):
    scs = []
    kinds = ["list", "tuple", "empty_tuple"]
    procs = [4, 8, 16]
    failsets = [[], [1], [0, 3], [2, 4, 5, 7], [0, 1, 2, 3, 4, 5, 6, 7], [6]]
    n = 0

    def add(kills, fail, kind, p, incs=None, pool="pathos", extra_inc=0, fail_by_inc=None):
        nonlocal n
        n += 1
        delays = {str(c): rng.choice([0, 0, 1, 3, 8, 15]) for c in range(12 if kind == "grid3" else NCASE)}
        sc = {"id": "s%04d" % n, "fail": fail, "kind": kind, "procs": p, "pool": pool, "kills": kills,
              "incs": incs or (len(kills) + 1 + extra_inc), "delays": delays, "origin": "systematic"}
        if fail_by_inc:
            sc["fail_by_inc"] = fail_by_inc
            sc["incs"] = len(fail_by_inc)
        scs.append(sc)
    # transient failures: a case raises in one incarnation, succeeds in a later one (its error.log stays), then the study is run again
    add([], [2, 5], "list", 4, fail_by_inc=[[2, 5], [5], [], []])
    add([], [0, 3, 7], "tuple", 8, fail_by_inc=[[0, 3, 7], [3], [3], [], []])
    add([{"inc": 2, "ev": "WMarker", "c": 1}], [1, 6], "empty_tuple", 4, fail_by_inc=[[1, 6], [6], [], []])
    if tier == "thorough":
        for k in range(12):
            f1 = sorted(rng.sample(range(NCASE), rng.randint(1, 4)))
            f2 = sorted(rng.sample(f1, rng.randint(0, len(f1) - 1))) if len(f1) > 1 else []
            kills = [{"inc": 2, "ev": rng.choice(["WMarker", "WResEnd", "WErr", "WExec"]), "c": rng.choice(f1)}] if k % 2 else []
            add(kills, f1, kinds[k % 3], procs[k % 3], fail_by_inc=[f1, f2, [], [], []])
    # a three-dimensional grid with 12 cases (case numbers 10 and 11 have a one-digit prefix): failing subsets, then restarts; a kill;
    # a completed study started again; an interruption after the last case (parent killed when the pool is done)
    g3 = [[[1], []], [[1, 2], [2], []], [[0], []], [[3, 7], []], [[11], [], []], [[10, 4], []], [[1, 10, 11], [1], []], [[], [], []]]
    if tier == "thorough":
        g3 += [[sorted(rng.sample(range(12), rng.randint(1, 5))), [], []] for _ in range(10)]
    for j, fbi in enumerate(g3):
        add([], fbi[0], "grid3", procs[j % 3], fail_by_inc=fbi)
    add([{"inc": 1, "ev": "WMarker", "c": 1}], [], "grid3", 4, extra_inc=1)
    add([{"inc": 1, "ev": "WResEnd", "c": 10}], [2], "grid3", 8, extra_inc=1)
    add([{"inc": 1, "ev": "PoolDone", "c": None}], [], "grid3", 4, extra_inc=1)
    add([{"inc": 1, "ev": "PoolDone", "c": None}, {"inc": 2, "ev": "Load", "c": 11}], [], "grid3", 4, extra_inc=1)
    # single kill after every worker step of a few / all cases
    cases = [0, 3, 7] if tier == "quick" else list(range(NCASE))
    i = 0
    for ev in WORKER_EVS:
        for c in cases:
            fail = [c] if ev == "WErr" else ([] if i % 3 else failsets[(i // 3) % len(failsets)])
            if ev in ("WMarker", "WLogOk", "WResBegin", "WResEnd") and c in fail:
                fail = []
            if ev == "WErr" and c not in fail:
                fail = [c]
            add([{"inc": 1, "ev": ev, "c": c}], fail, kinds[i % 3], procs[i % 3], extra_inc=(1 if i % 4 == 0 else 0))
            i += 1
    # parent kill points, first incarnation and during a restart
    for j, pev in enumerate(["HeaderEnd", "PoolDone"]):
        add([{"inc": 1, "ev": pev, "c": None}], failsets[j], kinds[j % 3], 4)
    for j, pev in enumerate(["ParseOk", "Scan", "PoolDone"]):
        add([{"inc": 1, "ev": "WResEnd", "c": 2}, {"inc": 2, "ev": pev, "c": None}], failsets[(j + 1) % 6], kinds[j % 3], 8)
    for j, c in enumerate([0, 3]):
        add([{"inc": 1, "ev": "WLogOk", "c": 4}, {"inc": 2, "ev": "Load", "c": c}], [], kinds[j], 4)
    # no kill at all: only failing cases, every subset of 3 (quick) / 4 (thorough) cases, then a re-run
    m = 3 if tier == "quick" else 4
    for bits in range(1 << m):
        fail = [c for c in range(m) if bits >> c & 1]
        add([], fail, kinds[bits % 3], procs[bits % 3], incs=2)
    if tier == "thorough":
        for k in range(150):
            kills = []
            for inc in range(1, rng.choice([2, 3, 4])):
                ev = rng.choice(WORKER_EVS + ["Scan", "PoolDone", "Load"])
                c = rng.randrange(NCASE) if ev in WORKER_EVS or ev == "Load" else None
                kills.append({"inc": inc, "ev": ev, "c": c})
            fail = [c for c in range(NCASE) if rng.random() < 0.25]
            add(kills, fail, rng.choice(kinds), rng.choice(procs), incs=len(kills) + 2,
                pool="pathos")
    return scs


def scenarios_from_tlc(ck, tier, seed):
    """Spec -> code: crash schedules are read off TLC simulation behaviours of the repaired MPStudy model."""
    num = 40 if tier == "quick" else 400
    wd = scratch("c18sim")
    os.makedirs(os.path.join(wd, "sim"))
    r = run_tlc("MC_MPStudy", "MPStudy_sim.cfg", workdir=wd, workers=1, timeout=600, depth=120,
                simulate="file=%s,num=%d" % (os.path.join(wd, "sim", "b"), num), seed=seed + 1)
    scs = []
    files = sorted(os.listdir(os.path.join(wd, "sim")))
    for fi, f in enumerate(files):
        beh = tlaval.parse_sim_file(os.path.join(wd, "sim", f))
        if not beh:
            continue
        st0 = beh[0][2]
        kills = []
        for i, (act, args, st) in enumerate(beh):
            if act == "Crash":
                pa, pargs, pst = beh[i - 1]
                if pa in ACT2EV:
                    ev = ACT2EV[pa]
                elif pa in WORKER_EVS:
                    ev = pa
                else:
                    continue
                c = int(pargs) if pargs not in (None, "") else None
                kills.append({"inc": pst["inc"], "ev": ev, "c": c})
        if not kills:
            continue
        scs.append({"id": "t%04d" % fi, "fail": sorted(st0["fail"]), "kind": st0["kind"], "procs": 4, "pool": "pathos",
                    "kills": kills, "incs": max(k["inc"] for k in kills) + 1, "delays": {}, "origin": "tlc-simulate",
                    "spec_actions": [a + ("(%s)" % g if g else "") for a, g, _ in beh][:80]})
    ck.notes["tlc_simulated_behaviours"] = len(files)
    ck.notes["tlc_behaviours_with_crash_replayed"] = len(scs)
    return scs


def run_scenarios(scs):
    wd = scratch("c18run")
    nproc = min(core.NCPU, 8, max(1, len(scs) // 4))
    chunks = [scs[i::nproc] for i in range(nproc)]
    procs = []
    for i, ch in enumerate(chunks):
        p = os.path.join(wd, "chunk%d.json" % i)
        json.dump(ch, open(p, "w"))
        env = dict(os.environ, PYTHONPATH=core.pythonpath(), PYTHONHASHSEED="0")
        procs.append(subprocess.Popen([PY, "-m", "harness.mp_driver", p, wd], cwd=VERIF, env=env,
                                      stdin=subprocess.DEVNULL, stdout=subprocess.PIPE, stderr=subprocess.STDOUT, text=True))
    for p in procs:
        try:
            out, _ = p.communicate(timeout=1800)
        except subprocess.TimeoutExpired:
            p.kill()
            raise MachineryError("mp_driver timed out")
        if p.returncode != 0:
            raise MachineryError("mp_driver failed rc=%s: %s" % (p.returncode, out[-1500:]))
    traces = []
    for s in scs:
        tp = os.path.join(wd, s["id"], "trace.json")
        if not os.path.exists(tp):
            err = os.path.join(wd, "driver_error_%s.txt" % s["id"])
            raise MachineryError("no trace for scenario %s: %s" % (s["id"], open(err).read()[-800:] if os.path.exists(err) else "?"))
        t = json.load(open(tp))
        tbs = {}
        for inc in range(1, s["incs"] + 1):
            q = os.path.join(wd, s["id"], "traceback_%d.txt" % inc)
            if os.path.exists(q):
                tbs[inc] = open(q).read()[-600:]
        t["tracebacks"] = tbs
        traces.append(t)
    return traces


def fail_by_inc(t):
    n = max([e["inc"] for e in t["events"]] + [t.get("incs", 1)])
    fbi = t.get("fail_by_inc")
    return [list(fbi[i]) if fbi and i < len(fbi) else list(t["fail"]) for i in range(n)]


def direct_clauses(t):
    """Decide the clauses of C18 on one recorded execution; returns list of (key, description)."""
    out = []
    ev = t["events"]
    fail = set(t["fail"])
    NCASE = t.get("ncase", 8)            # the 4 x 2 grids have 8 cases, the three-dimensional grid 12 (two-digit case numbers)
    base = {"kind": t["kind"], "pool": t.get("pool", "pathos")}
    # the restarted study works on the grid of the original study
    ph = sorted({e["c"] for e in ev if isinstance(e.get("c"), int) and not (0 <= e["c"] < NCASE)})
    phd = sorted({d for e in ev if e["ev"] in ("Crash", "End") for d in e.get("phantom_dirs", [])})
    if ph or phd:
        out.append((dict(base, clause="same_grid"), "the study worked on cases %s / created directories %s that are not in the uninterrupted study's grid" % (ph, phd[:3])))
    # restart completes
    for i, e in enumerate(ev):
        if e["ev"] == "Raised":
            prev = ev[i - 1]
            if prev["ev"] == "Load" and not prev.get("ok", True):
                # which on-disk state made the load fail?
                snap = next((x for x in ev[:i][::-1] if x["ev"] in ("Crash", "End")), None)
                c = prev["c"]
                cause = "marker_without_result" if snap and snap["marker"][c] and snap["res"][c] != "full" else "load_failed"
            elif prev["ev"] == "Start":
                snap = next((x for x in ev[:i][::-1] if x["ev"] in ("Crash", "End")), None)
                cause = "header_parse" if (snap is None or snap["hdr"] == "full") else "header_truncated"
            else:
                cause = "other:" + prev["ev"]
            out.append((dict(base, clause="restart_completes", cause=cause, exc=e.get("exc")),
                        "incarnation %d raised %s(%s) after %s" % (e["inc"], e.get("exc"), e.get("msg", "")[:80], prev["ev"])))
        if e["ev"] in ("StudyCrashed", "Timeout"):
            out.append((dict(base, clause="restart_completes", cause=e["ev"]), "incarnation %d: %s" % (e["inc"], e["ev"])))
    if t["statuses"] and t["statuses"][-1] == "killed":
        pass    # scenario ended with a kill (should not happen: last incarnation has no kill spec)
    # final results
    fins = [e for e in ev if e["ev"] == "Finish"]
    for fin in fins:
        recs = fin["out"]
        for r in recs:
            if r["val"] == "Phantom":
                out.append((dict(base, clause="same_grid"), "incarnation %d reports case %d that is not part of the uninterrupted study's grid" % (fin["inc"], r["case"])))
        for c in range(NCASE):
            mine = [r for r in recs if r["case"] == c]
            if len(mine) != 1:
                out.append((dict(base, clause="exactly_one_result", n=len(mine)),
                            "incarnation %d: case %d has %d results" % (fin["inc"], c, len(mine))))
            for r in mine:
                # a case that completed in an earlier incarnation is loaded (success); otherwise this incarnation ran it
                before = set()
                for e2 in ev:
                    if e2["inc"] >= fin["inc"]:
                        break
                    if e2["ev"] in ("Crash", "End"):
                        before |= {cc for cc in range(NCASE) if e2["marker"][cc] and e2["res"][cc] == "full"}
                exp = "F" if c in before else ("None" if c in set(fail_by_inc(t)[fin["inc"] - 1]) else "F")
                if r["val"] != exp:
                    out.append((dict(base, clause="result_equals_uninterrupted", got=r["val"]),
                                "incarnation %d: case %d result class %s, expected %s" % (fin["inc"], c, r["val"], exp)))
        bad = [r for r in recs if r["cn"] != r["case"]]
        if bad:
            allsame = len({r["cn"] for r in recs if r["type"] == "MultiprocessingOutput"}) == 1
            out.append((dict(base, clause="own_identity", pattern="all_workers_report_last_case" if allsame and all(
                r["cn"] == NCASE - 1 for r in bad) else "other"),
                "incarnation %d: %d of %d records carry a foreign case number, e.g. case %d reported as %d" % (
                    fin["inc"], len(bad), len(recs), bad[0]["case"], bad[0]["cn"])))
    # no redo
    done = set()
    for e in ev:
        if e["ev"] in ("Crash", "End"):
            done |= {c for c in range(NCASE) if e["marker"][c] and e["res"][c] == "full"}
        if e["ev"] == "WExec" and e["c"] in done:
            out.append((dict(base, clause="no_redo"), "case %d was complete (marker+result) and was executed again in incarnation %d" % (e["c"], e["inc"])))
    # counters vs events (the study function's own byte counter)
    last = [e for e in ev if e["ev"] in ("Crash", "End")]
    if last:
        nev = [sum(1 for e in ev if e["ev"] == "WExec" and e["c"] == c) for c in range(NCASE)]
        ncr = sum(1 for e in ev if e["ev"] == "Crash")
        for c in range(NCASE):
            if not (nev[c] <= last[-1]["execs"][c] <= nev[c] + ncr):
                out.append((dict(base, clause="counter_consistency"), "case %d: %d WExec events but counter=%d" % (c, nev[c], last[-1]["execs"][c])))
    return out


def validate_traces(ck, traces, cfg="MPStudyTrace_fixed.cfg", label="repaired"):
    """TLC decides for every recorded execution whether it is a behaviour of MPStudy. Returns {index: verdict}."""
    verdicts = {}
    todo = list(range(len(traces)))
    rounds = 0
    while todo and rounds < 30:
        rounds += 1
        wd = scratch("c18val")
        tf = os.path.join(wd, "traces.json")
        json.dump([{"fail": traces[i]["fail"], "fail_by_inc": fail_by_inc(traces[i]), "kind": MODEL_KIND.get(traces[i]["kind"], traces[i]["kind"]), "events": traces[i]["events"]} for i in todo],
                  open(tf, "w"))
        r = run_tlc("MC_MPStudyTrace", cfg, workdir=wd, workers=1, expect_violation=True, timeout=1800,
                    env={"TRACE_FILE": tf})
        ck.add_tlc(r, "trace validation (%s model), %d traces" % (label, len(todo)))
        best = {}
        for _, tid, l, n in core.printed_values(r.stdout, "AT"):
            best[tid] = max(best.get(tid, 0), l)
        if r.violated:
            # the counterexample carries the tid: record it, drop that trace, validate the rest again
            tid = r.trace[-1][1].get("tid") if r.trace else None
            if tid is None:
                raise MachineryError("TLC reported %s on a trace but no tid could be read" % r.violated)
            idx = todo[tid - 1]
            verdicts[idx] = {"accepted": False, "invariant": r.violated, "at": r.trace[-1][1].get("l")}
            todo.remove(idx)
            continue
        for k, idx in enumerate(todo):
            n = len(traces[idx]["events"]) + 1
            b = best.get(k + 1, 0)
            verdicts[idx] = {"accepted": b == n, "at": b, "len": n}
        todo = []
    return verdicts


# ---------------------------------------------------------------------------------------------------------------------
# extension beyond the listed property: directory life cycle (force_restart sub-directories, post-processing, completion line)
# ---------------------------------------------------------------------------------------------------------------------
def _sd_state(st):
    return [dict(exists=bool(d["exists"]), hdr=d["hdr"], cases=d["cases"], pp=d["pp"], completed=bool(d["completed"])) for d in st["dirs"]]


def _sd_scenarios(behs):
    """TLC behaviours of StudyDirs -> driver scenarios: one entry per incarnation (options, kill point, expected end state)"""
    scs = []
    for bi, beh in enumerate(behs):
        incs, cur = [], None
        for k in range(1, len(beh)):
            prev, st = beh[k - 1][2], beh[k][2]
            if prev["pc"] == "idle" and st["pc"] != "idle":
                cur = {"fr": bool(st["opts"]["fr"]), "ppr": bool(st["opts"]["ppr"]), "start": _sd_state(prev), "trail": []}
            if cur is None:
                continue
            cur["trail"].append(prev["pc"])
            if st["pc"] == "idle" and prev["pc"] != "idle":
                d0 = cur["start"][st["cur"] - 1]
                d1 = _sd_state(st)[st["cur"] - 1]
                if st["crashes"] > prev["crashes"]:
                    at = prev["pc"]
                    fresh = "whdr2" in cur["trail"] or at in ("mkdir", "whdr", "whdr2")
                    if at == "mkdir" or (at == "whdr" and d1["exists"] == d0["exists"]):
                        kill = "SKIP"               # killed before the first write: nothing on disk changes
                    elif at == "whdr":
                        kill = "MkStudyDir"
                    elif at == "whdr2":
                        kill = "HeaderBegin"
                    elif at == "cases":
                        if d1["cases"] == "some" and d0["cases"] == "none":
                            kill = ("WMarker", 2)
                        else:
                            kill = "HeaderEnd" if fresh else "ParseOk"
                    elif at == "pp":
                        kill = "PoolDone"
                    elif at == "pp_run":
                        kill = "PPBegin"
                    else:   # complete
                        kill = "PPEnd" if "pp_run" in cur["trail"] else "PoolDone"
                    cur.update(end="killed", kill=kill)
                elif prev["pc"] == "raised":
                    cur.update(end="raised", kill=None)
                else:
                    cur.update(end="returned", kill=None)
                cur["expect"] = _sd_state(st)
                incs.append(cur)
                cur = None
        if incs:
            scs.append({"id": "sd%d" % bi, "incs": incs})
    return scs


def study_dirs_extension(ck, tier, seed):
    from .. import tlaval
    r = run_tlc("StudyDirs", "StudyDirs_default.cfg", workers=4, timeout=600)
    ck.add_tlc(r, "StudyDirs (extension): directory life cycle, default options (post-processing always re-run)")
    if not r.ok:
        raise MachineryError("StudyDirs_default: %s violated" % r.violated)
    rn = run_tlc("StudyDirs", "StudyDirs_norerun.cfg", workers=4, timeout=600, expect_violation=True)
    ck.add_tlc(rn, "StudyDirs (extension): force_post_process_rerun=False allowed - CompletedPostProcessed is violated (observation)")
    if rn.ok or rn.violated != "CompletedPostProcessed":
        raise MachineryError("StudyDirs_norerun: expected CompletedPostProcessed to be violated, got %s" % rn.violated)
    wd = core.scratch("sdsim")
    os.makedirs(os.path.join(wd, "sim"))
    nb = 10 if tier == "quick" else 60
    run_tlc("StudyDirs", "StudyDirs_sim.cfg", workdir=wd, workers=1, timeout=600, depth=45, simulate="file=%s,num=%d" % (os.path.join(wd, "sim", "b"), nb), seed=seed + 5)
    behs = []
    for f in sorted(os.listdir(os.path.join(wd, "sim"))):
        b = tlaval.parse_sim_file(os.path.join(wd, "sim", f))
        if b:
            behs.append(b)
    # plus TLC's own counterexample of the no-rerun configuration, replayed on the real code
    if rn.trace:
        behs.append([(str(a), None, st) for a, st in rn.trace])
    scs = _sd_scenarios(behs)
    drv = []
    for sc in scs:
        incs = []
        for i in sc["incs"]:
            k = i["kill"]
            incs.append({"fr": i["fr"], "ppr": i["ppr"], "kill": (k[0] if isinstance(k, tuple) else k), "kill_c": (k[1] if isinstance(k, tuple) else None)})
        drv.append({"id": sc["id"], "incs": [x for x in incs if x["kill"] != "SKIP"], "map": [j for j, x in enumerate(incs) if x["kill"] != "SKIP"]})
    out = core.scratch("sdout")
    sf = os.path.join(out, "scen.json")
    json.dump(drv, open(sf, "w"))
    p = core.run_py(["-m", "harness.study_dirs_driver", sf, out], timeout=3000, env={"OMP_NUM_THREADS": "1", "NUMBA_NUM_THREADS": "1"})
    if p.returncode != 0:
        raise MachineryError("study_dirs_driver failed: %s" % p.stderr[-800:])
    n_inc = n_kill = 0
    observed_pp_gap = False
    for sc, dv in zip(scs, drv):
        rp = os.path.join(out, sc["id"], "result.json")
        if not os.path.exists(rp):
            raise MachineryError("no result for %s" % sc["id"])
        res = json.load(open(rp))
        for step, j in zip(res["steps"], dv["map"]):
            inc = sc["incs"][j]
            n_inc += 1
            n_kill += inc["end"] == "killed"
            ck.case(("study_dirs", sc["id"], j, inc["fr"], inc["ppr"], str(inc["kill"])), True)
            real = step["dirs"]
            want = inc["expect"]
            real_n = [real[k] if k < len(real) else dict(exists=False, hdr="none", cases="none", pp="none", completed=False) for k in range(len(want))]
            st_ok = (step["status"] == inc["end"]) or (inc["end"] == "raised" and step["status"].startswith("raised"))
            if real_n != want or not st_ok or any(d["exists"] for d in real[len(want):]):
                # C18 is about cases (none lost, none redone) and completion: a directory whose cases / completion state differs from the
                # model, or an incarnation that ends differently, violates it; header, post-processing directory and sub-directory
                # choice alone are specification extension
                relevant = (not st_ok) or any(a["cases"] != b["cases"] or a["completed"] != b["completed"] for a, b in zip(real_n, want))
                (ck.violation if relevant else ck.extension)({"clause": "study_dirs_conformance", "end": inc["end"], "kill": str(inc["kill"])},
                             "directory life cycle: incarnation %d of %s (force_restart=%s, force_post_process_rerun=%s, kill at %s): real status %s, directories %s; StudyDirs expects %s, %s" % (
                                 j + 1, sc["id"], inc["fr"], inc["ppr"], inc["kill"], step["status"], real, inc["end"], want), {"scenario": dv, "result": res})
                break
            if any(d["completed"] and d["pp"] != "done" for d in real_n):
                observed_pp_gap = True
    ck.notes["study_dirs_extension"] = {"behaviours": len(scs), "incarnations_replayed": n_inc, "sigkills": n_kill,
                                        "observation": "with force_post_process_rerun=False a study killed inside its post-processing function is later reported complete without the function ever finishing (TLC counterexample of StudyDirs_norerun.cfg, reproduced on the real code: %s); default options are safe" % observed_pp_gap}
    if rn.trace and not observed_pp_gap and not ck.violations:
        ck.violation({"clause": "study_dirs_conformance", "end": "counterexample"}, "the CompletedPostProcessed counterexample of StudyDirs_norerun.cfg did not reproduce on the real code: the real function no longer follows the StudyDirs model", {})


def run(tier, seed):
    ck = Check("C18", "model_checking", tier, seed)
    rng = random.Random(seed)
    tlc_design(ck, tier)
    scs = scenarios_systematic(tier, rng) + scenarios_from_tlc(ck, tier, seed)
    t0 = time.time()
    traces = run_scenarios(scs)
    ck.notes["real_runs_wall_s"] = round(time.time() - t0, 1)
    ck.notes["real_incarnations"] = sum(len(t["statuses"]) for t in traces)
    ck.notes["real_sigkills"] = sum(t["statuses"].count("killed") for t in traces)
    off_grid = {i for i, t in enumerate(traces) if any(isinstance(e.get("c"), int) and not (0 <= e["c"] < t.get("ncase", NCASE)) for e in t["events"])}
    verd = {}
    for nc, cfg in ((8, "MPStudyTrace_fixed.cfg"), (12, "MPStudyTrace_fixed12.cfg")):
        keep = [i for i, t in enumerate(traces) if i not in off_grid and t.get("ncase", NCASE) == nc]
        if keep:
            vd = validate_traces(ck, [traces[i] for i in keep], cfg=cfg, label="repaired, %d cases" % nc)
            verd.update({keep[k]: v for k, v in vd.items()})
    for i in off_grid:
        verd[i] = {"accepted": False, "at": 0, "len": len(traces[i]["events"]) + 1, "off_grid": True}
    nacc = 0
    for i, t in enumerate(traces):
        kills = tuple((k["inc"], k["ev"], k.get("c")) for k in t["kills"])
        ck.case(("scen", kills, tuple(t["fail"]), t["kind"], t["procs"], t.get("pool")), nontrivial=bool(kills) or bool(t["fail"]))
        viols = direct_clauses(t)
        v = verd[i]
        if v["accepted"]:
            nacc += 1
        elif "invariant" in v:
            viols.append(({"clause": "tlc_invariant_on_trace", "invariant": v["invariant"], "kind": t["kind"]},
                          "TLC: recorded execution violates %s at event %s" % (v["invariant"], v["at"])))
        elif not viols:
            e = t["events"][v["at"] - 1] if v["at"] - 1 < len(t["events"]) else None
            viols.append(({"clause": "conformance", "event": e and e["ev"], "kind": t["kind"]},
                          "recorded execution is not a behaviour of MPStudy (repaired protocol): first unmatched event #%d %s" % (
                              v["at"], json.dumps(e))))
        else:
            # rejected and a clause failed: the clause verdict explains the rejection; keep the position for the replay file
            pass
        seen = set()
        for key, desc in viols:
            k2 = json.dumps(key, sort_keys=True)
            if k2 in seen:
                continue
            seen.add(k2)
            ck.violation(key, "scenario %s kills=%s fail=%s kind=%s procs=%s: %s" % (
                t["id"], t["kills"], t["fail"], t["kind"], t["procs"], desc),
                {"scenario": {k: t[k] for k in ("id", "fail", "kind", "procs", "pool", "kills", "incs", "delays")},
                 "statuses": t["statuses"], "tlc_verdict": v, "tracebacks": t.get("tracebacks"), "events": t["events"]})
        if i % 17 == 0:
            ck.sample({"scenario": {k: t[k] for k in ("fail", "kind", "procs", "kills", "incs", "origin")},
                       "statuses": t["statuses"], "n_events": len(t["events"]), "tlc": v,
                       "events_head": [[e["inc"], e["ev"], e.get("c")] for e in t["events"][:25]]})
    ck.cov["traces_validated_against_impl"] = len(traces)
    ck.notes["traces_accepted"] = nacc
    study_dirs_extension(ck, tier, seed)
    # binding self-test: a corrupted trace must be rejected
    good = [i for i, t in enumerate(traces) if verd[i]["accepted"] and t.get("ncase", NCASE) == NCASE and any(e["ev"] == "Crash" for e in t["events"])
            and any(e["ev"] == "WMkDir" and any(f["ev"] == "WExec" and f.get("c") == e.get("c") and f["inc"] == e["inc"] for f in t["events"][j + 1:])
                    for j, e in enumerate(t["events"]))]
    if good:
        t = copy.deepcopy(traces[good[0]])
        for e in t["events"]:
            if e["ev"] == "Crash":
                e["marker"][0] = not e["marker"][0]
                break
        t2 = copy.deepcopy(traces[good[0]])
        # drop a directory creation that the same incarnation provably went past (the case was executed afterwards): a WMkDir right
        # before a kill is indistinguishable from a step that was never logged and is legitimately inferred by the trace spec
        ev2 = t2["events"]
        k = next((i for i, e in enumerate(ev2) if e["ev"] == "WMkDir" and any(
            f["ev"] == "WExec" and f.get("c") == e.get("c") and f["inc"] == e["inc"] for f in ev2[i + 1:])), None)
        if k is None:
            k = next(i for i, e in enumerate(ev2) if e["ev"] == "WExec")
        del t2["events"][k]
        t3 = copy.deepcopy(traces[good[0]])
        for e in t3["events"]:
            if e["ev"] == "Finish":
                e["out"][0]["cn"] = (e["out"][0]["cn"] + 1) % NCASE
        vv = validate_traces(ck, [t, t2, t3], label="negative control")
        if any(vv[i]["accepted"] for i in range(3)):
            raise MachineryError("binding self-test failed: corrupted trace accepted: %s" % vv)
        ck.notes["negative_controls_trace"] = {"corrupted_snapshot": vv[0], "dropped_event": vv[1], "foreign_case_number": vv[2]}
    elif not ck.violations and not ck.known_hit:
        raise MachineryError("no accepted trace with a crash available for the binding self-test")
    ck.cov["rule"] = ("scenario = (kill points (incarnation, event, case), failing-case subset, must_include kind, pool size, pool kind); "
                      "systematic enumeration of kill points after every worker/parent file operation + crash schedules read off TLC "
                      "simulation behaviours; distinct_nontrivial counts distinct scenarios with at least one SIGKILL or failing case")
    ck.cov["exhaustive"] = False
    ck.assumptions += ["SIGKILL of the whole process group models 'process killed'; a kill inside np.savez is emulated by a truncated "
                       "archive that exists before the real write", "grid 4x2 cases (must_include values in exponent notation / negative) and a 3x2x2 grid with 12 cases; pool sizes 4/8/16; pathos pool (the stdlib-pool fallback cannot pickle the local worker closure at all - it never runs a study, interrupted or not - and is outside this check)",
                       "file-operation proxies are injected into the module namespace at run time (no change to /repo)"]
    return ck.finish()


def replay(path):
    d = json.load(open(path))
    sc = d["replay"]["scenario"]
    print("replaying scenario", json.dumps(sc))
    tr = run_scenarios([dict(sc, id="replay")])[0]
    for e in tr["events"]:
        print("  ", {k: v for k, v in e.items() if k not in ("pid", "seq")})
    v = direct_clauses(tr)
    for key, desc in v:
        print("CLAUSE FAILS:", key, desc)
    return 1 if v else 0
