"""C16 - world construction keeps geometry/mass bookkeeping consistent and terminates.

Specs: WorldBuilder.tla (derivation chains; the variant-naming loop step by step; TLC: termination (liveness), distinct
name; the loop as found is the negative control) and WorldGeometry.tla (layer stacks in exact integers over all accepted
configuration forms; TLC: contiguity, volume/mass sums, monotone enclosed mass, scaling keeps fractions).
Binding (R): every TLC-enumerated configuration (sampled in the quick tier) is built with the real build_world and scaled
with scale_from_world; TLC behaviours of WorldBuilder are replayed as real build_from_world / scale_from_world chains
under an alarm (a hang is a violation of the termination clause); names, geometry, input immutability are compared."""
import json
import os
import random
import subprocess
import time

from .. import core, tlaval
from ..core import Check, MachineryError, run_tlc, scratch, PY, VERIF

LAYERED_SHIPPED = ["io_simple", "earth_simple", "55cnce_simple", "nereid_dev"]
OTHER_SHIPPED = ["trappist1e", "triton_simple", "jupiter", "sol"]


def chains_from_tlc(ck, tier, seed):
    num, depth = (60, 24) if tier == "quick" else (600, 30)
    wd = scratch("c16sim")
    os.makedirs(os.path.join(wd, "sim"))
    run_tlc("WorldBuilder", "WorldBuilder_sim.cfg", workdir=wd, workers=1, timeout=600, depth=depth,
            simulate="file=%s,num=%d" % (os.path.join(wd, "sim", "b"), num), seed=seed + 11)
    chains = []
    for f in sorted(os.listdir(os.path.join(wd, "sim"))):
        beh = tlaval.parse_sim_file(os.path.join(wd, "sim", f))
        steps = []
        cur = None
        for act, args, st in beh:
            if act == "Request":
                kind, k, nm = tlaval.parse_value("<<" + args + ">>")
                cur = [kind, list(k), nm]
            elif act == "Finish" and cur is not None:
                steps.append(cur + [list(st["name"]), list(st["scale"])])
                cur = None
        if steps:
            chains.append(steps)
    # de-duplicate
    seen, out = set(), []
    for c in chains:
        key = json.dumps([s[:3] for s in c])
        if key not in seen:
            seen.add(key)
            out.append(c)
    return out


def run_jobs(jobs, timeout=3000):
    wd = scratch("c16jobs")
    env = dict(os.environ, PYTHONPATH=core.pythonpath(), PYTHONHASHSEED="0", NUMBA_NUM_THREADS="1", OMP_NUM_THREADS="1")
    procs = []
    for i, job in enumerate(jobs):
        p = os.path.join(wd, "job%d.json" % i)
        json.dump(job, open(p, "w"))
        lf = open(p + ".log", "w")
        env = dict(env, NUMBA_CACHE_DIR=core.private_numba_cache("b%d" % i))
        procs.append((subprocess.Popen([PY, "-m", "harness.builder_driver", p], cwd=VERIF, env=env, stdin=subprocess.DEVNULL,
                                       stdout=lf, stderr=subprocess.STDOUT), p, job))
    res = []
    for pr, p, job in procs:
        try:
            pr.wait(timeout=timeout)
        except subprocess.TimeoutExpired:
            pr.kill()
            raise MachineryError("builder_driver timeout")
        if pr.returncode != 0 or not os.path.exists(p + ".out.json"):
            raise MachineryError("builder_driver failed rc=%s: %s" % (pr.returncode, open(p + ".log").read()[-1500:]))
        res.append((job, json.load(open(p + ".out.json"))))
    return res


CH_GROUPS = [("dT_iF_oF", True, False, False), ("dT_iT_oF", True, True, False), ("dF_iF_oF", False, False, False), ("dF_iT_oF", False, True, False),
             ("dT_iF_oT", True, False, True), ("dF_iF_oT", False, False, True)]


def config_holder_extension(ck, tier, seed, only=None):
    """specs/ConfigHolder.tla (beyond the listed property; the mechanism behind 'deriving a world never mutates its inputs'):
    exhaustive TLC runs of the six realisable class shapes, the named deviation as an expected violation, and TLC-simulated
    behaviours replayed step by step on real ConfigHolder / LayerConfigHolder / WorldConfigHolder objects."""
    groups = []
    nb = 40 if tier == "quick" else 400
    for name, hd, si, wo in CH_GROUPS:
        r = run_tlc("ConfigHolder", "ConfigHolder_%s.cfg" % name, workers=8, timeout=600)
        ck.add_tlc(r, "ConfigHolder (extension) %s: default=%s store_py_info=%s owner=%s" % (name, hd, si, wo))
        if not r.ok:
            raise MachineryError("ConfigHolder_%s: %s violated" % (name, r.violated))
        wd = scratch("chsim")
        os.makedirs(os.path.join(wd, "sim"))
        run_tlc("ConfigHolder", "ConfigHolder_%s_sim.cfg" % name, workdir=wd, workers=1, timeout=600, depth=16,
                simulate="file=%s,num=%d" % (os.path.join(wd, "sim", "b"), nb), seed=seed + 11)
        behs = []
        for f in sorted(os.listdir(os.path.join(wd, "sim"))):
            b = tlaval.parse_sim_file(os.path.join(wd, "sim", f))
            if b:
                behs.append([[st["last"], {k: st[k] for k in ("clsdef", "made", "def", "cfg", "old", "repl", "owner")}] for _a, _args, st in b])
        if not behs:
            raise MachineryError("no ConfigHolder behaviours from TLC (%s)" % name)
        groups.append({"name": name, "has_default": hd, "store_info": si, "with_owner": wo, "keys": sorted(behs[0][0][1]["cfg"]["d"]), "behaviours": behs})
    rn = run_tlc("ConfigHolder", "ConfigHolder_neg_historyfree.cfg", workers=4, timeout=300, expect_violation=True)
    if rn.ok or rn.violated != "HistoryFree":
        raise MachineryError("ConfigHolder_neg_historyfree: expected HistoryFree to be violated, got %s" % rn.violated)
    # TLC's counterexample (the configuration depends on the history of replacements) is replayed too: the code must follow it
    if rn.trace:
        groups[0]["behaviours"].append([[st["last"], {k: st[k] for k in ("clsdef", "made", "def", "cfg", "old", "repl", "owner")}] for _a, st in rn.trace])

    def drive(grps, sabotage=False):
        out = scratch("chjob")
        jf = os.path.join(out, "job.json")
        json.dump({"groups": grps, "sabotage": sabotage}, open(jf, "w"))
        p = core.run_py(["-m", "harness.config_holder_driver", jf], timeout=1200)
        if p.returncode != 0 or not os.path.exists(jf + ".out.json"):
            raise MachineryError("config_holder_driver failed: %s" % (p.stderr or "")[-800:])
        return json.load(open(jf + ".out.json"))
    res = drive(groups)
    acts = {}
    for g in groups:
        for b in g["behaviours"]:
            for lab, _ in b:
                acts[lab[0]] = acts.get(lab[0], 0) + 1
            ck.case(("config_holder", g["name"], json.dumps([x[0] for x in b])), True)
    for v in res["results"]:
        g = groups[v["group"]]
        what = v["problems"][0][0]
        kinds = {pr[0] for pr in v["problems"]}
        # C16 states that deriving a world never mutates its inputs: isolation failures (shared objects, a changed class default, a
        # caller's or owner's later edit reaching the instance) are violations of it; the merge / replace semantics themselves are
        # specification extension
        relevant = bool(kinds & {"aliasing", "clsdef", "second_instance"}) or v["label"][0] in ("ExtMutate", "OwnerMutate")
        report = ck.violation if relevant else ck.extension
        report({"clause": "config_holder_conformance", "what": what, "action": v["label"][0]},
                     "ConfigHolder (%s, %s holder): after %s the real object and ConfigHolder.tla disagree on %s: %s (history: %s)" % (
                         g["name"], v["kind"], v["label"], what, v["problems"][0][1][:300], [x[0] for x in v["prefix"]]),
                     {"kind": "config_holder", "group": {k: g[k] for k in ("name", "has_default", "store_info", "with_owner", "keys")}, "behaviour": g["behaviours"][v["behaviour"]] if v["behaviour"] < len(g["behaviours"]) else None, "problems": v["problems"]})
    # negative control of the binding: one skipped replace_config must be noticed
    neg = drive([dict(groups[0], behaviours=[next(b for b in groups[0]["behaviours"] if any(x[0][0] == "Replace" and x[1]["cfg"] != y[1]["cfg"] for x, y in zip(b[1:], b)))])], sabotage=True)
    if not neg["results"]:
        raise MachineryError("binding self-test failed: a skipped replace_config went unnoticed")
    ck.notes["config_holder_extension"] = {"behaviours": sum(len(g["behaviours"]) for g in groups), "steps_replayed": res["steps"], "actions": acts,
                                           "named_deviation": "HistoryFree violated by TLC (keys of earlier replacements persist under a non-forced update); the counterexample replays on the real class",
                                           "negative_control": "a skipped replace_config is reported (%s)" % neg["results"][0]["problems"][0][0]}
    ck.cov["traces_validated_against_impl"] = ck.cov.get("traces_validated_against_impl", 0) + sum(len(g["behaviours"]) for g in groups)


def run(tier, seed):
    ck = Check("C16", "model_checking", tier, seed)
    rng = random.Random(seed)
    # --- model checking
    r = run_tlc("WorldBuilder", "WorldBuilder_fixed.cfg", coverage=True, timeout=900)
    ck.add_tlc(r, "WorldBuilder chains <= 4 derivations, repaired naming loop (safety + termination)")
    ra = run_tlc("WorldBuilder", "WorldBuilder_asis.cfg", expect_violation=True, timeout=600)
    if ra.violated != "C16_Terminates":
        raise MachineryError("negative control: naming loop as found should violate C16_Terminates, got %s" % ra.violated)
    ck.notes["negative_control_model"] = {"cfg": "WorldBuilder_asis.cfg", "violated": ra.violated,
                                          "lasso": [a.split(" line")[0] for a, _ in ra.trace]}
    wd = scratch("c16geo")
    rg = run_tlc("WorldGeometry", "WorldGeometry.cfg" if tier == "quick" else "WorldGeometry_big.cfg", workdir=wd,
                 timeout=1800, coverage=True, dump=os.path.join(wd, "states"))
    ck.add_tlc(rg, "WorldGeometry lattice")
    states = list(tlaval.parse_dump(os.path.join(wd, "states.dump")))
    for s in states:
        for k in ("R", "gform", "mform", "rho"):
            s[k] = list(s[k])
    ncfg = 320 if tier == "quick" else 6000
    # stratified sample: every (nl, geometry-form tuple, world-mass flag, scale) class is hit
    by = {}
    for s in states:
        by.setdefault((s["nl"], tuple(s["gform"]), s["worldMassGiven"], s["k2"]), []).append(s)
    picked = []
    keys = sorted(by)
    while len(picked) < min(ncfg, len(states)):
        for k in keys:
            if by[k]:
                picked.append(by[k].pop(rng.randrange(len(by[k]))))
                if len(picked) >= ncfg:
                    break
        if not any(by.values()):
            break
    chains = chains_from_tlc(ck, tier, seed)
    bases = LAYERED_SHIPPED
    chain_jobs = [{"base": bases[i % len(bases)], "steps": c} for i, c in enumerate(chains)]
    nj = core.NCPU
    jobs = []
    for j in range(nj):
        jobs.append({"configs": picked[j::nj], "chains": chain_jobs[j::nj],
                     "shipped": (LAYERED_SHIPPED + OTHER_SHIPPED)[j::nj]})
    t0 = time.time()
    results = run_jobs(jobs)
    ck.notes["replay_wall_s"] = round(time.time() - t0, 1)
    nch = 0
    for job, res in results:
        for st, bad in zip(job["configs"], res["configs"]):
            ck.case(("cfg", st["nl"], tuple(st["R"]), tuple(st["gform"]), tuple(st["mform"]), tuple(st["rho"]), st["worldMassGiven"], st["k2"]),
                    nontrivial=st["nl"] > 1 or st["k2"] != 2)
            for b in bad[:2]:
                key = {"clause": b["clause"]}
                if "gforms" in b:
                    key["gforms"] = b["gforms"]
                ck.violation(key, "configuration %s: %s" % (json.dumps(st), b["detail"]), {"kind": "config", "state": st, "failures": bad})
        for ch, bad in zip(job["chains"], res["chains"]):
            nch += 1
            ck.case(("chain", ch["base"], json.dumps([s[:3] for s in ch["steps"]])), True)
            for b in bad[:2]:
                key = {"clause": b["clause"]}
                if "parent_name_shape" in b:
                    key["parent_name_shape"] = b["parent_name_shape"]
                ck.violation(key, "chain on %s %s: %s" % (ch["base"], [s[:3] for s in ch["steps"]], b["detail"]),
                             {"kind": "chain", "chain": ch, "failures": bad})
        for nm, bad in zip(job["shipped"], res["shipped"]):
            ck.case(("shipped", nm), True)
            for b in bad[:3]:
                if "skipped" in b:
                    continue
                key = {"clause": b["clause"]}
                if "world" in b:
                    key["world"] = b["world"]
                ck.violation(key, "shipped world %s: %s" % (nm, b["detail"]), {"kind": "shipped", "name": nm, "failures": bad})
    ck.cov["traces_validated_against_impl"] = nch
    ck.notes["configs_built"] = len(picked)
    ck.notes["chains_replayed"] = nch
    for s in picked[:2]:
        ck.sample({"configuration": s})
    for c in chain_jobs[:3]:
        ck.sample({"chain": {"base": c["base"], "steps": [s[:4] for s in c["steps"]]}})
    # negative control of the binding: a configuration state corrupted after export must be reported
    bad_state = dict(picked[0])
    neg_job = {"configs": [dict(next(s for s in picked if s["nl"] >= 2 and s["k2"] == 2), _corrupt=True)], "chains": [], "shipped": []}
    st = neg_job["configs"][0]
    st["R"] = list(st["R"])
    st["R"][0], st["R"][1] = st["R"][1], st["R"][0]       # layer radii swapped: not a valid stack any more
    (nj_, nres), = run_jobs([neg_job])
    if not nres["configs"][0]:
        raise MachineryError("binding self-test failed: a corrupted configuration produced no failure")
    ck.notes["negative_control_replay"] = "configuration with swapped layer radii -> %s" % nres["configs"][0][0]["clause"]
    config_holder_extension(ck, tier, seed)
    ck.cov["rule"] = ("cases: TLC-enumerated layer-stack configurations (stratified sample over layer count, geometry forms, world-mass flag, scale) built "
                      "and scaled on the real builder; distinct TLC derivation chains replayed on shipped layered worlds; shipped worlds")
    ck.assumptions += ["BurnMan worlds excluded (BurnMan not installed)", "lengths in units of 1e5 m, densities in units of 1000 kg/m3; rel. 1e-11",
                       "termination clause: a derivation that does not return within 20 s is a violation"]
    return ck.finish()


def replay(path):
    d = json.load(open(path))
    r = d["replay"]
    if r["kind"] == "config_holder":
        out = scratch("chreplay")
        jf = os.path.join(out, "job.json")
        json.dump({"groups": [dict(r["group"], behaviours=[r["behaviour"]])]}, open(jf, "w"))
        core.run_py(["-m", "harness.config_holder_driver", jf], timeout=600)
        res = json.load(open(jf + ".out.json"))
        print(json.dumps(res, indent=1)[:3000])
        return 1 if res["results"] else 0
    if r["kind"] == "config":
        job = {"configs": [r["state"]], "chains": [], "shipped": []}
    elif r["kind"] == "chain":
        job = {"configs": [], "chains": [r["chain"]], "shipped": []}
    else:
        job = {"configs": [], "chains": [], "shipped": [r["name"]]}
    (j, res), = run_jobs([job])
    print(json.dumps(res, indent=1)[:3000])
    return 1 if any(res[k] and res[k][0] for k in res) else 0
