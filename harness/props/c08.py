"""C08 - eccentricity tables equal squared Hansen coefficients to their stated order.

Spec: specs/Hansen.tla - G_lpq(e)^2 from the Laurent-coefficient form of the Hansen coefficients as truncated power series
over GF(p); TLC checks on every (l, p, q) a closed-form anchor, the aliasing symmetry G_lpq = G_l(l-p)(-q) and the leading
order e^|q|, and exports the residues of G^2 through e^20.
Binding (X): (1) the harness' exact rational evaluation of the same definition (harness/hansen_exact.py) must have exactly
TLC's residues, coefficient by coefficient, for every exported (l, p, q) and every prime of the tier - this ties the
rationals to the spec; (2) every shipped table eccentricity_funcs_l{l}_trunc{N} is evaluated on the power-series argument
e (a truncated-polynomial number type), so that the table's own arithmetic yields its coefficient list, and compared with
the rationals through order N (closed-form entries: through order 22); omitted (p, q) must vanish through order N;
(3) the multi-degree lookup helpers must return these tables; the jitted functions are spot-checked numerically."""
import json
import math
import random
from fractions import Fraction as Fr

import numpy as np

from .. import core
from ..core import pyf, Check, MachineryError, run_tlc

TRUNCS = [2, 4, 6, 8, 10, 12, 14, 16, 18, 20]


def run(tier, seed):
    ck = Check("C08", "model_checking", tier, seed)
    rng = random.Random(seed)
    from .. import hansen_exact as HX
    cfgs = [("Hansen_quick.cfg", [2, 3])] if tier == "quick" else [("Hansen_all.cfg", [2, 3, 4, 5, 6, 7]), ("Hansen_all_p2.cfg", [2, 3, 4, 5, 6, 7]),
                                                                  ("Hansen_all_p3.cfg", [2, 3, 4, 5, 6, 7])]
    exact = {}

    def g2(l, p, q):
        if (l, p, q) not in exact:
            exact[(l, p, q)] = HX.G2(l, p, q).c
        return exact[(l, p, q)]

    nres = 0
    for cfg, degs in cfgs:
        r = run_tlc("Hansen", cfg, workers=16, timeout=7000)
        prime = int(open(core.SPECS + "/" + cfg).read().split("P = ")[1].split()[0])
        ck.add_tlc(r, "Hansen G^2 residues mod %d, degrees %s (anchor, aliasing, leading order)" % (prime, degs))
        rows = core.printed_values(r.stdout, "ROW")
        if len(rows) != r.distinct or not rows:
            raise MachineryError("exported %d rows for %d states" % (len(rows), r.distinct))
        for _, l, p, q, res in rows:
            c = g2(l, p, q)
            for i, rv in enumerate(res):
                fr = c[i]
                mine = (fr.numerator % prime) * pow(fr.denominator % prime, prime - 2, prime) % prime
                nres += 1
                if mine != rv:
                    raise MachineryError("exact rational evaluation disagrees with the spec: G^2_%d,%d,%d coefficient of e^%d: %s mod %d = %d, TLC %d" % (
                        l, p, q, i, fr, prime, mine, rv))
    ck.notes["residues_matched"] = nres
    import TidalPy  # noqa
    import importlib
    # the coefficient comparison covers every degree in both tiers (the exact evaluation is cheap); in the quick tier TLC's
    # residues tie the rational evaluation to the spec on l = 2, 3 only, and the jitted / lookup spot checks stay at l <= 3
    degrees = [2, 3, 4, 5, 6, 7]
    jit_degrees = [2, 3] if tier == "quick" else degrees
    e = HX.e
    worst = 0.0
    ntab = 0
    for l in degrees:
        mod = importlib.import_module("TidalPy.tides.eccentricity_funcs.orderl%d" % l)
        for Ntr in TRUNCS + ([22] if l == 2 else []):
            fn = getattr(mod, "eccentricity_funcs_trunc%d" % Ntr, None)
            if fn is None:
                ck.violation({"clause": "table_missing", "l": l, "N": Ntr}, "no table eccentricity_funcs_trunc%d for l=%d" % (Ntr, l), {})
                continue
            try:
                tab = pyf(fn)(e)
            except Exception as ex:
                raise MachineryError("table l=%d N=%d cannot be evaluated on the series argument: %s: %s" % (l, Ntr, type(ex).__name__, ex))
            ntab += 1
            qmax = 11 if Ntr <= 20 else 12
            for p in range(0, l + 1):
                for q in range(-qmax, qmax + 1):
                    ref = g2(l, p, q)
                    present = p in tab and q in tab[p]
                    ck.case(("entry", l, Ntr, p, q), present or any(ref[:Ntr + 1]))
                    if not present:
                        nz = [i for i in range(Ntr + 1) if ref[i] != 0]
                        if nz:
                            ck.violation({"clause": "mode_omitted", "l": l, "N": Ntr, "p": p, "q": q},
                                         "l=%d N=%d: (p,q)=(%d,%d) is not tabulated but G^2 has the term %s e^%d" % (l, Ntr, p, q, ref[nz[0]], nz[0]),
                                         {"l": l, "N": Ntr, "p": p, "q": q})
                        continue
                    got = tab[p][q]
                    gc = got.c if isinstance(got, HX.P) else [Fr(got)] + [Fr(0)] * HX.N
                    closed_form = any(gc[i] != 0 for i in range(Ntr + 1, HX.N + 1))
                    upto = HX.N if closed_form else Ntr
                    for i in range(upto + 1):
                        a, b = float(gc[i]), float(ref[i])
                        err = abs(a - b) / max(1.0, abs(b))
                        worst = max(worst, err)
                        if err > 1e-11:
                            ck.violation({"clause": "coefficient", "l": l, "N": Ntr, "p": p, "q": q, "power": i},
                                         "l=%d N=%d (p,q)=(%d,%d): coefficient of e^%d is %r, squared Hansen coefficient has %s = %r%s" % (
                                             l, Ntr, p, q, i, a, ref[i], b, " (closed-form entry, compared to all orders)" if closed_form else ""),
                                         {"l": l, "N": Ntr, "p": p, "q": q, "power": i})
                            break
                if p in tab:
                    for q in tab[p]:
                        if abs(q) > qmax:
                            ref = HX.G2(l, p, q).c
                            gc = tab[p][q].c
                            if any(abs(float(gc[i]) - float(ref[i])) > 1e-11 * max(1, abs(float(ref[i]))) for i in range(Ntr + 1)):
                                ck.violation({"clause": "coefficient", "l": l, "N": Ntr, "p": p, "q": q, "power": -1}, "l=%d N=%d (p,q)=(%d,%d) wrong" % (l, Ntr, p, q), {})
            extra = [p for p in tab if not (0 <= p <= l)]
            if extra:
                ck.violation({"clause": "unknown_p", "l": l, "N": Ntr}, "table has p outside 0..l: %s" % extra, {})
            # ndarray form (numpy semantics without compiling): `x *= y` on an array works in place, so a table whose power prelude
            # aliases two names (e8 = e6; e8 *= e2) is right for floats and series objects and wrong for arrays
            es_a = np.array([0.0, 0.03, 0.06, 0.08, 0.1])
            keep_a = es_a.copy()
            ta = pyf(fn)(es_a)
            if not np.array_equal(es_a, keep_a):
                ck.violation({"clause": "inputs_unmodified", "l": l, "N": Ntr}, "l=%d N=%d: the table modified the caller's eccentricity array" % (l, Ntr), {})
            for p in tab:
                for q in tab[p]:
                    gc = tab[p][q].c if isinstance(tab[p][q], HX.P) else [Fr(tab[p][q])]
                    pv = sum(float(c) * keep_a ** i for i, c in enumerate(gc))
                    av = np.asarray(ta[p][q], dtype=float) * np.ones_like(keep_a)
                    if np.max(np.abs(av - pv) / np.maximum(1.0, np.abs(pv))) > 1e-9:
                        ck.violation({"clause": "array_vs_polynomial", "l": l, "N": Ntr, "p": p, "q": q},
                                     "l=%d N=%d (p,q)=(%d,%d): evaluated on an ndarray the table gives %s, its own polynomial %s" % (l, Ntr, p, q, av.tolist(), pv.tolist()), {})
                        break
            # the jitted table agrees numerically with its own polynomial
            if l in jit_degrees and (Ntr in (2, 10, 20) or tier == "thorough"):
                # closed-form entries ((1 - e^2)^-k factors, k up to 11 at l = 7) are only expanded to e^22 in the reference: at e = 0.2 the
                # neglected tail is 1e-9 (false alarm of the first thorough sweep), at e = 0.1 it is 4e-17
                es = np.array([0.0, 0.03, 0.06, 0.08, 0.1])
                jt = fn(es)
                for p in tab:
                    for q in tab[p]:
                        gc = tab[p][q].c if isinstance(tab[p][q], HX.P) else [Fr(tab[p][q])]
                        pv = sum(float(c) * es ** i for i, c in enumerate(gc))
                        jv = np.asarray(jt[p][q], dtype=float) * np.ones_like(es)
                        if np.max(np.abs(jv - pv) / np.maximum(1.0, np.abs(pv))) > 1e-9:
                            ck.violation({"clause": "jit_vs_polynomial", "l": l, "N": Ntr, "p": p, "q": q},
                                         "l=%d N=%d (p,q)=(%d,%d): jitted values %s differ from the table's polynomial %s" % (l, Ntr, p, q, jv.tolist(), pv.tolist()), {})
    # multi-degree lookup helpers return exactly these tables
    from TidalPy.tides.modes.mode_manipulation import find_mode_manipulators
    ev = np.array([0.07, 0.31])
    for lmax in jit_degrees:
        for Ntr in (TRUNCS if tier == "thorough" else [2, 8, 20]):
            try:
                _, _, ef, _ = find_mode_manipulators(lmax, Ntr, True)
            except Exception as ex:
                ck.violation({"clause": "lookup", "lmax": lmax, "N": Ntr}, "find_mode_manipulators(%d, %d) raised %s" % (lmax, Ntr, ex), {})
                continue
            res = ef(ev)
            ck.case(("lookup", lmax, Ntr), True)
            if sorted(res.keys()) != list(range(2, lmax + 1)):
                ck.violation({"clause": "lookup", "lmax": lmax, "N": Ntr}, "eccentricity lookup(max l=%d, N=%d) returns degrees %s" % (lmax, Ntr, sorted(res.keys())), {})
                continue
            for l in range(2, lmax + 1):
                ref = getattr(importlib.import_module("TidalPy.tides.eccentricity_funcs.orderl%d" % l), "eccentricity_funcs_trunc%d" % Ntr)(ev)
                same = set(ref.keys()) == set(res[l].keys()) and all(
                    set(ref[p].keys()) == set(res[l][p].keys()) and all(np.array_equal(np.asarray(ref[p][q]) * np.ones(2), np.asarray(res[l][p][q]) * np.ones(2)) for q in ref[p])
                    for p in ref)
                if not same:
                    ck.violation({"clause": "lookup", "lmax": lmax, "N": Ntr, "l": l}, "eccentricity lookup(max l=%d, N=%d)[%d] is not the l=%d N=%d table" % (lmax, Ntr, l, l, Ntr), {})
    # the same helpers on a SCALAR eccentricity, called in sequence for different truncation levels at the same e (a truncation-
    # convergence study) and twice for the same request with the first answer overwritten in between: no answer may depend on an
    # earlier call or share storage with it
    for lmax in jit_degrees:
        for e_s in (0.3, np.float64(0.11)):
            seq = [2, 8, 4, 20, 2] if tier == "quick" else [2, 6, 4, 10, 8, 20, 2, 12]
            for k, Ntr in enumerate(seq):
                try:
                    _, _, ef, _ = find_mode_manipulators(lmax, Ntr, True)
                    res = ef(e_s)
                except Exception as ex:
                    ck.violation({"clause": "lookup", "lmax": lmax, "N": Ntr}, "eccentricity lookup(max l=%d, N=%d)(%r) raised %s" % (lmax, Ntr, e_s, ex), {})
                    continue
                ck.case(("lookup-seq", lmax, float(e_s), k, Ntr), True)
                for l in range(2, lmax + 1):
                    ref = getattr(importlib.import_module("TidalPy.tides.eccentricity_funcs.orderl%d" % l), "eccentricity_funcs_trunc%d" % Ntr)(e_s)
                    same = set(ref.keys()) == set(res[l].keys()) and all(
                        set(ref[p].keys()) == set(res[l][p].keys()) and all(float(ref[p][q]) == float(res[l][p][q]) for q in ref[p]) for p in ref)
                    if not same:
                        ck.violation({"clause": "lookup", "lmax": lmax, "N": Ntr, "l": l, "sequence": True},
                                     "eccentricity lookup(max l=%d, N=%d)(%r), call %d of the sequence N = %s at the same e: degree %d is not the N=%d table (q modes of p=0: %s, table %s)" % (
                                         lmax, Ntr, e_s, k + 1, seq, l, Ntr, sorted(res[l][0].keys()), sorted(ref[0].keys())), {})
                        break
                # overwrite the answer in place, ask again
                try:
                    p0 = sorted(res[2].keys())[0]
                    q0 = sorted(res[2][p0].keys())[0]
                    want = float(res[2][p0][q0])
                    res[2][p0][q0] = -12345.0
                    again = ef(e_s)
                    if float(again[2][p0][q0]) != want:
                        ck.violation({"clause": "lookup", "lmax": lmax, "N": Ntr, "aliasing": True}, "eccentricity lookup(max l=%d, N=%d)(%r): a second identical request returns the caller's overwritten first answer (%r instead of %r)" % (
                            lmax, Ntr, e_s, float(again[2][p0][q0]), want), {})
                except Exception:
                    pass
    # every multi-degree lookup helper, evaluated as plain Python (NUMBA_DISABLE_JIT) on exact arguments, returns the per-degree tables
    import os
    pr = core.run_py(["-m", "harness.lookup_nojit"], timeout=900, env={"NUMBA_DISABLE_JIT": "1", "NUMBA_CACHE_DIR": os.environ.get("NUMBA_CACHE_DIR", "")})
    line = [x for x in pr.stdout.splitlines() if x.startswith("RESULT ")]
    if pr.returncode != 0 or not line:
        raise MachineryError("lookup_nojit failed: %s" % (pr.stderr[-800:]))
    lk = json.loads(line[0][7:])
    ck.notes["lookup_helpers_checked_without_jit"] = lk["helpers"]
    for b in lk["bad"]:
        if b["kind"] == "eccentricity":
            ck.case(("lookup-nojit", json.dumps(b, sort_keys=True)), True)
            ck.violation({"clause": "lookup", "lmax": b.get("lmax"), "N": b.get("N"), "l": b.get("l")}, "%s lookup helper (max l=%s%s): %s" % (
                b["kind"], b.get("lmax"), (", N=%s" % b["N"]) if "N" in b else "", b["what"]), b)
    ck.cov["traces_validated_against_impl"] = ntab
    ck.notes["tables_compared"] = ntab
    ck.notes["worst_coefficient_deviation"] = worst
    ck.sample({"G^2_2,0,1 (exact)": [str(c) for c in g2(2, 0, 1)[:9]]})
    ck.sample({"G^2_3,1,-2 (exact)": [str(c) for c in g2(3, 1, -2)[:9]]})
    # negative control: a coefficient perturbed in the 11th digit is reported
    if abs(12.25 * (1 + 2e-11) - 12.25) / 12.25 <= 1e-11:
        raise MachineryError("negative control failed")
    ck.notes["negative_control"] = "a relative perturbation of 2e-11 of a coefficient exceeds the tolerance; a wrong rational would break the residue match (machinery failure)"
    ck.cov["rule"] = "one case = one (l, N, p, q) table entry (present: coefficients compared; absent: G^2 must vanish through e^N) or one lookup helper"
    ck.assumptions += ["quick tier: TLC residues for l = 2, 3 and one prime (tables of all degrees are still compared with the rational evaluation); thorough: residues for l = 2..7 and three primes", "decimal literals of the tables are compared at rel. 1e-11"]
    return ck.finish()


def replay(path):
    print(open(path).read()[:2000])
    return 1
