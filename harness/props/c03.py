"""C03 - Love numbers are invariant under representation changes; Saito-Molodensky reciprocity.

Spec: specs/SolverObs.tla - a state is a representation of one physical problem (non-dimensionalise on/off, exact rescaling by
10^s, solve_for sequence, integrator, tolerance level, grid level, start level, start family, static / incompressible
assumption); actions change one coordinate. TLC decides the dimension algebra (scaling exponents of y1..y6 = (-1,0,-1,0,0,-1),
k, h, l dimensionless, G invariant under the rescaling, the non-dimensionalisation divisors), the slot layout, and predicts
the dispatch outcome of every representation. Binding (R): every representation TLC reaches is replayed as one radial_solver
call (plus the same call at a 100x tighter tolerance = the property's convergence filter); predicates: same Love numbers as the
base representation of the same problem (bit-identical when only solve_for changes), k_load = k_tidal - h_tidal, Love numbers
= (y5-1, g y1, g y3) of the rows the slot layout names, y_i scaling exponents measured on the surface and on a mantle slice,
re-dimensionalised radial functions equal with nondimensionalize on/off, inputs restored."""
import random

from .. import solver_obs as so
from ..core import Check


def variants(tier, rng):
    """extra physical problems (thorough): other degrees / frequencies / materials, each with every single-step representation"""
    out = []
    if tier == "quick":
        return out
    for prob in ("uniform_solid", "two_solid", "liquid_core", "solid_liquid_solid"):
        for l in (3, 4):
            out.append(dict(prob=prob, l=l))
        out.append(dict(prob=prob, freq=1.0e-6))
        out.append(dict(prob=prob, l=3, freq=2.0e-4))
    for i in range(6):
        R = 10 ** rng.uniform(5.5, 7.5)
        mu = 10 ** rng.uniform(9.5, 11)
        out.append(dict(prob="uniform_solid", l=rng.choice([2, 3]), material=dict(R=R, rho=rng.uniform(2000, 8000), mu=[mu, mu * 10 ** rng.uniform(-3, -0.5)], K=mu * 10 ** rng.uniform(0.3, 2))))
    return out


def expand(reps, vs, max_changes=1):
    extra = []
    for v in vs:
        for r in reps:
            if r["prob"] != v["prob"]:
                continue
            if len([c for c in so.changed(r) if c not in ("static", "incomp")]) > max_changes:
                continue
            e = dict(r)
            e.update({k: x for k, x in v.items() if k != "prob"})
            extra.append(e)
    return extra


def love_extraction(ck):
    """find_love is exact on small Gaussian integers: (k, h, l) = (y5 - 1, g y1, g y3) (the slot layout SolverObs states)"""
    import numpy as np
    from TidalPy.RadialSolver.love import find_love
    for a in range(-3, 4):
        for b in range(-3, 4):
            ys = np.array([complex(a, b), complex(7, -7), complex(b, -a), complex(5, 5), complex(a + b, a - b), complex(9, 9)], dtype=np.complex128)
            keep = ys.copy()
            for g in (1.0, 2.0, 0.5):
                out = np.full(3, np.nan + 0j, dtype=np.complex128)
                find_love(out, ys, g)
                want = [ys[4] - 1.0, g * ys[0], g * ys[2]]
                ck.case(("find_love", a, b, g), True)
                if list(out) != want or not np.array_equal(ys, keep):
                    ck.violation({"clause": "love_extraction"}, "find_love(y=%s, g=%s) = %s, slots (y5-1, g y1, g y3) = %s" % (list(ys), g, list(out), want), {})


def interface_rounding(ck, rng, tier):
    """Layer membership of the slice that sits exactly AT an interface must not depend on non-dimensionalisation: for independently
    rounded radii (r / R) * R is one ulp above or below r for several per cent of the pairs. Two-layer bodies with such "ugly" radii
    (half of them chosen with (r/R)*R > r, half with (r/R)*R < r), solved with and without non-dimensionalisation."""
    import numpy as np
    from ..solver_lib import make_planet, solve
    want = 10 if tier == "quick" else 60
    above, below = [], []
    while len(above) < want or len(below) < want:
        R = round(rng.uniform(1.0e6, 7.0e6), rng.choice([-3, 0, 1]))
        r = round(rng.uniform(0.3, 0.8) * R, rng.choice([-3, 0, 1]))
        q = (r / R) * R
        if q > r and len(above) < want:
            above.append((r, R))
        elif q < r and len(below) < want:
            below.append((r, R))
    worst = 0.0
    for kind, pairs in (("above", above), ("below", below)):
        for r, R in pairs:
            for core in ("solid", "liquid"):
                layers = [dict(type=core, R=r, rho=9000.0, mu=(1e11 + 1e9j) if core == "solid" else 0j, K=4e11, static=True, incompressible=False),
                          dict(type="solid", R=R, rho=4000.0, mu=6e10 + 5e9j, K=2e11, static=True, incompressible=False)]
                p = make_planet(layers, n_per_layer=25, r0_frac=1e-2)
                outs = [solve(p, 1.0e-5, degree_l=2, solve_for=("tidal", "loading"), nondimensionalize=nd, use_kamata=True, integration_method="DOP853",
                              integration_rtol=1e-9, integration_atol=1e-12) for nd in (True, False)]
                ck.case(("interface_rounding", kind, r, R, core), True)
                det = {"interface_radius": r, "planet_radius": R, "(r/R)*R - r (ulp)": kind, "core": core}
                if not (outs[0]["success"] and outs[1]["success"]):
                    if outs[0]["success"] != outs[1]["success"]:
                        ck.violation({"clause": "same_love", "changed": "nondim", "what": "interface_rounding"},
                                     "two-layer body (%s core) with interface at %r m, radius %r m: solve succeeds only %s non-dimensionalisation (%s)" % (
                                         core, r, R, "with" if outs[0]["success"] else "without", (outs[1] if outs[0]["success"] else outs[0])["message"][:120]), det)
                    continue
                d = float(np.max(np.abs(outs[0]["love"] - outs[1]["love"])))
                worst = max(worst, d)
                if d > 5e-6:
                    ck.violation({"clause": "same_love", "changed": "nondim", "what": "interface_rounding"},
                                 "two-layer body (%s core) with interface at %r m, radius %r m ((r/R)*R is one ulp %s r): Love numbers with and without non-dimensionalisation differ by %.3g: %s vs %s" % (
                                     core, r, R, kind, d, outs[0]["love"][0].tolist(), outs[1]["love"][0].tolist()), det)
    ck.notes["interface_rounding_worst"] = worst


def run(tier, seed):
    ck = Check("C03", "model_checking", tier, seed)
    rng = random.Random(seed)
    reps, yscale = so.representations(ck)
    reps = reps + expand(reps, variants(tier, rng))
    if tier == "quick":
        # degrees 3 and 4 on the base representation and its non-dimensionalisation flip (the thorough tier expands every single-step
        # representation): Saito-Molodensky and the dimension algebra are degree dependent
        qv = [dict(prob=p_, l=3) for p_ in ("uniform_solid", "two_solid", "liquid_core", "ocean_world")] + [dict(prob="two_solid", l=4), dict(prob="liquid_core", l=4)]
        base_like = [r_ for r_ in reps if tuple(c for c in so.changed(r_) if c not in ("static", "incomp")) in ((), ("nondim",))]
        reps = reps + expand(base_like, qv, max_changes=1)
    outs = so.run_reps(reps)
    so.check_dispatch(ck, "C03", reps, outs)
    so.check_c03(ck, reps, outs, yscale)
    love_extraction(ck)
    interface_rounding(ck, rng, tier)
    ck.cov["traces_validated_against_impl"] = len(reps)
    ck.cov["rule"] = ("every representation reachable in <= 2 changes from the base representation of 4 problems (TLC, %d unique), each one "
                      "real radial_solver call + its 100x-tighter twin; thorough adds degrees 3-4, other frequencies and random uniform bodies" % len(reps))
    ck.assumptions += ["dynamic liquid layers are outside the claim (documented instability): liquid layers of the observed problems are static",
                       "solves whose Love numbers move by more than 1e-6 (1e-5 for RK23) under a 100x tighter tolerance are not 'converged' and are skipped",
                       "Takeuchi start vectors at r0 >= 0.1 x core radius are excluded here: known finding of C04",
                       "tolerances calibrated on the unchanged tree: 5e-6 (+5e-5 RK23 at rtol 1e-7, +1.5e-5 doubled grid)"]
    return ck.finish()


def replay(path):
    import json
    from .. import solver_obs as so
    d = json.load(open(path))
    print(d["desc"][:3000])
    r = d.get("replay") or {}
    rep = r.get("rep") if isinstance(r, dict) and "rep" in r else (r if isinstance(r, dict) and "prob" in r else None)
    if rep:
        out = so.run_reps([dict(rep)], nproc=1)[0]
        print(json.dumps({k: out.get(k) for k in ("status", "love", "tight_shift", "msg")}, indent=1)[:3000])
    return 1
