"""C03 - Love numbers are invariant under representation changes; Saito-Molodensky reciprocity.

Spec: specs/SolverObs.tla - a state is a representation of one physical problem (non-dimensionalise on/off, exact rescaling by
10^s, solve_for sequence, integrator, tolerance level, grid level, start level, start family, static / incompressible
assumption); actions change one coordinate. TLC decides the dimension algebra (scaling exponents of y1..y6 = (-1,0,-1,0,0,-1),
k, h, l dimensionless, G invariant under the rescaling, the non-dimensionalisation divisors), the slot layout, and predicts
the dispatch outcome of every representation. Binding (R): every representation TLC reaches is replayed as one radial_solver
call (plus the same call at a 100x tighter tolerance = the property's convergence filter); predicates: same Love numbers as the
base representation of the same problem (bit-identical when only solve_for changes), k_load = k_tidal - h_tidal, Love numbers
= (y5-1, g y1, g y3) of the rows the slot layout names, y_i scaling exponents measured on the surface and on a mantle slice,
re-dimensionalised radial functions equal with nondimensionalize on/off, inputs restored."""
import random

from .. import solver_obs as so
from ..core import Check


def variants(tier, rng):
    """extra physical problems (thorough): other degrees / frequencies / materials, each with every single-step representation"""
    out = []
    if tier == "quick":
        return out
    for prob in ("uniform_solid", "two_solid", "liquid_core", "solid_liquid_solid"):
        for l in (3, 4):
            out.append(dict(prob=prob, l=l))
        out.append(dict(prob=prob, freq=1.0e-6))
        out.append(dict(prob=prob, l=3, freq=2.0e-4))
    for i in range(6):
        R = 10 ** rng.uniform(5.5, 7.5)
        mu = 10 ** rng.uniform(9.5, 11)
        out.append(dict(prob="uniform_solid", l=rng.choice([2, 3]), material=dict(R=R, rho=rng.uniform(2000, 8000), mu=[mu, mu * 10 ** rng.uniform(-3, -0.5)], K=mu * 10 ** rng.uniform(0.3, 2))))
    return out


def expand(reps, vs, max_changes=1):
    extra = []
    for v in vs:
        for r in reps:
            if r["prob"] != v["prob"]:
                continue
            if len([c for c in so.changed(r) if c not in ("static", "incomp")]) > max_changes:
                continue
            e = dict(r)
            e.update({k: x for k, x in v.items() if k != "prob"})
            extra.append(e)
    return extra


def love_extraction(ck):
    """find_love is exact on small Gaussian integers: (k, h, l) = (y5 - 1, g y1, g y3) (the slot layout SolverObs states)"""
    import numpy as np
    from TidalPy.RadialSolver.love import find_love
    for a in range(-3, 4):
        for b in range(-3, 4):
            ys = np.array([complex(a, b), complex(7, -7), complex(b, -a), complex(5, 5), complex(a + b, a - b), complex(9, 9)], dtype=np.complex128)
            keep = ys.copy()
            for g in (1.0, 2.0, 0.5):
                out = np.full(3, np.nan + 0j, dtype=np.complex128)
                find_love(out, ys, g)
                want = [ys[4] - 1.0, g * ys[0], g * ys[2]]
                ck.case(("find_love", a, b, g), True)
                if list(out) != want or not np.array_equal(ys, keep):
                    ck.violation({"clause": "love_extraction"}, "find_love(y=%s, g=%s) = %s, slots (y5-1, g y1, g y3) = %s" % (list(ys), g, list(out), want), {})


def run(tier, seed):
    ck = Check("C03", "model_checking", tier, seed)
    rng = random.Random(seed)
    reps, yscale = so.representations(ck)
    reps = reps + expand(reps, variants(tier, rng))
    outs = so.run_reps(reps)
    so.check_dispatch(ck, "C03", reps, outs)
    so.check_c03(ck, reps, outs, yscale)
    love_extraction(ck)
    ck.cov["traces_validated_against_impl"] = len(reps)
    ck.cov["rule"] = ("every representation reachable in <= 2 changes from the base representation of 4 problems (TLC, %d unique), each one "
                      "real radial_solver call + its 100x-tighter twin; thorough adds degrees 3-4, other frequencies and random uniform bodies" % len(reps))
    ck.assumptions += ["dynamic liquid layers are outside the claim (documented instability): liquid layers of the observed problems are static",
                       "solves whose Love numbers move by more than 1e-6 (1e-5 for RK23) under a 100x tighter tolerance are not 'converged' and are skipped",
                       "Takeuchi start vectors at r0 >= 0.1 x core radius are excluded here: known finding of C04",
                       "tolerances calibrated on the unchanged tree: 5e-6 (+5e-5 RK23 at rtol 1e-7, +1.5e-5 doubled grid)"]
    return ck.finish()


def replay(path):
    import json
    from .. import solver_obs as so
    d = json.load(open(path))
    print(d["desc"][:3000])
    r = d.get("replay") or {}
    rep = r.get("rep") if isinstance(r, dict) and "rep" in r else (r if isinstance(r, dict) and "prob" in r else None)
    if rep:
        out = so.run_reps([dict(rep)], nproc=1)[0]
        print(json.dumps({k: out.get(k) for k in ("status", "love", "tight_shift", "msg")}, indent=1)[:3000])
    return 1
