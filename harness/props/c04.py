"""C04 - results do not depend on where in a uniform core integration starts, nor on the starting-condition family.

Spec: specs/SolverObs.tla (start level and family are representation coordinates; the dispatch prediction says which
(family, static, incompressible) combinations exist at all). Binding (R): every representation with a changed start level /
family that TLC reaches is solved on the real solver and compared - Love numbers and the radial functions on a mantle slice and
at the surface - with the representation that differs only in (start, family). Direct (P) for the property's equivalent form:
find_starting_conditions differentiated along the radius against the solver's own ODEs (harness/solver_odes.py), and a
smoothness scan along the start radius (finds the branch switch of the shared z(x) helper).
Known findings: the first two Takeuchi-Saito vectors are not solutions of the solver's ODEs (y2, y5 rows; visible in Love
numbers once r0 >= 0.1 x core radius), the Kamata vectors jump by 3e-5 where z(x) switches from its series to its recursion."""
import math
import random

from .. import solver_obs as so
from ..core import Check
from .c03 import expand


def variants(tier, rng):
    out = []
    if tier == "quick":
        return out
    for prob in ("uniform_solid", "two_solid", "liquid_core", "solid_liquid_solid"):
        for l in (3, 4, 6):
            out.append(dict(prob=prob, l=l))
        out.append(dict(prob=prob, freq=1.0e-6))
    for i in range(6):
        R = 10 ** rng.uniform(5.5, 7.5)
        mu = 10 ** rng.uniform(9.5, 11)
        out.append(dict(prob="uniform_solid", l=rng.choice([2, 3, 5]), material=dict(R=R, rho=rng.uniform(2000, 8000), mu=[mu, mu * 10 ** rng.uniform(-3, -0.5)], K=mu * 10 ** rng.uniform(0.3, 2))))
    return out


G = 6.6743e-11


def bodies(tier, rng):
    out = [dict(R=6.0e6, rho=5000.0, K=2.0e11, mu=5.0e10 + 2.0e9j, freq=1.0e-5),
           # the same kind of body in the solver's non-dimensional units (R = 1, rho_bar = 1, G = 1/pi): the starting conditions must use the G they are given
           dict(R=1.0, rho=1.3, K=0.9, mu=0.25 + 0.01j, freq=0.05, G=1.0 / math.pi)]
    for i in range(2 if tier == "quick" else 12):
        mu = 10 ** rng.uniform(9, 11.3)
        out.append(dict(R=10 ** rng.uniform(5, 8), rho=rng.uniform(1000, 10000), K=mu * 10 ** rng.uniform(0.3, 3), mu=complex(mu, mu * 10 ** rng.uniform(-3, 0)),
                        freq=10 ** rng.uniform(-7, -4)))
    return out


def _takeuchi_liquid_arg(freq, r, rho, K, l, G=G):
    """|z| = |k^2 r^2|, the argument of the six-term phi / psi series in starting/takeuchi.pyx (liquid, dynamic, compressible)"""
    gamma = 4.0 * math.pi * G * rho / 3.0
    w2 = freq * freq
    k2 = (rho / K) * (w2 + 4.0 * gamma - l * (l + 1.0) * gamma * gamma / w2)
    return abs(k2 * r * r)


def start_vector_lattice(ck, tier, rng):
    """C04's equivalent form: every starting vector is a regular solution of the solver's own differential equations
    (harness/solver_odes.py, transcribed from derivatives/odes.pyx): d s_i/dr - A(r) s_i has no component outside span{s_1,s_2,s_3}."""
    from .. import solver_odes as so_
    worst = {}
    for b in bodies(tier, rng):
        for kam in (True, False):
            for static, incomp in ((False, False), (True, False), (False, True)):
                if incomp and not kam:
                    continue                      # dispatch: NotImplementedError (checked by the representation replay)
                for l in ((2, 3, 5) if tier == "quick" else (2, 3, 4, 5, 7, 10)):
                    for frac in so.START_LEVELS + [0.03, 0.25]:
                        res = so_.ode_residual(static, incomp, kam, b["freq"], frac * b["R"], b["rho"], b["K"], b["mu"], l, b.get("G", G))
                        fam = "kamata" if kam else "takeuchi"
                        for i, x in enumerate(res):
                            ck.case(("ode", fam, static, incomp, l, frac, i, b["R"]), True)
                            worst[(fam, i)] = max(worst.get((fam, i), 0.0), x)
                            # exact families give ~1e-10 (finite differences); 1e-4 leaves room for the z(x) branch jump,
                            # which is reported by its own clause below
                            if not x <= 1e-4:
                                # a stencil that straddles a DISCONTINUITY of the vectors (the z(x) branch switch) gives a residual that
                                # grows like 1/h; a vector that is not a solution gives an h-independent one
                                x_small_h = so_.ode_residual(static, incomp, kam, b["freq"], frac * b["R"], b["rho"], b["K"], b["mu"], l, b.get("G", G), h_rel=5e-4)[i]
                                if x_small_h >= 2.5 * x or x_small_h <= 0.2 * x:
                                    ck.violation({"clause": "start_vector_jump", "family": fam, "static": static, "incomp": incomp},
                                                 "%s starting vectors (static=%s, incompressible=%s, l=%d) are discontinuous in r near r0/R = %g: finite-difference ODE residual %.3g at h = 2e-3 r, %.3g at h = 5e-4 r" % (
                                                     fam, static, incomp, l, frac, x, x_small_h), dict(body={k: str(v) for k, v in b.items()}, l=l, r0_over_R=frac, family=fam))
                                    continue
                                ck.violation({"clause": "start_vector_ode", "family": fam, "solution": i, "static": static, "incomp": incomp},
                                             "%s starting vector %d (static=%s, incompressible=%s, l=%d, r0/R=%g) is not a solution of the solver's ODEs: the part of ds/dr - A s outside the span of the three start vectors is %.3g of |A s|" % (
                                                 fam, i, static, incomp, l, frac, x), dict(body={k: str(v) for k, v in b.items()}, l=l, r0_over_R=frac, family=fam, static=static, incompressible=incomp))
        # liquid innermost layers: Saito's static vector (any family), Kamata / Takeuchi dynamic vectors
        for static, incomp, kam in ((True, False, True), (True, True, False), (False, False, True), (False, True, True), (False, False, False)):
            for l in ((2, 3, 4, 7) if tier == "quick" else (2, 3, 4, 5, 6, 7, 10)):
                for frac in (1e-3, 0.03, 0.25):
                    fq = b["freq"] if (static or "G" in b) else max(b["freq"], 3e-4)
                    res = so_.ode_residual_liquid(static, incomp, kam, fq, frac * b["R"], b["rho"], b["K"], l, b.get("G", G))
                    fam = ("saito" if static else ("kamata" if kam else "takeuchi")) + "_liquid"
                    for i, x in enumerate(res):
                        ck.case(("ode_liquid", fam, static, incomp, l, frac, i, b["R"]), True)
                        worst[(fam, i)] = max(worst.get((fam, i), 0.0), x)
                        if not x <= 1e-4:
                            ck.violation({"clause": "start_vector_ode", "family": fam, "solution": i, "static": static, "incomp": incomp, "series_argument_above_0.3": bool(_takeuchi_liquid_arg(fq, frac * b["R"], b["rho"], b["K"], l, b.get("G", G)) > 0.3)},
                                         "%s starting vector %d (static=%s, incompressible=%s, l=%d, r0/R=%g) is not a solution of the solver's liquid-layer ODEs (residual outside the span %.3g)" % (fam, i, static, incomp, l, frac, x),
                                         dict(body={k: str(v) for k, v in b.items()}, l=l, r0_over_R=frac, family=fam, static=static, incompressible=incomp))
    ck.notes["start_vector_ode_worst"] = {"%s/%d" % k: v for k, v in worst.items()}


def start_vector_smoothness(ck, tier):
    """a regular solution is an analytic function of the start radius: fourth differences along a log-spaced radius scan"""
    import numpy as np
    from .. import solver_odes as so_
    b = dict(R=6.0e6, rho=5000.0, K=2.0e11, mu=5.0e10 + 2.0e9j, freq=1.0e-5)
    n = 1500 if tier == "quick" else 6000
    for kam in (True, False):
        for static, incomp in ((False, False), (True, False), (False, True)):
            if incomp and not kam:
                continue
            for l in (2, 3):
                rs = np.exp(np.linspace(np.log(1e-3 * b["R"]), np.log(0.5 * b["R"]), n))
                Y = np.array([so_.start_vectors(0, static, incomp, kam, b["freq"], r, b["rho"], b["K"], b["mu"], l, G) for r in rs])
                sc = np.abs(Y[2:-2]) + 1e-300
                d4 = np.abs(Y[4:] - 4 * Y[3:-1] + 6 * Y[2:-2] - 4 * Y[1:-3] + Y[:-4]) / sc
                d4 = np.where(np.abs(Y[2:-2]) == 0.0, 0.0, d4).reshape(len(d4), -1).max(axis=1)
                med = float(np.median(d4))
                i = int(np.argmax(d4))
                fam = "kamata" if kam else "takeuchi"
                ck.case(("smooth", fam, static, incomp, l), True)
                ck.notes.setdefault("start_vector_smoothness", {})["%s/%s/%s/l%d" % (fam, static, incomp, l)] = {"max_d4": float(d4[i]), "at_r_over_R": float(rs[i + 2] / b["R"]), "median_d4": med}
                if d4[i] > max(100 * med, 1e-7):
                    ck.violation({"clause": "start_vector_jump", "family": fam, "static": static, "incomp": incomp},
                                 "%s starting vectors (static=%s, incompressible=%s, l=%d) jump by %.3g (relative; smooth level %.1g) at r0/R = %.4g: not one analytic solution across that radius" % (
                                     fam, static, incomp, l, d4[i], med, rs[i + 2] / b["R"]), dict(family=fam, static=static, incompressible=incomp, l=l, r_over_R=float(rs[i + 2] / b["R"])))


def run(tier, seed):
    ck = Check("C04", "model_checking", tier, seed)
    rng = random.Random(seed)
    reps, yscale = so.representations(ck)
    sel = [r for r in reps if {"start", "family"} & set(so.changed(r)) or not [c for c in so.changed(r) if c not in ("static", "incomp")] or set(so.changed(r)) <= {"static", "incomp", "integ", "tol", "scale", "nondim", "grid", "solveFor"}]
    sel = sel + expand(sel, variants(tier, rng), max_changes=2)
    outs = so.run_reps(sel)
    so.check_dispatch(ck, "C04", sel, outs)
    so.check_c04(ck, sel, outs)
    start_vector_lattice(ck, tier, rng)
    start_vector_smoothness(ck, tier)
    ck.cov["traces_validated_against_impl"] = len(sel)
    ck.cov["rule"] = "start-vector ODE residuals over families x assumptions x l x r0/R x bodies; smoothness scan; start level in {1e-4,1e-3,1e-2,0.1,0.4} x core radius, family in {kamata, takeuchi}, combined with one other representation change (TLC graph), 4 problems"
    ck.assumptions += ["liquid cores are static (Saito start); dynamic liquid cores are outside the claim at these frequencies",
                       "converged solves only (100x tighter tolerance moves k,h,l by <= 1e-6)"]
    return ck.finish()


def replay(path):
    import json
    from .. import solver_obs as so
    d = json.load(open(path))
    print(d["desc"][:3000])
    r = d.get("replay") or {}
    rep = r.get("rep") if isinstance(r, dict) and "rep" in r else (r if isinstance(r, dict) and "prob" in r else None)
    if rep:
        out = so.run_reps([dict(rep)], nproc=1)[0]
        print(json.dumps({k: out.get(k) for k in ("status", "love", "tight_shift", "msg")}, indent=1)[:3000])
    return 1
