"""C13 - object-oriented world/orbit state is history-independent (and C17's orbit-history clause).

Spec: specs/WorldTides.tla. TLC checks C13_Fresh / C17_Kepler / SyncHolds over the complete state graph of the repaired
cascade (4 configurations) and must find the counterexample in the 'as found' cascade (negative control).
Binding (R): TLC behaviours (simulation walks; in the thorough tier also a transition cover of the dumped state graph)
are replayed call by call on real world/orbit objects; after every call every exposed derived quantity must equal what a
freshly built world placed directly in the spec state reports, and the functional API at that state."""
import json
import os
import random
import subprocess
import time

from .. import core, tlaval
from ..core import Check, MachineryError, run_tlc, scratch, PY, VERIF

CONFIGS = [(s, o) for s in (False, True) for o in (False, True)]


def cfgname(sync, obl, fixed=True, deferred=False):
    return "WorldTides_s%s_o%s_%s.cfg" % (str(sync).upper(), str(obl).upper(), "deferred" if deferred else ("fixed" if fixed else "asis"))


def spec_state(st):
    return [st["e"], st["obl"], st["orb"], st["spin"], st["q"], 1 if st.get("pending") else 0]


def parse_params(args):
    if args in (None, ""):
        return []
    return list(tlaval.parse_value("<<" + args + ">>"))


def behaviours_from_sim(sync, obl, num, depth, seed, deferred=False):
    wd = scratch("c13sim")
    os.makedirs(os.path.join(wd, "sim"))
    r = run_tlc("WorldTides", cfgname(sync, obl, deferred=deferred), workdir=wd, workers=1, timeout=900, depth=depth,
                simulate="file=%s,num=%d" % (os.path.join(wd, "sim", "b"), num), seed=seed)
    behs = []
    for f in sorted(os.listdir(os.path.join(wd, "sim"))):
        b = tlaval.parse_sim_file(os.path.join(wd, "sim", f))
        beh = []
        for act, args, st in b:
            beh.append(["Init" if act in ("Init", "Initial") or not beh else act, parse_params(args) if beh else [], spec_state(st)])
        if beh:
            behs.append(beh)
    return behs


def behaviours_from_graph(ck, sync, obl, rng, max_edges):
    return graph_walks(ck, "WorldTides", cfgname(sync, obl), spec_state, rng, max_edges, "sync=%s,obl=%s" % (sync, obl))


def graph_walks(ck, module, cfg, spec_state, rng, max_edges, label):
    """Transition cover of the complete state graph (every distinct (state, action instance) pair at least once,
    up to max_edges sampled uniformly when the graph is larger), as long walks."""
    wd = scratch("dot")
    dot = os.path.join(wd, "g.dot")
    r = run_tlc(module, cfg, workdir=wd, timeout=1800, dump_dot=dot)
    nodes, inits, edges = tlaval.parse_dot(dot)
    ck.notes.setdefault("graphs", {})[label] = {"nodes": len(nodes), "edges": len(edges)}
    out = {}
    for s, d, lab in edges:
        out.setdefault(s, []).append((d, lab))
    init = next(iter(inits))
    # BFS tree for shortest paths from init
    par = {init: None}
    order = [init]
    for u in order:
        for d, lab in out.get(u, []):
            if d not in par:
                par[d] = (u, lab)
                order.append(d)
    alle = [(s, d, lab) for s, d, lab in edges]
    if len(alle) > max_edges:
        alle = rng.sample(alle, max_edges)
    todo = {}
    for s, d, lab in alle:
        todo.setdefault(s, []).append((d, lab))
    lab_re = __import__("re").compile(r'^(\w+)(?:\((.*)\))?$')
    # condensed adjacency (one representative label per neighbour) for routing between states
    nbr = {}
    for s, d, lab in edges:
        nbr.setdefault(s, {}).setdefault(d, lab)

    def step(lab, d):
        m = lab_re.match(lab)
        return [m.group(1), parse_params(m.group(2)), spec_state(nodes[d])]

    def route(src):
        """shortest path (list of (dst, label)) from src to the nearest state that still has untaken edges"""
        if src in todo:
            return []
        prev = {src: None}
        q = [src]
        for u in q:
            for d, lab in nbr.get(u, {}).items():
                if d not in prev:
                    prev[d] = (u, lab)
                    if d in todo:
                        path = []
                        while prev[d] is not None:
                            u2, l2 = prev[d]
                            path.append((d, l2))
                            d = u2
                        return path[::-1]
                    q.append(d)
        return None

    def from_init(s):
        path = []
        u = s
        while par[u] is not None:
            pu, lab = par[u]
            path.append(step(lab, u))
            u = pu
        return [["Init", [], spec_state(nodes[init])]] + path[::-1]

    behs = []
    cur = init
    beh = from_init(init)
    maxlen = 300
    while todo:
        r = route(cur)
        if r is None:
            # nothing reachable from here: start a new behaviour at a state that still has untaken edges
            behs.append(beh)
            cur = next(iter(todo))
            beh = from_init(cur)
            continue
        for d, lab in r:
            beh.append(step(lab, d))
            cur = d
        d, lab = todo[cur].pop()
        if not todo[cur]:
            del todo[cur]
        beh.append(step(lab, d))
        cur = d
        if len(beh) >= maxlen:
            behs.append(beh)
            beh = from_init(cur)
    if len(beh) > 1:
        behs.append(beh)
    return behs


def warm_numba(jobs):
    """A fresh numba cache directory (the repo changed) must not be populated by 16 processes at once: concurrent
    first-time compilation was seen to leave broken cache entries (IndexError inside jitted code). Every type signature the
    drivers use (CPL/CTL x obliquity on/off x scalar/array/mixed/in-place) is compiled once, serially, into the shared
    cache; the parallel drivers then work on private copies of it."""
    shared = os.environ.get("NUMBA_CACHE_DIR")
    stamp = os.path.join(shared, ".warm_world_driver") if shared else None
    if not jobs or (stamp and os.path.exists(stamp)):
        return
    seen = set()
    for j in jobs:
        for g in j.get("groups") or [{"form": j["form"], "behaviours": j["behaviours"]}]:
            key = (j["config"]["ctl"], j["config"]["obl_on"], g["form"])
            if key in seen or not g["behaviours"]:
                continue
            seen.add(key)
            _run_jobs([{"config": j["config"], "form": g["form"], "behaviours": [g["behaviours"][0][:6]]}], parallel=1)
    if stamp:
        open(stamp, "w").write("ok")


def run_jobs(jobs):
    warm_numba(jobs)
    return _run_jobs(jobs, parallel=core.NCPU)


def _run_jobs(jobs, parallel):
    wd = scratch("c13jobs")
    procs = []
    for i, job in enumerate(jobs):
        p = os.path.join(wd, "job%d.json" % i)
        json.dump(job, open(p, "w"))
        procs.append((p, job))
    running = []
    results = []
    env = dict(os.environ, PYTHONPATH=core.pythonpath(), PYTHONHASHSEED="0", NUMBA_NUM_THREADS="1", OMP_NUM_THREADS="1")
    pending = list(procs)
    while pending or running:
        while pending and len(running) < parallel:
            p, job = pending.pop(0)
            lf = open(p + ".log", "w")
            env = dict(env, NUMBA_CACHE_DIR=core.private_numba_cache(os.path.basename(p)) if parallel > 1 else os.environ.get("NUMBA_CACHE_DIR", ""))
            running.append((subprocess.Popen([PY, "-m", "harness.world_driver", p], cwd=VERIF, env=env,
                                             stdin=subprocess.DEVNULL, stdout=lf, stderr=subprocess.STDOUT), p, job, time.time()))
        for item in list(running):
            pr, p, job, t0 = item
            if pr.poll() is not None:
                running.remove(item)
                if pr.returncode != 0 or not os.path.exists(p + ".out.json"):
                    raise MachineryError("world_driver failed (rc=%s): %s" % (pr.returncode, open(p + ".log").read()[-1500:]))
                results.append((job, json.load(open(p + ".out.json"))))
            elif time.time() - t0 > 3000:
                pr.kill()
                raise MachineryError("world_driver timeout")
        time.sleep(0.05)
    return results


def model_check(ck):
    for sync, obl in CONFIGS:
        r = run_tlc("WorldTides", cfgname(sync, obl), coverage=True, timeout=900)
        ck.add_tlc(r, "WorldTides repaired cascade sync=%s obl=%s (complete graph)" % (sync, obl))
        zero = [a for a, (d, t) in r.coverage.items() if t == 0 and a not in ("WorldSetSpin",) and not a.endswith("Deferred")]
        if zero:
            raise MachineryError("vacuity: actions never taken: %s" % zero)
        rd = run_tlc("WorldTides", cfgname(sync, obl, deferred=True), coverage=True, timeout=900)
        ck.add_tlc(rd, "WorldTides with deferred (call_updates=False) setters sync=%s obl=%s" % (sync, obl))
        rr = run_tlc("WorldTides", cfgname(sync, obl, fixed=False), expect_violation=True, timeout=600)
        if rr.violated != "C13_Fresh":
            raise MachineryError("negative control (as-found cascade) not violated: %s" % rr.violated)
        ck.notes.setdefault("negative_controls_model", {})[cfgname(sync, obl, False)] = [a.split(" line")[0] for a, _ in rr.trace]


def classify(job, bad):
    """key for known-findings matching: which call path left which quantity stale."""
    mm = bad["mismatch"][0]
    return {"config": ("ctl_with_q" if job["config"]["ctl"] == "withq" else "ctl") if job["config"]["ctl"] else "cpl", "action": bad["act"], "kind": mm.get("kind"),
            "what": mm["what"]}


# ---------------------------------------------------------------------------------------------------------------------
# layered tidal model + temperature (specs/LayeredTides.tla, harness/layered_driver.py)
# ---------------------------------------------------------------------------------------------------------------------
def layered_state(st):
    tm = st["tm"]
    tw = st.get("tw")
    per_layer = [list(x) if x else [] for x in tm]          # tm is a function over the tidal layers
    return [st["e"], st["obl"], st["orb"], st["spin"], per_layer, tw if isinstance(tw, int) else []]


def layered_part(ck, tier, rng):
    jobs = []
    for neg in ("no_compl_on_freq", "no_collapse_on_strength"):
        rn = run_tlc("LayeredTides", "LayeredTides_neg_%s.cfg" % neg, expect_violation=True, timeout=600)
        if rn.ok or rn.violated != "C13_Fresh_Layered":
            raise MachineryError("negative control LayeredTides/%s not rejected (violated=%s)" % (neg, rn.violated))
        ck.notes.setdefault("negative_controls_model", {})["LayeredTides_" + neg] = [str(a).split(" line")[0] for a, _ in rn.trace]
    for sync, obl in CONFIGS:
        cfg = "LayeredTides_s%s_o%s.cfg" % (str(sync).upper(), str(obl).upper())
        r = run_tlc("LayeredTides", cfg, coverage=True, timeout=900)
        ck.add_tlc(r, "LayeredTides cascade (layered model + temperature / strength) sync=%s obl=%s (complete graph)" % (sync, obl))
        if not r.ok:
            ck.violation({"clause": "layered_model", "invariant": r.violated}, "TLC: %s violated on LayeredTides (%s)" % (r.violated, cfg), {"trace": [str(t)[:1500] for t in (r.trace or [])]})
            continue
        zero = [a for a, (d, t) in r.coverage.items() if t == 0 and not (sync and a == "WorldSetSpin")]
        if zero:
            raise MachineryError("vacuity: LayeredTides actions never taken: %s" % zero)
        behs = graph_walks(ck, "LayeredTides", cfg, layered_state, rng, (300 if sync else 500) if tier == "quick" else 10 ** 9, "layered sync=%s,obl=%s" % (sync, obl))
        nchunk = 1 if tier == "quick" else 4
        for i in range(nchunk):
            part = behs[i::nchunk]
            if part:
                jobs.append({"sync": sync, "obl_on": obl, "behaviours": part})
    # two tidally active layers (earth_simple): each with its own temperature / strength; nothing is exposed until both are set
    r2 = run_tlc("LayeredTides", "LayeredTides_2layers.cfg", coverage=True, timeout=900)
    ck.add_tlc(r2, "LayeredTides with two tidal layers (complete graph)")
    if not r2.ok:
        ck.violation({"clause": "layered_model", "invariant": r2.violated}, "TLC: %s violated on LayeredTides_2layers" % r2.violated, {"trace": [str(t)[:1500] for t in (r2.trace or [])]})
    else:
        b2 = graph_walks(ck, "LayeredTides", "LayeredTides_2layers.cfg", layered_state, rng, 600 if tier == "quick" else 10 ** 9, "layered 2 tidal layers")
        nchunk = 1 if tier == "quick" else 6
        for i in range(nchunk):
            if b2[i::nchunk]:
                jobs.append({"sync": True, "obl_on": True, "nlayers": 2, "behaviours": b2[i::nchunk]})
    if not jobs:
        return
    wd = scratch("c13layered")
    procs = []
    env = dict(os.environ, PYTHONPATH=core.pythonpath(), PYTHONHASHSEED="0", NUMBA_NUM_THREADS="1", OMP_NUM_THREADS="1")
    neg = dict(jobs[0], behaviours=jobs[0]["behaviours"][:1], sabotage=True)
    for i, job in enumerate(jobs + [neg]):
        p = os.path.join(wd, "ljob%d.json" % i)
        json.dump(job, open(p, "w"))
        e2 = dict(env, NUMBA_CACHE_DIR=core.private_numba_cache("l%d" % i))
        procs.append((subprocess.Popen([PY, "-m", "harness.layered_driver", p], cwd=VERIF, env=e2, stdin=subprocess.DEVNULL,
                                       stdout=open(p + ".log", "w"), stderr=subprocess.STDOUT), p, job))
    nsteps = 0
    for pr, p, job in procs:
        try:
            pr.wait(timeout=3000)
        except subprocess.TimeoutExpired:
            pr.kill()
            raise MachineryError("layered_driver timeout")
        if pr.returncode != 0 or not os.path.exists(p + ".out.json"):
            raise MachineryError("layered_driver failed (rc=%s): %s" % (pr.returncode, open(p + ".log").read()[-1500:]))
        res = json.load(open(p + ".out.json"))
        if job.get("sabotage"):
            if not any(s["mismatch"] for s in res["results"][0]):
                raise MachineryError("layered binding self-test failed: a replay with a skipped call was not detected")
            ck.notes["negative_control_layered_replay"] = "a behaviour replayed with one real call skipped diverged"
            continue
        for beh, steps in zip(job["behaviours"], res["results"]):
            nsteps += len(steps)
            ck.cov["traces_validated_against_impl"] += 1
            for st in beh[:len(steps)]:
                ck.case(("layered", job["sync"], job["obl_on"], st[0], tuple(map(str, st[1])), json.dumps(st[2])), nontrivial=st[0] != "Init")
            softs = [s_ for s_ in steps if s_.get("soft")]
            if softs:
                b0 = softs[0]
                ck.violation({"config": "layered", "kind": "thermal_feedback", "what": "surface_temperature_cooling_pair"},
                             "layered world sync=%s obliquity=%s after %d calls (%s%s): surface temperature / top-layer cooling differ from a freshly built world placed in the same state (%s): the feedback between them is evaluated one step per update, so the pair depends on the order and number of updates" % (
                                 job["sync"], job["obl_on"], b0["k"], b0["act"], b0["params"], "; ".join("%s got=%s fresh=%s" % (m["what"], str(m.get("got"))[:40], str(m.get("fresh", m.get("keys")))[:40]) for m in b0["soft"][:3])),
                             {"sync": job["sync"], "obl_on": job["obl_on"], "behaviour": beh[:b0["k"] + 1], "soft": b0["soft"]})
            bad = [s for s in steps if s["mismatch"]]
            if bad:
                b = bad[0]
                mm = b["mismatch"][0]
                ck.violation({"config": "layered", "action": b["act"], "kind": mm.get("kind"), "what": mm["what"]},
                             "layered world sync=%s obliquity=%s after %d calls, %s%s: %s" % (job["sync"], job["obl_on"], b["k"], b["act"], b["params"],
                                 "; ".join("%s got=%s fresh=%s%s" % (m["what"], str(m.get("got"))[:60], str(m.get("fresh", m.get("detail")))[:60],
                                                                       (" [value of state %s]" % m["value_belongs_to_state"]) if m.get("value_belongs_to_state") else "") for m in b["mismatch"][:3])),
                             {"sync": job["sync"], "obl_on": job["obl_on"], "behaviour": beh[:b["k"] + 1], "mismatch": b["mismatch"]})
    ck.notes["layered_replayed_steps"] = nsteps
    ck.assumptions.append("layered model: io_simple (tidal mantle, non-tidal core) around jupiter/sol, two value ids per input, mantle temperature {1500, 1650} K or strength set directly; fresh reference built twice (thermal state first / orbital state first), both must agree")


STELLAR_ASFOUND = [("moon_asfound_physics", "TypeOK"), ("moon_asfound_base", "SettersStore"), ("star_asfound_physics", "TypeOK"), ("star_asfound_stale", "C13_InsolationFresh")]


def stellar_part(ck, tier, seed):
    """specs/StellarOrbit.tla: stellar distance / eccentricity -> insolation heating -> surface temperature, for a moon system
    (the stellar orbit belongs to the tidal host) and with the star as host (the world's own orbit is the stellar orbit)."""
    for name, inv in STELLAR_ASFOUND:
        rn = run_tlc("StellarOrbit", "StellarOrbit_%s.cfg" % name, expect_violation=True, timeout=300, workers=2)
        if rn.ok or rn.violated != inv:
            raise MachineryError("StellarOrbit_%s (cascade as found): expected %s to be violated, got %s" % (name, inv, rn.violated))
        ck.notes.setdefault("negative_controls_model", {})["StellarOrbit_" + name] = "%s violated" % inv
    groups = []
    nb = 14 if tier == "quick" else 150
    for cfg, shapes in (("moon", [("moon", "scalar"), ("moon_ga", "array"), ("moon_ga", "scalar")]), ("star", [("star", "scalar"), ("star", "array"), ("star_layered", "scalar")])):
        r = run_tlc("StellarOrbit", "StellarOrbit_%s.cfg" % cfg, coverage=True, timeout=300, workers=4)
        ck.add_tlc(r, "StellarOrbit (%s): stellar orbit -> insolation -> surface temperature (complete graph)" % cfg)
        if not r.ok:
            ck.violation({"clause": "stellar_model", "invariant": r.violated}, "TLC: %s violated on StellarOrbit_%s" % (r.violated, cfg), {"trace": [str(t)[:1500] for t in (r.trace or [])]})
            continue
        zero = [a for a, (d, t) in r.coverage.items() if t == 0]
        if zero:
            raise MachineryError("vacuity: StellarOrbit actions never taken: %s" % zero)
        for k, (shape, form) in enumerate(shapes):
            wd = scratch("sosim")
            os.makedirs(os.path.join(wd, "sim"))
            run_tlc("StellarOrbit", "StellarOrbit_%s.cfg" % cfg, workdir=wd, workers=1, timeout=300, depth=10,
                    simulate="file=%s,num=%d" % (os.path.join(wd, "sim", "b"), nb), seed=seed * 7 + k + 1)
            behs = []
            for f in sorted(os.listdir(os.path.join(wd, "sim"))):
                b = tlaval.parse_sim_file(os.path.join(wd, "sim", f))
                if b:
                    behs.append([[list(st["last"]), {x: st[x] for x in ("wa", "we", "sd", "se", "ins")}] for _a, _g, st in b])
            if not behs:
                raise MachineryError("no StellarOrbit behaviours")
            groups.append({"shape": shape, "form": form, "behaviours": behs})
    if not groups:
        return

    def drive(grps, sabotage=False):
        out = scratch("sojob")
        jf = os.path.join(out, "job.json")
        json.dump({"groups": grps, "sabotage": sabotage}, open(jf, "w"))
        p = core.run_py(["-m", "harness.stellar_driver", jf], timeout=3000, env={"NUMBA_NUM_THREADS": "1", "OMP_NUM_THREADS": "1"})
        if p.returncode != 0 or not os.path.exists(jf + ".out.json"):
            raise MachineryError("stellar_driver failed: %s" % (p.stderr or "")[-1200:])
        return json.load(open(jf + ".out.json"))
    res = drive(groups)
    for g in groups:
        for b in g["behaviours"]:
            ck.cov["traces_validated_against_impl"] += 1
            for lab, st in b:
                ck.case(("stellar", g["shape"], g["form"], json.dumps(lab), json.dumps(st, sort_keys=True)), nontrivial=lab[0] != "Init")
    for v in res["results"]:
        g = groups[v["group"]]
        what = v["problems"][0][0]
        ck.violation({"config": "stellar", "shape": v["shape"], "action": v["label"][0], "what": what.split("_")[0]},
                     "stellar orbit (%s, %s values) after %s: %s (history: %s)" % (v["shape"], v["form"], v["label"], "; ".join("%s: %s" % (a, b[:160]) for a, b in v["problems"][:3]), v["prefix"]),
                     {"kind": "stellar", "shape": v["shape"], "form": v["form"], "behaviour": g["behaviours"][v["behaviour"]][:v["step"] + 1], "problems": v["problems"]})
    neg = drive([dict(groups[0], behaviours=[next(b for b in groups[0]["behaviours"] if any(x[0][0].startswith("SetStellar") and x[1] != y[1] for x, y in zip(b[1:], b)))])], sabotage=True)
    if not neg["results"]:
        raise MachineryError("stellar binding self-test failed: a skipped stellar setter went unnoticed")
    ck.notes["stellar_part"] = {"behaviours": sum(len(g["behaviours"]) for g in groups), "steps_replayed": res["steps"],
                                "shapes": sorted({"%s/%s" % (g["shape"], g["form"]) for g in groups}),
                                "oracle": "getters vs the values of the state's ids; insolation vs equilibrium_insolation_func(L, d, albedo, R, e); surface temperature vs calc_equilibrium_temperature(insolation, R, internal heating, emissivity); rel. 1e-11",
                                "negative_control": "a skipped stellar setter is reported (%s)" % neg["results"][0]["problems"][0][0]}
    ck.assumptions.append("stellar side: sol/jupiter/io_simple (layered and global-approximation variants) and 55cnc/earth (star as host), three value ids per quantity, scalar and array values")


def dual_host_part(ck, tier, seed):
    """specs/DualHost.tla: a tidally active non-stellar host + a tidally active moon: every change of the moon's orbit must reach the
    HOST's derived quantities too, a change of either spin the orbit's dual-body derivatives (inside C13's statement)."""
    r = run_tlc("DualHost", "DualHost.cfg", coverage=True, timeout=300, workers=4)
    ck.add_tlc(r, "DualHost complete graph to depth 6")
    if not r.ok:
        raise MachineryError("DualHost: %s violated" % r.violated)
    rn = run_tlc("DualHost", "DualHost_neg.cfg", timeout=300, workers=4, expect_violation=True)
    if rn.ok or rn.violated != "C13_HostFresh":
        raise MachineryError("DualHost_neg: expected C13_HostFresh to be violated, got %s" % rn.violated)
    wd = scratch("dualsim")
    os.makedirs(os.path.join(wd, "sim"))
    nb = 24 if tier == "quick" else 240
    run_tlc("DualHost", "DualHost_sim.cfg", workdir=wd, workers=1, timeout=600, depth=12,
            simulate="file=%s,num=%d" % (os.path.join(wd, "sim", "b"), nb), seed=seed + 11)
    behs = []
    for f in sorted(os.listdir(os.path.join(wd, "sim"))):
        b = tlaval.parse_sim_file(os.path.join(wd, "sim", f))
        if b:
            behs.append([[list(st["last"]), {k: st[k] for k in ("per", "ecc", "hspin", "mspin")}] for _a, _g, st in b])
    acts = {x[0][0] for b in behs for x in b}
    if not {"SetE", "SetP", "SetBoth", "HostSpin", "MoonSpin"} <= acts:
        raise MachineryError("vacuity: DualHost behaviours lack %s" % ({"SetE", "SetP", "SetBoth", "HostSpin", "MoonSpin"} - acts))

    def drive(bb, sabotage=False):
        out = scratch("dualjob")
        jf = os.path.join(out, "job.json")
        json.dump({"behaviours": bb, "sabotage": sabotage}, open(jf, "w"))
        p = core.run_py(["-m", "harness.dual_host_driver", jf], timeout=3000, env={"NUMBA_NUM_THREADS": "1", "OMP_NUM_THREADS": "1"})
        if p.returncode != 0 or not os.path.exists(jf + ".out.json"):
            raise MachineryError("dual_host_driver failed: %s" % (p.stderr or "")[-1200:])
        return json.load(open(jf + ".out.json"))
    res = drive(behs)
    for b in behs:
        ck.cov["traces_validated_against_impl"] += 2
        for lab, st in b:
            ck.case(("dual-host", json.dumps(lab), json.dumps(st, sort_keys=True)), lab[0] != "Init")
    for v in res["results"]:
        ck.violation({"clause": "dual_host_fresh", "action": v["label"][0], "path": v["label"][-1] if len(v["label"]) > 2 else None, "what": v["problems"][0][0].split(".")[0]},
                     "dual-body system (ctl=%s) after %s: %s (history: %s)" % (v["ctl"], v["label"], "; ".join("%s %s" % (a, b[:160]) for a, b in v["problems"][:3]), v.get("prefix")),
                     {"kind": "dual_host", "ctl": v["ctl"], "behaviour": behs[v["behaviour"]][:v["step"] + 1], "problems": v["problems"]})
    negb = next((b for b in behs if any(x[0][0] == "SetE" and x[1] != y[1] for x, y in zip(b[1:], b))), None)
    if negb is None:
        raise MachineryError("no DualHost behaviour with an effective SetE for the negative control")
    neg = drive([negb], sabotage=True)
    if not neg["results"]:
        raise MachineryError("dual-host binding self-test failed: a skipped eccentricity update went unnoticed")
    ck.notes["dual_host"] = {"behaviours": 2 * len(behs), "steps_replayed": res["steps"], "negative_control_model": "DualHost_neg.cfg violates C13_HostFresh",
                             "negative_control_binding": "a skipped SetE is reported (%s)" % neg["results"][0]["problems"][0][0]}


def run(tier, seed, pid="C13"):
    ck = Check(pid, "model_checking", tier, seed)
    rng = random.Random(seed)
    model_check(ck)
    jobs = []
    nsim, depth = (24, 30) if tier == "quick" else (150, 40)
    forms = ["scalar", "array", "mixed", "inplace"]
    for sync, obl in CONFIGS:
        behs = behaviours_from_sim(sync, obl, nsim * 2 * 4, depth, seed + 7)
        # complete transition cover of the dumped state graph: sync configs (50k edges) in both tiers, sampled in quick;
        # the non-sync graphs (1.2M edges) only in the thorough tier
        gb = []
        if sync or tier == "thorough":
            gb = behaviours_from_graph(ck, sync, obl, rng, 2500 if tier == "quick" else 10 ** 9)
        dbehs = behaviours_from_sim(sync, obl, nsim * 2, depth, seed + 13, deferred=True)
        for ci, ctl in enumerate((False, True)):
            jobs.append({"config": {"sync": sync, "obl_on": obl, "ctl": ctl}, "form": ["scalar", "array"][ci], "behaviours": dbehs[ci::2]})
        # the CTL law whose inputs are fixed_dt AND fixed_q: behaviours that contain fixed-Q changes, scalar form
        wq = [b for b in behs if any(st[0] == "SetQ" for st in b)]
        jobs.append({"config": {"sync": sync, "obl_on": obl, "ctl": "withq"}, "form": "scalar", "behaviours": (wq[:12] if tier == "quick" else wq[:150]) + dbehs[:4]})
        k = 0
        for ctl in (False, True):
            for form in forms:
                if tier == "quick" and form not in (("scalar", "inplace") if not ctl else ("scalar", "mixed")):
                    k += 1
                    continue            # quick tier: CPL scalar + in-place arrays, CTL scalar + mixed; thorough: all four forms
                part = behs[k::8]
                # the graph cover is replayed in scalar form for CPL and CTL; array/mixed forms get the simulated walks
                if form == "scalar":
                    part = part + gb
                k += 1
                # split big jobs
                chunk = 400
                for i in range(0, len(part), chunk):
                    jobs.append({"config": {"sync": sync, "obl_on": obl, "ctl": ctl}, "form": form,
                                 "behaviours": part[i:i + chunk]})
    # one process per configuration: merge the per-form job lists into groups
    merged = {}
    for j in jobs:
        key = json.dumps(j["config"], sort_keys=True)
        merged.setdefault(key, {"config": j["config"], "groups": []})["groups"].append({"form": j["form"], "behaviours": j["behaviours"]})
    jobs = []
    for m in merged.values():
        # split very large configurations in two processes
        gs = sorted(m["groups"], key=lambda g: -sum(len(b) for b in g["behaviours"]))
        half = [gs[0::2], gs[1::2]]
        for h in half:
            if h:
                jobs.append({"config": m["config"], "groups": h, "form": h[0]["form"], "behaviours": h[0]["behaviours"]})
    # binding self-test: with one real call skipped the replay must diverge
    neg = {"config": jobs[0]["config"], "form": jobs[0]["form"], "behaviours": jobs[0]["behaviours"][:5], "sabotage": True}
    (nj, nres), = run_jobs([neg])
    if not all(rb["bad"] for rb in nres["results"]):
        raise MachineryError("binding self-test failed: a replay with a skipped call was not detected")
    ck.notes["negative_control_replay"] = "5 behaviours replayed with one real call skipped: all 5 diverged"
    t0 = time.time()
    results = run_jobs(jobs)
    ck.notes["replay_wall_s"] = round(time.time() - t0, 1)
    nsteps = 0
    for job0, res0 in results:
      for g, gres in zip(job0["groups"], res0["groups"]):
        job = {"config": job0["config"], "form": g["form"], "behaviours": g["behaviours"]}
        res = gres
        for rb in res["results"]:
            beh = job["behaviours"][rb["behaviour"]]
            nsteps += rb["steps"]
            for st in beh[:rb["steps"]]:
                ck.case((json.dumps(job["config"], sort_keys=True), job["form"], st[0], tuple(map(str, st[1])), tuple(st[2][:5])),
                        nontrivial=st[0] != "Init")
            if rb["bad"]:
                bad = rb["bad"][0]
                desc = "config=%s form=%s after %d calls, %s%s: %s" % (
                    job["config"], job["form"], bad["k"], bad["act"], bad["params"],
                    "; ".join("%s(%s) got=%s fresh=%s%s" % (m["what"], m.get("kind"), str(m.get("got"))[:60], str(m.get("fresh", m.get("detail")))[:60],
                                                             (" [value of state %s]" % m["value_belongs_to_state"]) if m.get("value_belongs_to_state") else "")
                              for m in bad["mismatch"][:3]))
                ck.violation(classify(job, bad), desc, {"config": job["config"], "form": job["form"],
                                                        "behaviour": beh[:bad["k"] + 1], "mismatch": bad["mismatch"]})
        for m in res["scalar_array_mismatch"]:
            ck.violation({"kind": "scalar_array", "what": m["what"]}, "config=%s form=%s state=%s: array element differs from scalar: %s" % (
                job["config"], job["form"], m["state"], m), {"config": job["config"], "form": job["form"], "mismatch": m})
    ck.cov["traces_validated_against_impl"] = sum(len(g["behaviours"]) for j in jobs for g in j["groups"])
    ck.notes["replayed_steps"] = nsteps
    if pid == "C13":
        layered_part(ck, tier, rng)
        stellar_part(ck, tier, seed)
        dual_host_part(ck, tier, seed)
    if results:
        job, res = results[0]
        for b in job["behaviours"][:3]:
            ck.sample({"config": job["config"], "form": job["form"], "calls": [[s[0], s[1]] for s in b[:8]], "final_state[e,obl,orb,spin,q]": b[min(7, len(b) - 1)][2]})
    ck.cov["rule"] = ("one case = one replayed (configuration, value form, action instance with parameters, resulting spec state) on the real objects; "
                      "distinct_nontrivial counts distinct such tuples excluding the construction step")
    ck.assumptions += ["three value ids per input (configuration value + two others); CPL and CTL global-approximation worlds built from earth_simple around 55cnc",
                       "derived quantities compared at rel. 1e-11 with a freshly built world set in one call, and at 1e-10 with quick_tidal_dissipation"]
    return ck.finish()


def replay(path):
    d = json.load(open(path))
    r = d["replay"]
    if r.get("kind") == "stellar":
        out = scratch("soreplay")
        jf = os.path.join(out, "job.json")
        json.dump({"groups": [{"shape": r["shape"], "form": r["form"], "behaviours": [r["behaviour"]]}]}, open(jf, "w"))
        core.run_py(["-m", "harness.stellar_driver", jf], timeout=900)
        res = json.load(open(jf + ".out.json"))
        print(json.dumps(res, indent=1)[:3000])
        return 1 if res["results"] else 0
    job = {"config": r["config"], "form": r["form"], "behaviours": [r["behaviour"]]}
    (job, res), = run_jobs([job])
    print(json.dumps(res["results"], indent=1)[:4000])
    return 1 if res["results"][0]["bad"] else 0
