"""C12 - homogeneous-body Love number matches the closed form (and, in C01's driver, the layered solver).

Spec: specs/Love1d.tla over Gaussian rationals (CRat/Rat): TLC checks degree-2 = general at l=2, passivity sign, elastic
limit, ordering w.r.t. the fluid limit on a lattice and exports (inputs, m_l, k_l, static k_l) rows.
Binding (X): every row is evaluated with the real helpers of TidalPy.tides.love1d (jitted and undecorated, scalar and
array, unscaled and rescaled by powers of two) and compared at <= 8 ulp; (P) quick_tidal_dissipation's
love_number_by_orderl for l = 2..7 is compared with the closed form for a synchronous Maxwell body."""
import json
import math
import random
from fractions import Fraction

import numpy as np

from .. import core
from ..core import pyf, Check, MachineryError, run_tlc

ULP = 2.0 ** -52


def fr(p):
    return Fraction(p[0], p[1])


def relc(a, b):
    a, b = complex(a), complex(b)
    d = abs(a - b)
    s = max(abs(a), abs(b))
    return 0.0 if d == 0 else d / s


def run(tier, seed):
    ck = Check("C12", "model_checking", tier, seed)
    rng = random.Random(seed)
    r = run_tlc("MC_Love1d", "Love1d.cfg", workers=1, timeout=600)
    ck.add_tlc(r, "Love1d lattice: l=2..7 x mu x rho g R x J")
    rows = core.printed_values(r.stdout, "ROW")
    if len(rows) != r.distinct or not rows:
        raise MachineryError("exported %d rows for %d states" % (len(rows), r.distinct))
    import TidalPy  # noqa
    from TidalPy.tides import love1d as L
    from TidalPy import tides as T
    fam = {"jit": lambda f: f, "py": lambda f: pyf(f)}
    TOL = 8 * ULP
    worst = {}

    def cmp(fn, l, got, exp, detail):
        e = relc(got, exp)
        worst[fn] = max(worst.get(fn, 0.0), e / ULP)
        if e > TOL:
            ck.violation({"fn": fn, "l": l if fn.endswith("general") or fn.startswith("quick") else 2},
                         "%s(l=%d): got %r, closed form %r (rel %.3g) at %s" % (fn, l, got, exp, e, detail), detail)

    for row in rows:
        _, l, mu, rgr, jre, jim, m_l, k, ks = row
        mu_f, rgr_f = fr(mu), fr(rgr)
        J = complex(fr(jre) / mu_f, fr(jim) / mu_f) if True else None
        Jx = complex(float(fr(jre) / mu_f), float(fr(jim) / mu_f))
        m_exp = float(fr(m_l))
        k_exp = complex(float(fr(k[0])), float(fr(k[1])))
        ks_exp = float(fr(ks))
        det = {"l": l, "mu": str(mu_f), "rho_g_R": str(rgr_f), "J*mu": "%s%+sj" % (fr(jre), fr(jim))}
        ck.case(("row", l, str(mu_f), str(rgr_f), str(fr(jre)), str(fr(jim))), True)
        for sc in (0, 30):               # rescale by 2^sc: mu, rho*g*R scale up, J scales down: results identical
            s = 2.0 ** sc
            mu_x, g, Rr, rho = float(mu_f) * s, float(rgr_f.numerator) * s, 1.0, 1.0 / rgr_f.denominator
            Jc = Jx / s
            for tag, w in fam.items():
                er = w(L.effective_rigidity_general)(mu_x, g, Rr, rho, l)
                cmp("effective_rigidity_general", l, er, m_exp, dict(det, scale=sc, impl=tag))
                cmp("complex_love_general", l, w(L.complex_love_general)(Jc, mu_x, m_exp, l), k_exp, dict(det, scale=sc, impl=tag))
                cmp("static_love_general", l, w(L.static_love_general)(m_exp, l), ks_exp, dict(det, scale=sc, impl=tag))
                # the code's own composition
                cmp("complex_love_general(effective_rigidity_general)", l, w(L.complex_love_general)(Jc, mu_x, er, l), k_exp,
                    dict(det, scale=sc, impl=tag))
                if l == 2:
                    cmp("effective_rigidity", 2, w(L.effective_rigidity)(mu_x, g, Rr, rho), m_exp, dict(det, scale=sc, impl=tag))
                    cmp("complex_love", 2, w(L.complex_love)(Jc, mu_x, m_exp), k_exp, dict(det, scale=sc, impl=tag))
                    cmp("static_love", 2, w(L.static_love)(m_exp), ks_exp, dict(det, scale=sc, impl=tag))
            # array form + public aliases
            arr = np.array([mu_x, mu_x])
            cmp("effective_rigidity_general", l, T.calc_effective_rigidity_general(arr, g, Rr, rho, l)[1], m_exp, dict(det, scale=sc, impl="array"))
            # the caller's arrays are reused across calls and must come back unchanged
            Jarr, marr = np.array([Jc, Jc]), np.array([m_exp, m_exp])
            keep = (Jarr.copy(), arr.copy(), marr.copy())
            for rep in range(2):
                for tag, w in (("array", lambda f: f), ("array/py", lambda f: pyf(f))):
                    cmp("complex_love_general", l, w(L.complex_love_general)(Jarr, arr, marr, l)[0], k_exp,
                        dict(det, scale=sc, impl=tag, repeat=rep))
                    if l == 2:
                        cmp("complex_love", 2, w(L.complex_love)(Jarr, arr, marr)[1], k_exp, dict(det, scale=sc, impl=tag, repeat=rep))
                    if not (np.array_equal(Jarr, keep[0]) and np.array_equal(arr, keep[1]) and np.array_equal(marr, keep[2])):
                        ck.violation({"fn": "complex_love_general", "clause": "inputs_unmodified", "l": l},
                                     "complex_love(_general) modified its input arrays (compliance %r -> %r)" % (keep[0].tolist(), Jarr.tolist()),
                                     dict(det, scale=sc, impl=tag))
                        Jarr, arr, marr = keep[0].copy(), keep[1].copy(), keep[2].copy()
    ck.notes["worst_ulp_by_function"] = {k: round(v, 2) for k, v in worst.items()}
    # ---- quick_tidal_dissipation: love_number_by_orderl of a synchronous Maxwell body equals the closed form for every l
    from TidalPy.toolbox.quick_tides import quick_tidal_dissipation
    nq = 6 if tier == "quick" else 60
    for t in range(nq):
        lmax = 2 + t % 6
        Rr = 10 ** rng.uniform(5.5, 7)
        rho = rng.uniform(1000, 6000)
        mass = 4 / 3 * math.pi * Rr ** 3 * rho
        g = 6.6743e-11 * mass / Rr ** 2
        mu = 10 ** rng.uniform(9, 11)
        eta = 10 ** rng.uniform(14, 20)
        n = 10 ** rng.uniform(-6, -4)
        res = quick_tidal_dissipation(1e27, Rr, mass, g, rho, 0.4 * mass * Rr ** 2, viscosity=eta, shear_modulus=mu,
                                      rheology='maxwell', eccentricity=0.05, orbital_frequency=n, use_obliquity=False,
                                      max_tidal_order_l=lmax, eccentricity_truncation_lvl=2)
        # array-valued material inputs (with obliquity tides, so that several degrees share a frequency) give, element by
        # element, the Love numbers of the scalar calls
        if t % 2 == 0:
            etas = np.array([eta, eta * 3.0])
            kwq = dict(shear_modulus=mu, rheology='maxwell', eccentricity=0.05, obliquity=0.3, orbital_frequency=n, spin_frequency=1.7 * n,
                       use_obliquity=True, max_tidal_order_l=max(lmax, 3), eccentricity_truncation_lvl=2)
            ra = quick_tidal_dissipation(1e27, Rr, mass, g, rho, 0.4 * mass * Rr ** 2, viscosity=etas, **kwq)
            for idx in (0, 1):
                rs = quick_tidal_dissipation(1e27, Rr, mass, g, rho, 0.4 * mass * Rr ** 2, viscosity=float(etas[idx]), **kwq)
                for l in range(2, max(lmax, 3) + 1):
                    va, vs = complex(np.asarray(ra['love_number_by_orderl'][l]).ravel()[idx]), complex(rs['love_number_by_orderl'][l])
                    ck.case(("quick-array", t, idx, l), True)
                    if relc(va, vs) > 1e-12:
                        ck.violation({"fn": "quick_tidal_dissipation.love_number_by_orderl", "clause": "array_vs_scalar", "l": l},
                                     "love_number_by_orderl[%d] element %d of an array-viscosity call = %r, scalar call = %r" % (l, idx, va, vs),
                                     {"R": Rr, "rho": rho, "mu": mu, "eta": etas.tolist(), "n": n})
        # love_number_by_orderl[l] is documented as the average over the unique tidal frequencies that carry degree l
        # (e.g. l = 4 has a 2n mode through the closed-form G_41-2 entry): average the closed form over the same set
        from TidalPy.tides.modes.mode_manipulation import find_mode_manipulators
        calc, _c, ef, of = find_mode_manipulators(lmax, 2, False)
        uf, tt = calc(n, n, 1.0e9, Rr, ef(0.05), of(0.0), True)
        for l in range(2, lmax + 1):
            m = (2 * l * l + 4 * l + 3) / l * mu / (rho * g * Rr)
            ks = []
            for sig, w in uf.items():
                if l in tt[sig]:
                    J = 1.0 / mu - 1.0j / (eta * w)
                    ks.append(3 / (2 * (l - 1)) / (1 + m / (J * mu)))
            kk = sum(ks) / len(ks)
            got = res['love_number_by_orderl'][l]
            ck.case(("quick", t, l), True)
            e = relc(got, kk)
            worst["quick"] = max(worst.get("quick", 0), e)
            if e > 1e-12:
                ck.violation({"fn": "quick_tidal_dissipation.love_number_by_orderl", "l": l},
                             "quick_tidal_dissipation love_number_by_orderl[%d] = %r, closed form %r (rel %.3g)" % (l, got, kk, e),
                             {"R": Rr, "rho": rho, "mu": mu, "eta": eta, "n": n, "lmax": lmax})
    solver_agreement(ck, rng, 6 if tier == "quick" else 40, L)
    ck.cov["traces_validated_against_impl"] = len(rows)
    for row in rows[:2] + rows[-1:]:
        ck.sample({"l": row[1], "mu": list(row[2]), "rho_g_R": list(row[3]), "J*mu": [list(row[4]), list(row[5])],
                   "m_l": list(row[6]), "k_l": [list(row[7][0]), list(row[7][1])], "k_static": list(row[8])})
    # negative control: a perturbed coefficient must be caught by the comparison
    m_bad = float(fr(rows[0][6])) * (1 + 1e-12)
    if relc(m_bad, float(fr(rows[0][6]))) <= TOL:
        raise MachineryError("negative control failed")
    ck.notes["negative_control"] = "a 1e-12 relative perturbation of m_l exceeds the 8-ulp tolerance"
    ck.cov["rule"] = "one case = one exact lattice row (l, mu, rho g R, J) evaluated through every helper/implementation, or one (body, l) of the quick-dissipation closed-form comparison"
    ck.assumptions += ["solver agreement: uniform bodies with the incompressible flag at a quasi-static frequency, tolerance 5e-5 absolute on k", "lattice values are small rationals; rescaling by 2^30 checks homogeneity exactly"]
    return ck.finish()


def solver_agreement(ck, rng, nbodies, L):
    """C12's last clause: TidalPy's own one-layer Love number (effective_rigidity_general + complex_love_general, fed with a Maxwell
    complex compliance) agrees with the layered radial solver applied to the same uniform incompressible body (complex rigidity
    1/J, incompressible flag, quasi-static frequency)."""
    import math
    import numpy as np
    from ..solver_lib import make_planet, solve
    G = 6.67430e-11
    worst = 0.0
    n_ok = 0
    for t in range(nbodies):
        R = 10 ** rng.uniform(5.5, 7.3)
        rho = rng.uniform(1500, 8000)
        mu = 10 ** rng.uniform(9.7, 11.2)
        eta = 10 ** rng.uniform(14, 22)
        l = rng.choice([2, 2, 3, 4, 5])
        g = 4.0 / 3.0 * math.pi * G * rho * R
        w = 1.0e-4 * math.sqrt(4.0 / 3.0 * math.pi * G * rho)          # quasi-static: w^2 R / g = 1e-8
        J = 1.0 / mu - 1.0j / (eta * w)                                  # Maxwell compliance
        eff = L.effective_rigidity_general(mu, g, R, rho, order_l=l)
        k_tpy = complex(L.complex_love_general(J, mu, eff, order_l=l))
        p = make_planet([dict(type="solid", R=R, rho=rho, mu=1.0 / J, K=1.0e13, static=False, incompressible=True)], n_per_layer=40, r0_frac=1e-2)
        try:
            s = solve(p, w, degree_l=l, solve_for=("tidal",), use_kamata=True, integration_method="DOP853", integration_rtol=1e-10, integration_atol=1e-13,
                      nondimensionalize=True, warnings=False)
        except Exception as ex:
            ck.violation({"fn": "radial_solver", "clause": "solver_agreement_raises"}, "radial_solver raised %s on a uniform incompressible body" % type(ex).__name__, {})
            continue
        if not s["success"]:
            continue
        n_ok += 1
        k_sol = complex(s["love"][0][0])
        d = abs(k_sol - k_tpy)
        worst = max(worst, d)
        ck.case(("solver_agreement", t, l), True)
        if not d <= 5e-5:      # calibrated: worst 1.05e-5 over 150 bodies (stiff l = 5 bodies: k = y5 - 1 is formed by cancellation); a wrong coefficient moves k by >= 1e-3
            ck.violation({"fn": "complex_love_general", "clause": "solver_agreement", "l": l},
                         "one-layer Love number k_%d = %r (effective_rigidity_general + complex_love_general), layered radial solver on the same uniform incompressible body gives %r (|diff| %.3g)" % (l, k_tpy, k_sol, d),
                         {"R": R, "rho": rho, "mu": mu, "eta": eta, "frequency": w, "l": l})
    if n_ok < nbodies // 2:
        raise MachineryError("solver agreement: only %d of %d uniform bodies solved" % (n_ok, nbodies))
    ck.notes["solver_agreement"] = {"bodies": n_ok, "worst_abs_difference": worst}


def replay(path):
    print(open(path).read()[:3000])
    return 1
