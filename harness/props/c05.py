"""C05 - local dissipation integrates to the global dissipation (energy theorem).

Spec: specs/Sensitivity.tla - the Tobie et al. (2005) kernels H_mu, H_K over Gaussian rationals with the constitutive
relation imposed; TLC shows both are sums of squares (hence >= 0, hence Im k <= 0 for dissipative material) on every
lattice point and exports the points. Binding (X): sensitivity_to_shear / sensitivity_to_bulk (jitted + undecorated) on
three-slice columns whose y1 is linear in r (the code's finite differences are then exact) - interior and both one-sided end
stencils - and calc_radial_tidal_heating against its formula. (P) the integral identity on real solver output: uniform,
two-layer and liquid-core bodies, l = 2, 3, N = 200 and 400 slices per layer: defect <= 5e-4, shrinking under grid
doubling; Im k <= 0; heating profile summed over shells = global heating."""
import json
import math
import random
from fractions import Fraction

import numpy as np

from .. import core
from ..core import pyf, Check, MachineryError, run_tlc


def fr(p):
    return Fraction(p[0], p[1])


def cx(z):
    return complex(float(fr(z[0])), float(fr(z[1])))


def kernels_py(y1, dd, y2, y3, y4, mu, kb, r, l):
    """the kernels from the paper in Python complex arithmetic (used for the end stencils, where y1 differs from the exported point)"""
    LL = l * (l + 1)
    T = 2 * y1 - LL * y3
    A = (y2 - ((kb - 2 * mu / 3) / r) * T) / (kb + 4 * mu / 3)
    hmu = 4 / 3 * r * r * abs(A) ** 2 - 4 / 3 * r * (dd.conjugate() * T).real + abs(T) ** 2 / 3 + LL * r * r * abs(y4) ** 2 / abs(mu) ** 2 + l * (l * l - 1) * (l + 2) * abs(y3) ** 2
    hk = r * r * abs(A) ** 2 + 2 * r * (dd.conjugate() * T).real + abs(T) ** 2
    return hmu, hk


def run(tier, seed):
    ck = Check("C05", "model_checking", tier, seed)
    rng = random.Random(seed)
    r = run_tlc("MC_Sensitivity", "Sensitivity.cfg", workers=8, timeout=900)
    ck.add_tlc(r, "Sensitivity kernels: sum-of-squares identities on the lattice")
    rows = core.printed_values(r.stdout, "ROW")
    if len(rows) != r.distinct or len(rows) < 500:
        raise MachineryError("exported %d rows for %d states" % (len(rows), r.distinct))
    import logging
    import TidalPy  # noqa
    logging.disable(logging.WARNING)
    from TidalPy.radial_solver.sensitivity import sensitivity_to_shear, sensitivity_to_bulk
    from TidalPy.tides.multilayer.heating import calc_radial_tidal_heating
    from TidalPy.constants import G
    worst = {"hmu": 0.0, "hk": 0.0, "ends": 0.0, "heating": 0.0}
    # the caller of a frequency sweep keeps ONE shear and ONE bulk array and refills them in place (vectorize_modulus_viscosity(..., out)):
    # the jitted calls below are made on such reused buffers, the undecorated ones on fresh arrays
    shear_buf, bulk_buf = np.zeros(3, dtype=np.complex128), np.zeros(3, dtype=np.complex128)
    for ri, row in enumerate(rows):
        _, y1, d, y3, y4, mu, kb, rr, l, y2, hmu, hk = row
        y1c, dc, y3c, y4c, muc, kbc, y2c = cx(y1), cx(d), cx(y3), cx(y4), cx(mu), cx(kb), cx(y2)
        rr = float(rr)
        h = rr / 4.0
        # the spacing below and above the point rotates through equal and unequal ratios (a non-uniform radial grid): y1 is linear in r,
        # so the three-point gradient is exact whatever the spacing
        h_up = h * [1.0, 0.5, 2.0, 3.0][ri % 4]
        radius = np.array([rr - h, rr, rr + h_up])
        sol = np.zeros((6, 3), dtype=np.complex128)
        sol[0] = [y1c - h * dc, y1c, y1c + h_up * dc]
        sol[1] = y2c
        sol[2] = y3c
        sol[3] = y4c
        shear_buf[:] = muc
        bulk_buf[:] = kbc
        shear, bulk = shear_buf, bulk_buf
        keep = [a.copy() for a in (sol, radius, shear, bulk)]
        e_mu, e_k = float(fr(hmu)), float(fr(hk))
        ck.case(("kernel", ri), True)
        det = {"l": l, "r": rr, "spacing_below_above": [h, h_up], "y1": str(y1c), "dy1/dr": str(dc), "y2": str(y2c), "y3": str(y3c), "y4": str(y4c), "mu": str(muc), "K": str(kbc)}
        for tag, fs, fb in (("jit", sensitivity_to_shear, sensitivity_to_bulk),) + ((("py", pyf(sensitivity_to_shear), pyf(sensitivity_to_bulk)),) if ri % 6 == 0 else ()):
            if tag == "py":
                shear, bulk = np.full(3, muc), np.full(3, kbc)
            gm = fs(sol, radius, shear, bulk, l)
            gk = fb(sol, radius, shear, bulk, l)
            if not all(np.array_equal(a, b) for a, b in zip((sol, radius, shear, bulk), keep)):
                ck.violation({"clause": "inputs_unmodified"}, "sensitivity functions modified their inputs", det)
            sc = max(abs(e_mu), abs(e_k), 1.0)
            em, ek = abs(gm[1] - e_mu) / sc, abs(gk[1] - e_k) / sc
            worst["hmu"], worst["hk"] = max(worst["hmu"], em), max(worst["hk"], ek)
            if em > 1e-12 or not np.isfinite(gm[1]):
                ck.violation({"clause": "shear_kernel", "impl": tag}, "sensitivity_to_shear[%s] = %r, Tobie et al. kernel = %s = %r at %s" % (tag, gm[1], fr(hmu), e_mu, det), det)
                break
            if ek > 1e-12 or not np.isfinite(gk[1]):
                ck.violation({"clause": "bulk_kernel", "impl": tag}, "sensitivity_to_bulk[%s] = %r, Tobie et al. kernel = %s = %r at %s" % (tag, gk[1], fr(hk), e_k, det), det)
                break
            # one-sided stencils at the first and last slice (same slope, shifted y1 and r)
            for j, rj in ((0, rr - h), (2, rr + h_up)):
                pm, pk = kernels_py(complex(sol[0, j]), dc, y2c, y3c, y4c, muc, kbc, rj, l)
                sc2 = max(abs(pm), abs(pk), 1.0)
                e2 = max(abs(gm[j] - pm), abs(gk[j] - pk)) / sc2
                worst["ends"] = max(worst["ends"], e2)
                if e2 > 1e-11:
                    ck.violation({"clause": "end_stencil", "impl": tag, "slice": "first" if j == 0 else "last"},
                                 "slice %d: sensitivities (%r, %r), kernels with the exact gradient (%r, %r)" % (j, gm[j], gk[j], pm, pk), det)
                    break
        # a second grid with the same number of points and the same end points but another interior point (call sequences over grids
        # that differ only inside): y1 stays linear in r, so the kernels at the moved point are known in closed form
        if ri % 3 == 0:
            r_mid = rr + 0.1 * h
            radius2 = np.array([rr - h, r_mid, rr + h_up])
            sol2 = sol.copy()
            sol2[0] = [y1c - h * dc, y1c + 0.1 * h * dc, y1c + h_up * dc]
            gm2 = sensitivity_to_shear(sol2, radius2, np.full(3, muc), np.full(3, kbc), l)
            gk2 = sensitivity_to_bulk(sol2, radius2, np.full(3, muc), np.full(3, kbc), l)
            pm2, pk2 = kernels_py(complex(sol2[0, 1]), dc, y2c, y3c, y4c, muc, kbc, r_mid, l)
            sc2 = max(abs(pm2), abs(pk2), 1.0)
            ck.case(("grid_sequence", ri), True)
            if max(abs(gm2[1] - pm2), abs(gk2[1] - pk2)) / sc2 > 1e-10:
                ck.violation({"clause": "grid_sequence"}, "after a call on the grid %s, a call on %s (same size and end points) gives sensitivities (%r, %r) at the moved point, the kernels with the exact gradient are (%r, %r)" % (
                    radius.tolist(), radius2.tolist(), gm2[1], gk2[1], pm2, pk2), det)
        # heating profile formula
        ecc, n_orb, a_sma, Mh = 0.05, 2.0e-5, 4.0e8, 1.9e27
        sens_in = np.array([e_mu] * 3)
        keep_h = [a.copy() for a in (radius, sens_in, shear)]
        hr = calc_radial_tidal_heating(ecc, n_orb, a_sma, Mh, radius, sens_in, shear, l)
        hr2 = calc_radial_tidal_heating(ecc, n_orb, a_sma, Mh, radius, sens_in, shear, l)       # same arrays again (a scan over e or n reuses them)
        if not all(np.array_equal(a, b) for a, b in zip((radius, sens_in, shear), keep_h)) or not np.array_equal(hr, hr2):
            ck.violation({"clause": "heating_inputs_unmodified"}, "calc_radial_tidal_heating changed its input arrays / a repeated call differs: %s vs %s" % (hr.tolist(), hr2.tolist()), det)
            sens_in = keep_h[1].copy()
            hr = calc_radial_tidal_heating(ecc, n_orb, a_sma, Mh, radius, sens_in, shear, l)
        Rw = radius[-1]
        sus = 1.5 * G * Mh ** 2 * Rw ** 5 / a_sma ** 6
        exp = np.maximum((sus / Rw) * (G * e_mu * np.imag(shear) / ((2 * l + 1) * radius ** 2)) * (7 * ecc ** 2 * n_orb), 0.0)
        eh = float(np.max(np.abs(hr - exp) / np.maximum(np.abs(exp), 1e-300))) if np.any(exp > 0) else float(np.max(np.abs(hr)))
        worst["heating"] = max(worst["heating"], eh)
        if eh > 1e-12 or np.any(hr < 0):
            ck.violation({"clause": "heating_profile_formula"}, "calc_radial_tidal_heating = %s, formula gives %s" % (hr.tolist(), exp.tolist()), det)
    ck.cov["traces_validated_against_impl"] = len(rows)
    energy_theorem(ck, rng, tier, worst)
    ck.notes["worst_relative_deviation"] = worst
    ck.sample({"l": rows[0][8], "r": rows[0][7], "y1": str(cx(rows[0][1])), "dy1/dr": str(cx(rows[0][2])), "H_mu(exact)": str(fr(rows[0][10])), "H_K(exact)": str(fr(rows[0][11]))})
    ck.sample({"l": rows[-1][8], "H_mu(exact)": str(fr(rows[-1][10])), "H_K(exact)": str(fr(rows[-1][11]))})
    ck.cov["rule"] = "one case = one exported kernel lattice point (three-slice column, 3 stencils x 2 kernels) or one (body, degree, grid) energy-theorem evaluation"
    ck.assumptions += ["energy theorem: trapezoidal integration per layer on N = 200 / 400 slices per layer; defect tolerance 5e-4 and the defect must shrink under doubling",
                       "liquid layers carry no dissipation and are excluded from the integral"]
    return ck.finish()


def energy_theorem(ck, rng, tier, worst):
    from ..solver_lib import make_planet, solve, G
    from TidalPy.radial_solver.sensitivity import sensitivity_to_shear, sensitivity_to_bulk
    from TidalPy.tides.multilayer.heating import calc_radial_tidal_heating
    bodies = {
        "uniform": [dict(type='solid', R=6e6, rho=5000, mu=5e10 + 2e9j, K=2e11, static=True, incompressible=False)],
        "two_solid": [dict(type='solid', R=3e6, rho=9000, mu=1e11 + 1e9j, K=4e11, static=True, incompressible=False),
                      dict(type='solid', R=6e6, rho=4000, mu=6e10 + 5e9j, K=2e11, static=True, incompressible=False)],
        "liquid_core": [dict(type='liquid', R=3e6, rho=9000, mu=0j, K=4e11, static=True, incompressible=False),
                        dict(type='solid', R=6e6, rho=4000, mu=6e10 + 5e9j, K=2e11, static=True, incompressible=False)],
    }
    if tier == "thorough":
        for t in range(12):
            R1, R2 = rng.uniform(1e6, 4e6), rng.uniform(4.5e6, 9e6)
            bodies["random%d" % t] = [dict(type='solid', R=R1, rho=rng.uniform(6000, 11000), mu=complex(10 ** rng.uniform(10, 11.3), 10 ** rng.uniform(8, 10)), K=10 ** rng.uniform(11, 12), static=True, incompressible=False),
                                      dict(type='solid', R=R2, rho=rng.uniform(2500, 5000), mu=complex(10 ** rng.uniform(9.5, 11), 10 ** rng.uniform(8, 10)), K=10 ** rng.uniform(10.8, 11.7), static=True, incompressible=False)]
    w = 1.0e-5
    worst_def = 0.0
    for name, layers in bodies.items():
        for l in (2, 3):
            defects = []
            for N in (200, 400):
                p = make_planet(layers, n_per_layer=N, r0_frac=1e-3)
                s = solve(p, w, degree_l=l, integration_rtol=1e-9, integration_atol=1e-12, use_kamata=True)
                ck.case(("theorem", name, l, N), True)
                det = {"body": name, "l": l, "N": N}
                if not s["success"]:
                    ck.violation({"clause": "solver_failed", "body": name}, "solver failed on %s: %s" % (name, s["message"]), det)
                    break
                y = s["result"][:6]
                negimk = -s["love"][0][0].imag
                integral = 0.0
                shells = 0.0
                ecc, a_sma, Mh = 0.03, 5.0e8, 1.9e27
                for li, L in enumerate(layers):
                    sl = slice(li * N, (li + 1) * N)
                    if L["type"] != "solid":
                        continue
                    hm = sensitivity_to_shear(np.ascontiguousarray(y[:, sl]), p.radius[sl], p.shear[sl], p.bulk[sl].astype(np.complex128), l)
                    hk = sensitivity_to_bulk(np.ascontiguousarray(y[:, sl]), p.radius[sl], p.shear[sl], p.bulk[sl].astype(np.complex128), l)
                    # (no sign predicate on solver output: with finite-difference gradients the kernels are sums of squares only up to
                    #  discretisation error; non-negativity is decided exactly on the lattice by TLC)
                    hm_keep = hm.copy()
                    integral += np.trapz(hm * np.imag(p.shear[sl]), p.radius[sl])
                    # heating profile summed over shells (full radius array needed for the world radius: pass the layer with the world radius appended)
                    prof = calc_radial_tidal_heating(ecc, w, a_sma, Mh, np.append(p.radius[sl], p.R), np.append(hm, 0.0), np.append(p.shear[sl], 0j), l)[:-1]
                    shells += np.trapz(prof * 4 * math.pi * p.radius[sl] ** 2, p.radius[sl])
                    # a scan over eccentricity for one solved interior reuses the same sensitivity profile
                    hm_app = np.append(hm, 0.0)
                    pr1 = calc_radial_tidal_heating(ecc, w, a_sma, Mh, np.append(p.radius[sl], p.R), hm_app, np.append(p.shear[sl], 0j), l)
                    pr2 = calc_radial_tidal_heating(2 * ecc, w, a_sma, Mh, np.append(p.radius[sl], p.R), hm_app, np.append(p.shear[sl], 0j), l)
                    if not np.array_equal(hm, hm_keep) or not np.allclose(pr2, 4.0 * pr1, rtol=1e-12, atol=0.0):
                        ck.violation({"clause": "heating_inputs_unmodified", "body": name}, "heating profile of a second call (e doubled) is not 4x the first / sensitivity array changed", det)
                lhs = 4 * math.pi * G / ((2 * l + 1) * p.R) * integral
                defect = abs(lhs / negimk - 1.0)
                defects.append(defect)
                worst_def = max(worst_def, defect)
                if negimk < 0:
                    ck.violation({"clause": "imk_sign", "body": name}, "Im k_%d = %r > 0 for a dissipative body" % (l, -negimk), det)
                if defect > 5e-4:
                    ck.violation({"clause": "energy_theorem", "body": name}, "4 pi G/((2l+1)R) Int H_mu Im mu dr = %r, -Im k_%d = %r (defect %.3g at N=%d)" % (lhs, l, negimk, defect, N), det)
                if l == 2:
                    sus = 1.5 * G * Mh ** 2 * p.R ** 5 / a_sma ** 6
                    glob = 7.0 * negimk * sus * w * ecc ** 2
                    if abs(shells / glob - 1.0) > 1e-3:
                        ck.violation({"clause": "profile_sums_to_global", "body": name}, "heating profile summed over shells = %r, global heating = %r" % (shells, glob), det)
            if len(defects) == 2 and defects[1] > 0.8 * defects[0] and defects[0] > 1e-7:
                ck.violation({"clause": "energy_theorem_convergence", "body": name}, "%s l=%d: defect does not shrink under grid doubling: %s" % (name, l, defects), {"body": name, "l": l})
    worst["energy_theorem_defect"] = worst_def


def replay(path):
    print(open(path).read()[:2000])
    return 1
