"""C02 - radial solutions satisfy the surface and internal boundary conditions.

Spec: specs/Shooting.tla + ShootingRules.tla - the shooting protocol (starting vectors, per-layer integration as a generic
linear propagator, interface rules bottom-to-top, surface linear solve, constants top-to-bottom, collapse) as a behaviour over
GF(46337), rules transcribed from interfaces.pyx / reversed.pyx / boundaries.pyx / collapse.pyx, for EVERY ordering of solid,
dynamic-liquid and static-liquid layers (1-3 layers quick, 1-5 thorough) x 3 generic seeds x {tidal, loading, free}. TLC decides
the physical conditions (written independently of the rules): requested surface vector, continuity of y1,y2,y5,y6 / all six,
zero shear stress on the solid side of any solid/liquid interface, potential and potential-gradient term carried through a static
liquid whose boundary is an equipotential (lambda = 0), definedness pattern; three deliberately wrong rules are rejected
(negative controls).
Binding (X): ShootingLattice.tla exports UpRule on small Gaussian-integer inputs for the 9 ordered kind pairs; the compiled
solve_upper_y_at_interface is run on the same inputs (all static/dynamic/incompressible flag spellings) and every complex
output is converted to the rational it is and compared as a residue mod P. Binding (P): every stack TLC enumerated is solved on
the real radial_solver with random materials; the clauses TLC exported for each interface and the surface clause are evaluated
on the returned radial functions (relative 1e-9), for every requested type independently."""
import json
import math
import os
import random
import threading
from fractions import Fraction

import numpy as np

from .. import core
from ..core import Check, MachineryError, run_tlc

P = 46337
IROOT = 43736
CODE = {"S": (0, False), "LD": (1, False), "LS": (1, True)}


def residue_of(z, ck_key=None):
    """complex float that is a Gaussian rational with small denominators -> residue in GF(P) (i -> IROOT); None if not recoverable"""
    parts = []
    for x in (z.real, z.imag):
        f = Fraction(x).limit_denominator(10 ** 7)
        if abs(float(f) - x) > 1e-9 * max(1.0, abs(x)):
            return None
        if f.denominator % P == 0:
            return None
        parts.append((f.numerator * pow(f.denominator, P - 2, P)) % P)
    return (parts[0] + parts[1] * IROOT) % P


def lattice(ck):
    r = run_tlc("ShootingLattice", "ShootingLattice.cfg", workers=4, timeout=300)
    ck.add_tlc(r, "ShootingLattice: UpRule on Gaussian-integer inputs")
    rows = core.printed_values(r.stdout, "IFACE")
    if len(rows) < 9 * 12:
        raise MachineryError("lattice exported %d rows" % len(rows))
    import logging
    import TidalPy  # noqa
    logging.disable(logging.WARNING)
    from TidalPy.RadialSolver.interfaces.interfaces import solve_upper_y_at_interface
    n_cmp = 0
    selftest_done = False
    for row in rows:
        _, a, b, n, Lg, g, rho, g4, exp, degen, nsol_b, ny_b = row
        if degen:
            continue
        lower = np.full((3, 6), np.nan + 1j * np.nan, dtype=np.complex128)
        for s, solrow in enumerate(Lg):
            for y, (re, im) in enumerate(solrow):
                lower[s, y] = complex(re, im)
        ta, sa = CODE[a]
        tb, sb = CODE[b]
        # the layer-type code of a liquid is "anything but 0"; the incompressible flags are accepted and (documented TODO) ignored
        for lt_a, lt_b, inc_a, inc_b in ((ta, tb, False, False), (ta * 2, tb * 3, True, False), (ta, tb, False, True), (ta, tb, True, True)):
            upper = np.full((3, 6), 7.0 + 7.0j, dtype=np.complex128)
            keep = lower.copy()
            solve_upper_y_at_interface(lower, upper, int(lt_a), bool(sa), inc_a, int(lt_b), bool(sb), inc_b, float(g), float(rho), float(g4) / (4.0 * math.pi), 6)
            ck.case(("iface", a, b, n, lt_a, lt_b, inc_a, inc_b), True)
            det = {"lower_kind": a, "upper_kind": b, "case": n, "lower": [[list(z) for z in rr] for rr in Lg], "g": g, "rho": rho, "four_pi_G": g4,
                   "flags": [lt_a, lt_b, inc_a, inc_b]}
            if not np.array_equal(lower, keep, equal_nan=True):
                ck.violation({"clause": "interface_inputs_unmodified", "pair": a + "/" + b}, "solve_upper_y_at_interface modified the lower-layer values", det)
            for s in range(3):
                for y in range(6):
                    z = upper[s, y]
                    inside = s < nsol_b and y < ny_b
                    if not inside:
                        if not (z != z):
                            ck.violation({"clause": "interface_rule", "pair": a + "/" + b, "slot": [s, y], "kind": "not_nan"},
                                         "interface %s -> %s: output slot [%d][%d] is %s, spec: undefined (NaN)" % (a, b, s, y, z), det)
                        continue
                    want = exp[s][y]
                    got = None if (z != z) else residue_of(z)
                    n_cmp += 1
                    if got is None or got != want:
                        ck.violation({"clause": "interface_rule", "pair": a + "/" + b, "slot": [s, y]},
                                     "interface %s -> %s (case %d, g=%d rho=%d 4piG=%d): solution %d slot %d = %s, residue %s, spec (UpRule) residue %d" % (
                                         a, b, n, g, rho, g4, s + 1, y + 1, z, got, want), det)
                    elif not selftest_done:
                        # binding self-test: a corrupted expectation must be noticed by the very same comparison
                        selftest_done = True
                        if residue_of(z + 1.0) == want:
                            raise MachineryError("residue comparison is insensitive")
    # number of independent solutions per layer kind: the spec's NSol (exported with every row) against find_num_solutions
    from TidalPy.RadialSolver.solutions import find_num_solutions
    nsol_spec = {}
    for row in rows:
        nsol_spec[row[2]] = row[10]
    for kind, want in nsol_spec.items():
        lt, st = CODE[kind]
        for inc in (False, True):
            for code in ((0,) if kind == "S" else (1, 2, 5)):
                got = find_num_solutions(code, st, inc)
                ck.case(("nsol", kind, inc, code), True)
                if got != want:
                    ck.violation({"clause": "num_solutions", "kind": kind}, "find_num_solutions(layer_type=%d, is_static=%s, is_incompressible=%s) = %d, spec NSol(%s) = %d" % (code, st, inc, got, kind, want), {})
    ck.notes["interface_lattice"] = {"rows": len(rows), "slot_comparisons": n_cmp}
    return n_cmp


def run_jobs(jobs, nproc=16, timeout=1800):
    d = core.scratch("shooting")
    chunks = [list(range(i, len(jobs), nproc)) for i in range(nproc)]
    chunks = [c for c in chunks if c]
    outs = [None] * len(jobs)
    errs = []

    def work(ci, idx):
        jf = os.path.join(d, "job%d.json" % ci)
        json.dump({"jobs": [jobs[i] for i in idx]}, open(jf, "w"))
        p = core.run_py(["-m", "harness.shooting_driver", jf], timeout=timeout, env={"OMP_NUM_THREADS": "1", "NUMBA_NUM_THREADS": "1"})
        if p.returncode != 0 or not os.path.exists(jf + ".out.json"):
            errs.append("driver chunk %d exit %s: %s" % (ci, p.returncode, p.stderr[-600:]))
            return
        for i, o in zip(idx, json.load(open(jf + ".out.json"))):
            outs[i] = o

    ts = [threading.Thread(target=work, args=(ci, idx)) for ci, idx in enumerate(chunks)]
    [t.start() for t in ts]
    [t.join() for t in ts]
    if errs:
        raise MachineryError("; ".join(errs)[:1500])
    return outs


def cz(v):
    return None if v is None else complex(v[0], v[1])


TOL = 1e-9


def eval_clause(cl, f, ymax):
    """-> (residual, scale) of one exported interface clause on the real solver's values"""
    L = [cz(v) for v in f["lower_top"]]
    U = [cz(v) for v in f["upper_bot"]]
    g = f["g"]
    if cl.startswith("cont_y"):
        n = int(cl[-1]) - 1
        if L[n] is None or U[n] is None:
            return float("inf"), 1.0
        return abs(L[n] - U[n]), max(ymax[n] or 0.0, abs(L[n]))
    if cl == "y4_zero_lower":
        return (float("inf"), 1.0) if L[3] is None else (abs(L[3]), ymax[3] or 0.0)
    if cl == "y4_zero_upper":
        return (float("inf"), 1.0) if U[3] is None else (abs(U[3]), ymax[3] or 0.0)
    if cl in ("lambda_upper_rho_lower", "lambda_lower_rho_upper"):
        X, rho = (U, f["rho_lower"]) if cl == "lambda_upper_rho_lower" else (L, f["rho_upper"])
        if X[0] is None or X[1] is None or X[4] is None:
            return float("inf"), 1.0
        return abs(X[1] - rho * (g * X[0] - X[4])), max(abs(X[1]), abs(rho * g * X[0]), abs(rho * X[4]))
    raise MachineryError("unknown clause " + cl)


def run(tier, seed):
    ck = Check("C02", "model_checking", tier, seed)
    rng = random.Random(seed)
    cfg = "Shooting.cfg" if tier == "quick" else "Shooting_5.cfg"
    r = run_tlc("Shooting", cfg, workers=8, timeout=1200)
    ck.add_tlc(r, "Shooting: protocol over GF(P), all layer orderings")
    if not r.ok:
        # a violated invariant here is a property violation of the algorithm as transcribed: report the counterexample
        ck.violation({"clause": "protocol_model", "invariant": r.violated}, "TLC: %s violated on the protocol model; last state %s" % (r.violated, str(r.trace[-1])[:600] if r.trace else ""),
                     {"trace": [str(t)[:2000] for t in (r.trace or [])]})
        return ck.finish()
    stacks = core.printed_values(r.stdout, "STACK")
    if core.printed_values(r.stdout, "DEGEN"):
        raise MachineryError("degenerate (division by zero) configurations in the protocol model: the invariants are vacuous there")
    want = 39 if tier == "quick" else 363
    if len(stacks) != want:
        raise MachineryError("TLC exported %d stacks, expected %d" % (len(stacks), want))
    for neg in ("wrong_sign_c2", "no_y4_elimination", "forget_c3"):
        rn = run_tlc("Shooting", "Shooting_%s.cfg" % neg, workers=4, timeout=600, expect_violation=True)
        ck.case(("negative_control", neg), True)
        if rn.ok or rn.violated != "C02_Interfaces":
            raise MachineryError("negative control %s was not rejected by TLC (violated=%s)" % (neg, rn.violated))
    ck.notes["negative_controls_rejected"] = ["wrong_sign_c2", "no_y4_elimination", "forget_c3"]

    lattice(ck)

    # ---- whole solver: every stack TLC enumerated, random materials ----
    jobs, meta = [], []
    n_seeds = 4 if tier == "quick" else 8
    skipped_top_ld = 0
    for row in stacks:
        _, kinds, clauses, defined, _ = row
        kinds = list(kinds)
        if kinds[-1] == "LD":
            skipped_top_ld += 1          # known finding C06-dynamic-liquid-surface-segfault: the call may corrupt the stack
            continue
        for k in range(n_seeds):
            has_ld = "LD" in kinds
            sf = [["tidal", "loading"], ["loading", "free", "tidal"], ["tidal"], ["free", "loading"]][k % 4]
            job = dict(kinds=kinds, seed=rng.randrange(10 ** 6), l=[2, 3, 2, 4, 5][k % 5], solve_for=sf, freq=(10 ** rng.uniform(-3.3, -2.7)) if has_ld else 10 ** rng.uniform(-6, -4),
                       nondim=bool(k % 2 == 0), solid_static=bool(k % 3 == 1), incomp=False, n=30)
            # incompressible solids: a solid FIRST layer needs starting vectors, which exist only for the dynamic incompressible case
            if k % 4 == 3 and not (kinds[0] == "S" and job["solid_static"]):
                job["incomp"] = True
            # the conditions are algebraic: they hold at any integrator / tolerance / starting family (Takeuchi has no incompressible form)
            job["integ"] = ["DOP853", "RK45", "DOP853", "RK23"][k % 4]
            job["rtol"] = [1e-9, 1e-7, 1e-11, 1e-6][k % 4]
            job["kamata"] = bool(k % 3 != 2) or job["incomp"]
            jobs.append(job)
            meta.append((kinds, clauses, defined))
    outs = run_jobs(jobs)
    solved = 0
    per_stack = {}
    worst = {}
    for job, (kinds, clauses, defined), o in zip(jobs, meta, outs):
        key = "/".join(kinds)
        per_stack.setdefault(key, 0)
        if o["status"] == "raised":
            ck.violation({"clause": "solver_raised", "stack": key, "cls": o.get("cls")}, "radial_solver raised %s on stack %s: %s" % (o.get("cls"), key, o.get("msg")), job)
            continue
        if o["status"] != "solved":
            continue
        solved += 1
        per_stack[key] += 1
        ck.cov["traces_validated_against_impl"] += 1
        bcs = {"tidal": (0.0, 0.0, (2 * job["l"] + 1) / o["R"]), "loading": (-(2 * job["l"] + 1) * o["rho_bulk"] / 3.0, 0.0, (2 * job["l"] + 1) / o["R"]), "free": (0.0, 0.0, 0.0)}
        for t in job["solve_for"]:
            d = o["types"][t]
            ymax = d["ymax"]
            det = {"job": job, "type": t, "layers": o["layers"]}
            # definedness pattern, exactly
            for li, k in enumerate(kinds):
                ck.case(("defined", key, t, li, job["seed"]), True)
                want_def = sorted(defined[li])
                if sorted(d["defined_all"][li]) != want_def or sorted(d["defined_any"][li]) != want_def:
                    ck.violation({"clause": "definedness", "kind": k}, "layer %d (%s) of stack %s, type %s: defined rows %s (all slices) / %s (any slice), spec %s" % (
                        li + 1, k, key, t, d["defined_all"][li], d["defined_any"][li], want_def), det)
            # surface
            top = kinds[-1]
            sv = [cz(v) for v in d["surf"]]
            if top == "S":
                for slot, want_v in ((1, bcs[t][0]), (3, bcs[t][1]), (5, bcs[t][2])):
                    ck.case(("surface", key, t, slot, job["seed"]), True)
                    res = abs(sv[slot] - want_v) if sv[slot] is not None else float("inf")
                    sc = max(ymax[slot] or 0.0, abs(want_v))
                    worst["surface"] = max(worst.get("surface", 0.0), res / sc if sc else 0.0)
                    if not res <= TOL * sc + 1e-300:
                        ck.violation({"clause": "surface_bc", "type": t, "y": slot + 1}, "stack %s, type %s: y%d(R) = %s, requested %s (residual %.3g, scale %.3g)" % (key, t, slot + 1, sv[slot], want_v, res, sc), det)
            # interfaces: the clauses TLC exported for this ordered pair
            for i, f in enumerate(d["iface"]):
                for cl in sorted(clauses[i]):
                    ck.case(("iface", key, t, i, cl, job["seed"]), True)
                    res, sc = eval_clause(cl, f, ymax)
                    worst[cl] = max(worst.get(cl, 0.0), res / sc if sc else 0.0)
                    # lambda = y2 - rho (g y1 - y5) is formed by cancellation between the layer's solutions (observed up to 1.2e-9 on
                    # 5-layer stacks): 1e-7 for it, 1e-9 for the copy-type clauses; a wrong rule leaves O(1)
                    if not res <= (1e-7 if cl.startswith("lambda") else TOL) * sc + 1e-300:
                        ck.violation({"clause": cl, "pair": kinds[i] + "/" + kinds[i + 1]}, "stack %s, type %s, interface %d (%s | %s) at r = %.6g: clause %s residual %.3g (scale %.3g): lower top %s, upper bottom %s" % (
                            key, t, i + 1, kinds[i], kinds[i + 1], f["r"], cl, res, sc, f["lower_top"], f["upper_bot"]), det)
        for t, dd in (o.get("alone_diff") or {}).items():
            ck.case(("independent", key, t, job["seed"]), True)
            if dd == "failed":
                continue
            if isinstance(dd, str) or not dd <= 1e-12:
                ck.violation({"clause": "type_independence", "top": kinds[-1], "type": t}, "stack %s: type %s solved alone differs from the same type inside solve_for=%s (%s relative to each row's maximum)" % (
                    key, t, job["solve_for"], dd), job)
            else:
                worst["type_independence"] = max(worst.get("type_independence", 0.0), dd)
        ck.sample({"stack": kinds, "freq": job["freq"], "l": job["l"], "solve_for": job["solve_for"], "status": o["status"]})
    never = [k for k, v in per_stack.items() if v == 0]
    ck.notes["whole_solver"] = {"jobs": len(jobs), "solved": solved, "stacks": len(per_stack), "stacks_never_solved": never, "skipped_top_dynamic_liquid": skipped_top_ld,
                                "worst_relative_residual": worst}
    if solved < 0.6 * len(jobs):
        raise MachineryError("only %d of %d stack solves succeeded" % (solved, len(jobs)))
    ck.cov["rule"] = "all orderings of S/LD/LS layers (TLC: %d stacks x 3 seeds x 3 types); compiled interface routine on %d exact cases; real solver on %d (stack, material) cases" % (
        len(stacks), 108, len(jobs))
    ck.assumptions += ["stacks whose top layer is a dynamic liquid are not run on the real solver (C06 known finding: the surface routine writes 4 entries into a 1x1 stack matrix)",
                       "y7 of a static liquid is internal to the solver: its clauses are decided on the model only; on the real solver the static-liquid clauses observable are y5 continuity, lambda = 0 and y4 = 0 on the neighbour",
                       "dynamic-liquid stacks are solved at 5e-4..2e-3 rad/s (documented instability at low frequency)",
                       "cf_top_to_bottom_interface_bc, cf_apply_surface_bc, cf_collapse_layer_solution are cdef-only: bound through the whole-solver residuals"]
    return ck.finish()


def replay(path):
    """re-run the recorded stack job on the real solver and print the surface / interface values"""
    d = json.load(open(path))
    print(d["desc"][:3000])
    job = d.get("replay")
    if isinstance(job, dict) and "kinds" in job:
        out = run_jobs([job], nproc=1)[0]
        print(json.dumps({"status": out.get("status"), "msg": out.get("msg"), "types": {t: {"surf": v["surf"], "iface": v["iface"]} for t, v in (out.get("types") or {}).items()}}, indent=1)[:5000])
    return 1
