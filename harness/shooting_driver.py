"""Driver for specs/Shooting.tla (C02): solve layer stacks on the real radial solver and report surface / interface values.

python -m harness.shooting_driver <job.json>; job = {"jobs": [{kinds: ["S"|"LD"|"LS", ...], seed, l, solve_for, freq, nondim, incomp}]}
-> <job>.out.json: per job {status, layers, types: {t: {surf, ymax, iface: [{lower_top, upper_bot, g, rho_lower, rho_upper}], defined: [[slots]...]}}}"""
import json
import math
import random
import sys

import numpy as np


def build(job):
    from harness.solver_lib import make_planet
    rng = random.Random(job["seed"])
    kinds = job["kinds"]
    n = len(kinds)
    R = 10 ** rng.uniform(5.7, 7.0)
    cuts = sorted(rng.uniform(0.25, 0.9) for _ in range(n - 1))
    # keep layers reasonably thick
    tops = []
    prev = 0.0
    for i in range(n):
        t = 1.0 if i == n - 1 else max(cuts[i], prev + 0.12)
        tops.append(min(t, 1.0 - 0.12 * (n - 1 - i)))
        prev = tops[-1]
    rho = sorted((rng.uniform(1500, 11000) for _ in range(n)), reverse=True)
    layers = []
    for i, k in enumerate(kinds):
        mu = 10 ** rng.uniform(9.5, 11)
        layers.append(dict(type="solid" if k == "S" else "liquid", R=tops[i] * R, rho=rho[i], mu=(mu * (1 + 1j * 10 ** rng.uniform(-3, -1))) if k == "S" else 0j,
                           K=10 ** rng.uniform(10.5, 11.7), static=(k == "LS") if k != "S" else bool(job.get("solid_static", False)),
                           incompressible=bool(job.get("incomp", False)) and k == "S"))
    return make_planet(layers, n_per_layer=job.get("n", 30), r0_frac=job.get("r0", 0.01) * tops[0]), layers


def cval(z):
    return None if (z != z) else [float(z.real), float(z.imag)]


def run(job):
    from harness.solver_lib import solve
    p, layers = build(job)
    out = {"job": job, "layers": [dict(type=L["type"], R=L["R"], rho=L["rho"], static=L["static"]) for L in layers]}
    try:
        s = solve(p, job["freq"], degree_l=job.get("l", 2), solve_for=tuple(job["solve_for"]), use_kamata=job.get("kamata", True), integration_method=job.get("integ", "DOP853"),
                  integration_rtol=job.get("rtol", 1e-9), integration_atol=job.get("rtol", 1e-9) * 1e-3, nondimensionalize=job.get("nondim", True), warnings=False)
    except Exception as ex:
        out.update(status="raised", cls=type(ex).__name__, msg=str(ex)[:160])
        return out
    if not s["success"]:
        out.update(status="failed", msg=s["message"][:160])
        return out
    out["status"] = "solved"
    res = s["result"]
    npl = job.get("n", 30)
    out["R"], out["g_surf"], out["rho_bulk"] = p.R, p.g_surf, p.bulk_density
    out["types"] = {}
    for j, t in enumerate(job["solve_for"]):
        blk = res[6 * j:6 * j + 6, :]
        d = {"surf": [cval(z) for z in blk[:, -1]], "ymax": [float(np.nanmax(np.abs(blk[i, :]))) if np.any(~np.isnan(blk[i, :])) else None for i in range(6)],
             "iface": [], "defined_all": [], "defined_any": []}
        for li in range(len(layers)):
            sl = blk[:, li * npl:(li + 1) * npl]
            d["defined_all"].append([i + 1 for i in range(6) if np.all(~np.isnan(sl[i]))])
            d["defined_any"].append([i + 1 for i in range(6) if np.any(~np.isnan(sl[i]))])
            if li + 1 < len(layers):
                a, b = (li + 1) * npl - 1, (li + 1) * npl
                d["iface"].append({"lower_top": [cval(z) for z in blk[:, a]], "upper_bot": [cval(z) for z in blk[:, b]],
                                   "g": 0.5 * (float(p.gravity[a]) + float(p.gravity[b])), "rho_lower": float(p.density[a]), "rho_upper": float(p.density[b]),
                                   "r": float(p.radius[a])})
        out["types"][t] = d
    # "for each requested solution type independently": every type solved alone must give the same rows as inside the combined call
    if len(job["solve_for"]) > 1:
        out["alone_diff"] = {}
        for j, t in enumerate(job["solve_for"]):
            try:
                s1 = solve(p, job["freq"], degree_l=job.get("l", 2), solve_for=(t,), use_kamata=job.get("kamata", True), integration_method=job.get("integ", "DOP853"),
                           integration_rtol=job.get("rtol", 1e-9), integration_atol=job.get("rtol", 1e-9) * 1e-3, nondimensionalize=job.get("nondim", True), warnings=False)
            except Exception as ex:
                out["alone_diff"][t] = "raised " + type(ex).__name__
                continue
            if not s1["success"]:
                out["alone_diff"][t] = "failed"
                continue
            a, b = s1["result"][0:6, :], res[6 * j:6 * j + 6, :]
            same_nan = np.array_equal(np.isnan(a), np.isnan(b))
            sc = float(np.nanmax(np.abs(b))) if np.any(~np.isnan(b)) else 0.0
            rowmax = np.array([np.nanmax(np.abs(b[i])) if np.any(~np.isnan(b[i])) else 1.0 for i in range(6)])
            rowmax = np.where(rowmax == 0, 1.0, rowmax)
            dd = float(np.nanmax(np.abs(np.nan_to_num(a - b)) / rowmax[:, None])) if a.size else 0.0
            out["alone_diff"][t] = dd if same_nan else "nan_pattern"
    return out


def main():
    import logging
    import TidalPy  # noqa
    logging.disable(logging.CRITICAL)
    job = json.load(open(sys.argv[1]))
    json.dump([run(j) for j in job["jobs"]], open(sys.argv[1] + ".out.json", "w"))


if __name__ == "__main__":
    main()
