"""Replay driver for specs/DualHost.tla: a tidally active non-stellar host and a tidally active moon in one PhysicsOrbit (55cnc / two
earth_simple-based global-approximation worlds).  After every labelled step the host's, the moon's and the orbit's derived quantities
are compared with a freshly built system placed directly in the spec state.

python -m harness.dual_host_driver <job.json>; job = {"behaviours": [[[label, state], ...], ...], "sabotage": bool}"""
import json
import sys

import numpy as np

PER = [30.0, 18.0]
ECC = [0.02, 0.12]
HSPIN = [3.0, 5.0]
MSPIN = [8.0, 11.0]
KEYS = ("tidal_heating_global", "dUdM", "dUdw", "dUdO")


class Dual:
    def __init__(self, use_ctl):
        import logging
        import TidalPy  # noqa
        logging.disable(logging.WARNING)
        from TidalPy.structures import build_world
        self.use_ctl = use_ctl
        self.star_base = build_world('55cnc')
        self.earth_base = build_world('earth_simple')
        self.fresh_cache = {}

    def cfg(self, q):
        return {'force_spin_sync': False, 'type': 'simple_tidal', 'mass': 5.972e24, 'slices': 100,
                'tides': {'model': 'global_approx', 'fixed_q': q, 'use_ctl': self.use_ctl, 'eccentricity_truncation_lvl': 2,
                          'max_tidal_order_l': 2, 'obliquity_tides_on': True}}

    def make(self, st):
        from TidalPy.structures import build_from_world
        from TidalPy.structures.orbit import PhysicsOrbit
        star = build_from_world(self.star_base, new_config={'tides_on': False})
        host = build_from_world(self.earth_base, new_config=self.cfg(80.0), new_name='dual_host')
        moon = build_from_world(self.earth_base, new_config=self.cfg(125.0), new_name='dual_moon')
        o = PhysicsOrbit(star, tidal_host=host, tidal_bodies=moon)
        moon.set_state(orbital_period=PER[st["per"]], eccentricity=ECC[st["ecc"]], obliquity=0.1, spin_period=MSPIN[st["mspin"]])
        host.set_state(obliquity=0.05, spin_period=HSPIN[st["hspin"]])
        return host, moon, o

    def observe(self, host, moon, o):
        out = {}
        for nm, w in (("host", host), ("moon", moon)):
            for k in KEYS:
                out["%s.%s" % (nm, k)] = getattr(w, k)
            out["%s.love_l2" % nm] = w.global_love_by_orderl[2]
            out["%s.spin_derivative" % nm] = w.calc_spin_derivative()
        out["orbit.da_dt"] = o.get_semi_major_axis_time_derivative(moon)
        out["orbit.de_dt"] = o.get_eccentricity_time_derivative(moon)
        out["orbit.dn_dt"] = o.get_orbital_motion_time_derivative(moon)
        return {k: (None if v is None else complex(np.asarray(v).ravel()[0])) for k, v in out.items()}

    def fresh(self, st):
        key = (st["per"], st["ecc"], st["hspin"], st["mspin"])
        if key not in self.fresh_cache:
            self.fresh_cache[key] = self.observe(*self.make(st))
        return self.fresh_cache[key]

    def replay(self, beh, sabotage=False):
        host, moon, o = self.make(beh[0][1])
        for k, (label, st) in enumerate(beh):
            act = label[0]
            try:
                if act == "SetE" and sabotage and st != beh[k - 1][1]:
                    sabotage = False
                elif act in ("SetE", "SetP", "SetBoth"):
                    path = label[-1]
                    kw = {}
                    if act == "SetE":
                        kw["eccentricity"] = ECC[label[1]]
                    elif act == "SetP":
                        kw["orbital_period"] = PER[label[1]]
                    else:
                        kw["orbital_period"], kw["eccentricity"] = PER[label[1]], ECC[label[2]]
                    if path == "world_set_state":
                        moon.set_state(**kw)
                    elif path == "orbit_set_state":
                        o.set_state(moon, **kw)
                    elif path == "world_prop":
                        for a, b in kw.items():
                            setattr(moon, a, b)
                    else:
                        for a, b in kw.items():
                            getattr(o, "set_" + a)(moon, b)
                elif act == "HostSpin":
                    host.set_state(spin_period=HSPIN[label[1]])
                elif act == "MoonSpin":
                    moon.set_state(spin_period=MSPIN[label[1]])
                elif act != "Init":
                    raise ValueError(act)
                got, ref = self.observe(host, moon, o), self.fresh(st)
            except Exception as ex:
                import traceback
                return {"step": k, "label": label, "problems": [["exception", "%s: %s | %s" % (type(ex).__name__, str(ex)[:200], traceback.format_exc()[-400:])]]}
            problems = []
            for key, rv in ref.items():
                gv = got[key]
                if (gv is None) != (rv is None) or (rv is not None and abs(gv - rv) > 1e-9 * max(abs(rv), 1e-300)):
                    problems.append([key, "after the history %r, a fresh system in the same state %r" % (gv, rv)])
            if problems:
                return {"step": k, "label": label, "problems": problems, "prefix": [b[0] for b in beh[:k + 1]], "ctl": self.use_ctl}
        return None


def main():
    job = json.load(open(sys.argv[1]))
    out, n = [], 0
    for ctl in (False, True):
        D = Dual(ctl)
        for bi, beh in enumerate(job["behaviours"]):
            r = D.replay(beh, sabotage=bool(job.get("sabotage")))
            n += len(beh)
            if r:
                r.update(behaviour=bi, ctl=ctl)
                out.append(r)
    json.dump({"results": out, "steps": n}, open(sys.argv[1] + ".out.json", "w"))


if __name__ == "__main__":
    main()
