"""Replay driver for specs/LayeredTides.tla (property C13, layered tidal model + temperature): performs spec actions on a real
LayeredWorld (io_simple) / PhysicsOrbit and compares every exposed derived quantity with a freshly built world placed directly
in the spec state (two fresh constructions, in opposite orders, which must agree as well).

python -m harness.layered_driver <job.json>; job = {sync, obl_on, behaviours: [[ [action, params, state], ...], ...], sabotage}
state = [e, obl, orb, spin, tm] with tm = [] | ["T", i] | ["S", i]; writes <job>.out.json"""
import json
import sys

import numpy as np

NOT_GIVEN, NOSPIN = -1, -2
RTOL = 1e-11
DERIVED = ["tidal_heating_global", "dUdM", "dUdw", "dUdO", "k2", "neg_imk2", "mantle_heating", "dedt", "dadt", "dndt", "tidal_susceptibility", "mantle_radiogenic", "core_radiogenic"]
THERMAL_FEEDBACK = ["surface_temperature", "top_cooling"]
INPUTS = ["eccentricity", "obliquity", "orbital_frequency", "spin_frequency", "mantle_viscosity", "mantle_shear", "time"]


class LW:
    def __init__(self, sync, obl_on, nlayers=1):
        import logging
        import TidalPy  # noqa
        logging.disable(logging.WARNING)
        from TidalPy.structures import build_world, build_from_world
        from TidalPy.utilities.conversions import days2rads
        self.sync, self.obl_on, self.nlayers = sync, obl_on, nlayers
        self.bfw = build_from_world
        if not hasattr(LW, "_star"):
            LW._star = build_world("sol")
            LW._host = build_world("jupiter")
            LW._bases = {1: build_world("io_simple"), 2: build_world("earth_simple")}
        LW._base = LW._bases[nlayers]
        w, o = self.fresh()
        self.e_vals = [w.eccentricity, 0.05]
        self.obl_vals = [w.obliquity if w.obliquity is not None else 0.0, 0.3]
        self.n_vals = [w.orbital_frequency, days2rads(3.1)]
        self.s_vals = self.n_vals if sync else [2.3 * self.n_vals[0], 1.37 * self.n_vals[1]]
        self.t_vals = [1500.0, 1650.0]
        self.str_vals = [(1.0e20, 5.0e10), (3.0e17, 3.0e10)]
        self.time_vals = [100.0, 2500.0]        # Myr
        self.table = {}

    def fresh(self):
        from TidalPy.structures.orbit import PhysicsOrbit
        tides = dict(LW._base.config["tides"])
        tides["obliquity_tides_on"] = self.obl_on
        w = self.bfw(LW._base, new_config={"force_spin_sync": self.sync, "tides": tides})
        star = self.bfw(LW._star, new_config={})
        host = self.bfw(LW._host, new_config={}) if self.nlayers == 1 else star      # io around jupiter; the earth around the sun
        o = PhysicsOrbit(star, tidal_host=host, tidal_bodies=w)
        return w, o

    @staticmethod
    def mantle(w, L=1):
        return [l for l in w if l.is_tidal][L - 1]

    @staticmethod
    def tidal_layers(w):
        return [l for l in w if l.is_tidal]

    def perform(self, w, o, act, p):
        m = self.mantle(w)
        if act == "WorldSetState":
            sp, ob, ec, orv = p
            kw = {}
            if sp != NOT_GIVEN:
                kw["spin_frequency"] = self.s_vals[sp]
            if ob != NOT_GIVEN:
                kw["obliquity"] = self.obl_vals[ob]
            if ec != NOT_GIVEN:
                kw["eccentricity"] = self.e_vals[ec]
            if orv != NOT_GIVEN:
                kw["orbital_frequency"] = self.n_vals[orv]
            w.set_state(**kw)
        elif act == "WorldSetSpin":
            sp, = p
            if sp % 2 == 0:
                w.spin_frequency = self.s_vals[sp]
            else:
                w.set_spin_frequency(self.s_vals[sp])
        elif act == "WorldSetObliquity":
            ob, = p
            if ob % 2 == 0:
                w.obliquity = self.obl_vals[ob]
            else:
                w.set_obliquity(self.obl_vals[ob])
        elif act == "OrbitSetState":
            ec, orv = p
            if ec != NOT_GIVEN and orv != NOT_GIVEN:
                o.set_state(w, eccentricity=self.e_vals[ec], orbital_frequency=self.n_vals[orv])
            elif ec != NOT_GIVEN:
                if ec % 2 == 0:
                    w.eccentricity = self.e_vals[ec]
                else:
                    o.set_eccentricity(w, self.e_vals[ec])
            else:
                if orv % 2 == 0:
                    w.orbital_frequency = self.n_vals[orv]
                else:
                    o.set_orbital_frequency(w, self.n_vals[orv])
        elif act == "LayerSetTemp":
            L, t = p if len(p) == 2 else (1, p[0])
            m = self.mantle(w, L)
            if t % 2 == 0:
                m.set_state(temperature=self.t_vals[t])
            else:
                m.temperature = self.t_vals[t]
        elif act == "LayerSetStrength":
            L, s = p if len(p) == 2 else (1, p[0])
            m = self.mantle(w, L)
            m.set_strength(viscosity=self.str_vals[s][0], shear_modulus=self.str_vals[s][1])
        elif act == "OrbitSetTime":
            t, = p
            if t % 2 == 0:
                o.time = self.time_vals[t]
            else:
                o.universal_time = self.time_vals[t]
        else:
            raise ValueError("unknown action " + act)

    def observe(self, w, o):
        m = self.mantle(w)
        d = {}
        for k in ["tidal_heating_global", "dUdM", "dUdw", "dUdO", "eccentricity", "obliquity", "orbital_frequency", "spin_frequency", "tidal_susceptibility"]:
            d[k] = getattr(w, k)
        d["k2"] = None if not w.global_love_by_orderl else w.global_love_by_orderl.get(2)
        d["neg_imk2"] = None if not w.global_negative_imk_by_orderl else w.global_negative_imk_by_orderl.get(2)
        tl = self.tidal_layers(w)
        hs = [x.tidal_heating for x in tl]
        d["mantle_heating"] = None if any(h is None for h in hs) else np.array([np.asarray(h, dtype=float).ravel()[0] for h in hs])
        vs = [x.viscosity for x in tl]
        ss = [x.shear_modulus for x in tl]
        d["mantle_viscosity"] = np.array([np.nan if v is None else float(np.asarray(v).ravel()[0]) for v in vs])
        d["mantle_shear"] = np.array([np.nan if v is None else float(np.asarray(v).ravel()[0]) for v in ss])
        # the per-layer heating rates sum to the global rate (C05's 'summed over shells' at the object level)
        d["_layer_sum_defect"] = None
        if d["mantle_heating"] is not None and w.tidal_heating_global is not None:
            tot = float(np.asarray(w.tidal_heating_global).ravel()[0])
            d["_layer_sum_defect"] = abs(float(np.sum(d["mantle_heating"])) - tot) / max(abs(tot), 1e-300)
        d["mantle_radiogenic"] = m.radiogenic_heating
        d["core_radiogenic"] = [l for l in w if not l.is_tidal][0].radiogenic_heating
        # thermal feedback: surface temperature <-> cooling of the top layer.  The code evaluates ONE step of that fixed point per update
        # (surface temperature from the current cooling; cooling from the surface temperature of the previous update)
        top = list(w)[-1]
        d["surface_temperature"] = w.surface_temperature
        d["top_cooling"] = top.cooling
        d["_ts_defect"] = None
        if w.surface_temperature is not None and w.insolation_heating is not None:
            from TidalPy.stellar import calc_equilibrium_temperature
            internal = w.get_internal_heating_to_surface()
            ts = calc_equilibrium_temperature(np.copy(np.asarray(w.insolation_heating, dtype=float)), w.radius, None if internal is None else np.copy(internal), w.emissivity)
            a, b = float(np.asarray(w.surface_temperature).ravel()[0]), float(np.asarray(ts).ravel()[0])
            d["_ts_defect"] = abs(a - b) / max(abs(b), 1e-300)
        d["time"] = w.time
        d["dedt"] = o.get_eccentricity_time_derivative(w)
        d["dadt"] = o.get_semi_major_axis_time_derivative(w)
        d["dndt"] = o.get_orbital_motion_time_derivative(w)
        return d

    def place(self, w, o, st, thermal_first):
        e, obl, orb, spin, tm = st[:5]
        tw = st[5] if len(st) > 5 else []
        m = self.mantle(w)
        if tw != [] and tw is not None:
            o.time = self.time_vals[tw]

        def thermal():
            per_layer = tm if (tm and isinstance(tm[0], list)) or tm == [] or (tm and tm[0] == []) else [tm]
            order = list(enumerate(per_layer, 1))
            if not thermal_first:
                order = order[::-1]
            for L, x in order:
                if not x:
                    continue
                ml = self.mantle(w, L)
                if x[0] == "T":
                    ml.set_state(temperature=self.t_vals[x[1]])
                else:
                    ml.set_strength(viscosity=self.str_vals[x[1]][0], shear_modulus=self.str_vals[x[1]][1])

        def orbital():
            kw = {"eccentricity": self.e_vals[e], "obliquity": self.obl_vals[obl], "orbital_frequency": self.n_vals[orb]}
            if spin != NOSPIN and not self.sync:
                kw["spin_frequency"] = self.s_vals[spin]
            w.set_state(**kw)
        if thermal_first:
            thermal()
            orbital()
        else:
            orbital()
            thermal()

    def expected(self, st):
        key = json.dumps(st)
        if key in self.table:
            return self.table[key]
        w, o = self.fresh()
        self.place(w, o, st, True)
        d = self.observe(w, o)
        w2, o2 = self.fresh()
        self.place(w2, o2, st, False)
        d2 = self.observe(w2, o2)
        d["_other_order_differs"] = [k for k in DERIVED + INPUTS if not close(d[k], d2[k])]
        d["_thermal_orders_differ"] = [k for k in THERMAL_FEEDBACK if not close(d[k], d2[k], 1e-9)]
        self.table[key] = d
        return d


def close(a, b, rtol=RTOL):
    if a is None or b is None:
        return a is None and b is None
    a, b = np.asarray(a), np.asarray(b)
    if a.shape != b.shape:
        if a.size == 1 or b.size == 1:
            a, b = np.broadcast_arrays(a, b)
        else:
            return False
    with np.errstate(all="ignore"):
        scale = np.maximum(np.abs(a), np.abs(b))
        ok = (np.abs(a - b) <= rtol * scale) | (a == b) | (np.isnan(a) & np.isnan(b))
    return bool(np.all(ok))


def jsonable(v):
    if v is None:
        return None
    a = np.asarray(v)
    if np.iscomplexobj(a):
        return [[float(x.real), float(x.imag)] for x in a.ravel()]
    return [float(x) for x in a.ravel()]


def replay(W, beh, sabotage=False):
    w, o = W.fresh()
    out = []
    for k, (act, params, st) in enumerate(beh):
        rec = {"k": k, "act": act, "params": params, "state": st, "mismatch": []}
        try:
            if sabotage and k > 0 and st != beh[k - 1][2]:
                sabotage = False
            elif act != "Init":
                W.perform(w, o, act, params)
            got = W.observe(w, o)
        except Exception as ex:
            import traceback
            rec["mismatch"].append({"what": "exception", "detail": "%s: %s" % (type(ex).__name__, str(ex)[:300]), "tb": traceback.format_exc()[-800:]})
            out.append(rec)
            break
        exp = W.expected(st)
        if got.get("_layer_sum_defect") is not None and got["_layer_sum_defect"] > 1e-12:
            rec["mismatch"].append({"what": "layer_heating_sum", "kind": "derived", "detail": "sum of the tidal layers' heating differs from the global rate by %.3g (relative)" % got["_layer_sum_defect"]})
        if got.get("_ts_defect") is not None and got["_ts_defect"] > 1e-12:
            rec["mismatch"].append({"what": "surface_temperature_vs_cooling", "kind": "derived", "detail": "surface temperature differs from the equilibrium temperature of (insolation + the top layer's CURRENT cooling) by %.3g (relative)" % got["_ts_defect"]})
        # history dependence of the feedback pair: recorded, never blocks the rest of the behaviour
        soft = [{"what": k, "got": jsonable(got[k]), "fresh": jsonable(exp[k])} for k in THERMAL_FEEDBACK if not close(got[k], exp[k], 1e-9)]
        if exp["_thermal_orders_differ"]:
            soft.append({"what": "fresh_orders_disagree", "keys": exp["_thermal_orders_differ"]})
        if soft:
            rec["soft"] = soft
        if exp["_other_order_differs"]:
            rec["mismatch"].append({"what": "fresh_orders_disagree", "kind": "derived", "detail": exp["_other_order_differs"]})
        for key in DERIVED + INPUTS:
            if not close(got[key], exp[key]):
                origin = None
                for st2, d2 in list(W.table.items()):
                    if got[key] is not None and close(got[key], d2[key]):
                        origin = json.loads(st2)
                        break
                rec["mismatch"].append({"what": key, "kind": "derived" if key in DERIVED else "input", "got": jsonable(got[key]), "fresh": jsonable(exp[key]),
                                        "value_belongs_to_state": origin})
        out.append(rec)
        if rec["mismatch"]:
            break
    return out


def main():
    job = json.load(open(sys.argv[1]))
    W = LW(job["sync"], job["obl_on"], job.get("nlayers", 1))
    res = []
    for bi, beh in enumerate(job["behaviours"]):
        res.append(replay(W, beh, sabotage=bool(job.get("sabotage")) and bi == 0))
    json.dump({"results": res, "fresh_states": len(W.table)}, open(sys.argv[1] + ".out.json", "w"))


if __name__ == "__main__":
    main()
