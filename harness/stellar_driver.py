"""Replay driver for specs/StellarOrbit.tla (property C13, the stellar side: stellar distance / eccentricity, insolation heating,
surface temperature).  Performs each labelled step of a TLC behaviour on real worlds in a real PhysicsOrbit and compares, after
every step, what the objects report with the FUNCTIONAL API evaluated at the spec state (the oracle is independent of the setters
under test: equilibrium_insolation_func and calc_equilibrium_temperature called directly with the values of the state's ids).

python -m harness.stellar_driver <job.json>
job = {groups: [{shape: moon|moon_ga|star|star_layered, form: scalar|array, behaviours: [[ [label, state], ...], ...]}], sabotage}
state = {wa, we, sd, se, ins} with typed ids ["d", i] / ["e", i]; writes <job>.out.json"""
import json
import sys

import numpy as np

RTOL = 1e-11


def close(a, b, rtol=RTOL):
    if a is None or b is None:
        return a is None and b is None
    a, b = np.asarray(a, dtype=float), np.asarray(b, dtype=float)
    if a.shape != b.shape:
        if a.size == 1 or b.size == 1:
            a, b = np.broadcast_arrays(a, b)
        else:
            return False
    with np.errstate(all="ignore"):
        return bool(np.all((np.abs(a - b) <= rtol * np.maximum(np.abs(a), np.abs(b))) | (a == b)))


def js(v):
    return None if v is None else [float(x) for x in np.asarray(v, dtype=float).ravel()]


class System:
    _bases = {}

    def __init__(self, shape, form):
        import logging
        import TidalPy  # noqa
        logging.disable(logging.WARNING)
        from TidalPy.structures import build_world, build_from_world
        self.shape, self.form = shape, form
        self.bfw = build_from_world
        B = System._bases
        for n in ("sol", "jupiter", "io_simple", "earth_simple", "55cnc"):
            if n not in B:
                B[n] = build_world(n)
        self.star_host = shape.startswith("star")
        w, host, star, o = self.fresh()
        a0, e0 = o.get_semi_major_axis(w), o.get_eccentricity(w)
        if self.star_host:
            self.d_vals = [float(a0), 2.0e11, 1.2e11]
            self.e_vals = [float(e0), 0.05, 0.11]
        else:
            self.d_vals = [float(a0), float(o.get_stellar_distance(w)), 3.3e9]
            self.e_vals = [float(e0), float(o.get_stellar_eccentricity(w)), 0.11]

    def fresh(self):
        from TidalPy.structures.orbit import PhysicsOrbit
        B = System._bases
        ga = {'model': 'global_approx', 'fixed_q': 125.0, 'use_ctl': False, 'eccentricity_truncation_lvl': 2, 'max_tidal_order_l': 2,
              'obliquity_tides_on': False}
        if self.shape == "moon":
            w = self.bfw(B["io_simple"], new_config={})
        elif self.shape == "moon_ga":
            w = self.bfw(B["io_simple"], new_config={'type': 'simple_tidal', 'mass': 8.9319e22, 'slices': 100, 'force_spin_sync': True, 'tides': ga})
        elif self.shape == "star":
            w = self.bfw(B["earth_simple"], new_config={'type': 'simple_tidal', 'mass': 5.972e24, 'slices': 100, 'force_spin_sync': True, 'tides': ga})
        else:
            w = self.bfw(B["earth_simple"], new_config={})
        if self.star_host:
            star = self.bfw(B["55cnc" if self.shape == "star" else "sol"], new_config={})
            host = star
        else:
            star = self.bfw(B["sol"], new_config={})
            host = self.bfw(B["jupiter"], new_config={})
        o = PhysicsOrbit(star, tidal_host=host, tidal_bodies=w)
        return w, host, star, o

    def val(self, kind, i):
        v = (self.d_vals if kind == "d" else self.e_vals)[i]
        if self.form == "array":
            if i == 0 or (i == 1 and not self.star_host):
                return np.array([v, v, v])          # ids of configuration values (scalars in the freshly built system)
            return np.array([v, v * 1.01, v * 0.97])
        return v

    def perform(self, w, host, o, label):
        act = label[0]
        if act in ("WorldSetA", "WorldSetE"):
            v, path = label[1], label[2]
            key = "semi_major_axis" if act == "WorldSetA" else "eccentricity"
            x = self.val("d" if act == "WorldSetA" else "e", v)
            if path == "world_set_state":
                w.set_state(**{key: x})
            elif path == "world_property":
                setattr(w, key, x)
            elif path == "orbit_setter":
                getattr(o, "set_" + key)(w, x)
            elif path == "orbit_set_state":
                o.set_state(w, **{key: x})
            else:
                raise ValueError(path)
        elif act == "SetStellarDistance":
            o.set_stellar_distance(host if label[2] == "host" else w, self.val("d", label[1]))
        elif act == "SetStellarEcc":
            o.set_stellar_eccentricity(host if label[2] == "host" else w, self.val("e", label[1]))
        elif act != "Init":
            raise ValueError(act)

    def expected(self, w, host, star, st):
        from TidalPy.stellar import calc_equilibrium_temperature
        ex = {"wa": self.val("d", st["wa"][1]), "we": self.val("e", st["we"][1]), "sd": self.val("d", st["sd"][1]), "se": self.val("e", st["se"][1])}
        worlds = {"world": w} if self.star_host else {"world": w, "host": host}
        for name, x in worlds.items():
            d_id, e_id = st["ins"][name]
            ins = x.equilibrium_insolation_func(star.luminosity, np.copy(self.val("d", d_id[1])), x.albedo, x.radius, np.copy(self.val("e", e_id[1])))
            ex["ins_" + name] = ins
            internal = x.get_internal_heating_to_surface()
            ex["Ts_" + name] = calc_equilibrium_temperature(np.copy(np.asarray(ins, dtype=float)), x.radius, None if internal is None else np.copy(internal), x.emissivity)
        return ex

    def observe(self, w, host, o):
        got = {"wa": o.get_semi_major_axis(w), "we": o.get_eccentricity(w), "sd": o.get_stellar_distance(w), "se": o.get_stellar_eccentricity(w),
               "wa_world": w.semi_major_axis, "we_world": w.eccentricity}
        if not self.star_host:
            got["sd_host"] = o.get_stellar_distance(host)
            got["se_host"] = o.get_stellar_eccentricity(host)
        for name, x in ({"world": w} if self.star_host else {"world": w, "host": host}).items():
            got["ins_" + name] = x.insolation_heating
            got["Ts_" + name] = x.surface_temperature
        return got


def replay(S, beh, sabotage=False):
    w, host, star, o = S.fresh()
    for k, (label, st) in enumerate(beh):
        problems = []
        try:
            if sabotage and label[0] in ("SetStellarDistance", "SetStellarEcc") and st != beh[k - 1][1]:
                sabotage = False
            else:
                S.perform(w, host, o, label)
            got = S.observe(w, host, o)
            ex = S.expected(w, host, star, st)
        except Exception as exn:
            import traceback
            return {"step": k, "label": label, "problems": [["exception", "%s: %s | %s" % (type(exn).__name__, str(exn)[:200], traceback.format_exc()[-500:])]],
                    "prefix": [b[0] for b in beh[:k + 1]]}
        pairs = [("wa", "wa"), ("we", "we"), ("sd", "sd"), ("se", "se"), ("wa_world", "wa"), ("we_world", "we")]
        if not S.star_host:
            pairs += [("sd_host", "sd"), ("se_host", "se")]
        for name in (("world",) if S.star_host else ("world", "host")):
            pairs += [("ins_" + name, "ins_" + name), ("Ts_" + name, "Ts_" + name)]
        for g, e in pairs:
            if not close(got[g], ex[e]):
                problems.append([g, "real %s, functional API at the StellarOrbit.tla state %s" % (js(got[g]), js(ex[e]))])
        if problems:
            return {"step": k, "label": label, "problems": problems, "prefix": [b[0] for b in beh[:k + 1]]}
    return None


def main():
    job = json.load(open(sys.argv[1]))
    out = []
    n = 0
    for gi, g in enumerate(job["groups"]):
        S = System(g["shape"], g["form"])
        for bi, beh in enumerate(g["behaviours"]):
            r = replay(S, beh, sabotage=bool(job.get("sabotage")) and gi == 0 and bi == 0)
            n += len(beh)
            if r:
                r.update(group=gi, behaviour=bi, shape=g["shape"], form=g["form"])
                out.append(r)
    json.dump({"results": out, "steps": n}, open(sys.argv[1] + ".out.json", "w"))


if __name__ == "__main__":
    main()
