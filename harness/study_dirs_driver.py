"""Replay driver for specs/StudyDirs.tla: incarnations of multiprocessing_run with force_restart / post-processing options and a
SIGKILL at a named point, on one base directory; after every incarnation the directory tree is projected onto the spec's state.

python -m harness.study_dirs_driver <scenarios.json> <outroot>  ->  <outroot>/<id>/result.json"""
import json
import os
import signal
import sys
import time

from . import mp_driver as D


def project(base):
    """-> list of dir states: base, restarted_study_1, ... (existing ones and the first missing one are reported)"""
    out = []
    k = 0
    while True:
        d = base if k == 0 else os.path.join(base, "restarted_study_%d" % k)
        st = {"exists": os.path.isdir(d), "hdr": "none", "cases": "none", "pp": "none", "completed": False}
        if st["exists"]:
            lp = os.path.join(d, "tpy_mp.log")
            if os.path.isfile(lp):
                txt = open(lp).read()
                st["hdr"] = "full" if ('------Inputs Below------\n' in txt and '\n------------\n' in txt) else "partial"
                st["completed"] = "Study successfully completed" in txt
            n = sum(1 for x in os.listdir(d) if x.startswith("index_") and os.path.isfile(os.path.join(d, x, "mp_success.log")))
            st["cases"] = "none" if n == 0 else ("all" if n == D.NX * D.NY else "some")
            pp = os.path.join(d, "post_processing")
            if os.path.isdir(pp):
                st["pp"] = "done" if os.path.isfile(os.path.join(pp, "pp_done")) else "dir"
        out.append(st)
        if not st["exists"] and k > 0:
            break
        k += 1
        if k > 8:
            break
    return out


def run_inc(scen, root, i, spec):
    os.setsid()
    devnull = os.open(os.devnull, os.O_RDWR)
    os.dup2(devnull, 0)
    log = os.open(os.path.join(root, "stdout_%d.log" % i), os.O_WRONLY | os.O_CREAT | os.O_TRUNC, 0o644)
    os.dup2(log, 1)
    os.dup2(log, 2)
    sc = dict(scen, kills=[dict(inc=i, ev=spec["kill"], c=spec.get("kill_c"))] if spec.get("kill") else [], dirs_events=True, fail=[], kind="list")
    ctx = D.Ctx(sc, root, i)
    M = D.install(ctx)
    study = D.make_study(ctx)

    def post(post_dir, results, inputs, arrays):
        ctx.emit("PPBegin")
        with open(os.path.join(post_dir, "pp_begin"), "w") as f:
            f.write("x")
        ctx.emit("PPMid")
        with open(os.path.join(post_dir, "pp_done"), "w") as f:
            f.write(str(len(results)))
        ctx.emit("PPEnd")

    status = "returned"
    try:
        res = M.multiprocessing_run(ctx.study_dir, "verif", study, D.grid_inputs("list"), postprocess_func=post,
                                    force_restart=bool(spec["fr"]), force_post_process_rerun=bool(spec["ppr"]), verbose=False, max_procs=4,
                                    perform_memory_check=False, avoid_crashes=True)
        if res is None:
            status = "study_crashed"
    except BaseException as ex:
        status = "raised:" + type(ex).__name__
    json.dump({"status": status}, open(os.path.join(root, "outcome_%d.json" % i), "w"))
    os._exit(0)


def run_scenario(scen, outroot):
    root = os.path.join(outroot, str(scen["id"]))
    os.makedirs(os.path.join(root, "counters"))
    base = os.path.join(root, "study")
    steps = []
    for i, spec in enumerate(scen["incs"], 1):
        pid = os.fork()
        if pid == 0:
            try:
                run_inc(scen, root, i, spec)
            finally:
                os._exit(3)
        deadline = time.time() + 120
        status = None
        while time.time() < deadline:
            w, st = os.waitpid(pid, os.WNOHANG)
            if w:
                status = st
                break
            time.sleep(0.005)
        if status is None:
            try:
                os.killpg(pid, signal.SIGKILL)
            except ProcessLookupError:
                pass
            os.waitpid(pid, 0)
            steps.append({"status": "timeout", "dirs": project(base)})
            break
        try:
            os.killpg(pid, signal.SIGKILL)
        except (ProcessLookupError, PermissionError):
            pass
        for _ in range(2000):
            if not D.group_alive(pid):
                break
            time.sleep(0.002)
        if os.WIFSIGNALED(status):
            st_txt = "killed"
        else:
            try:
                st_txt = json.load(open(os.path.join(root, "outcome_%d.json" % i)))["status"]
            except Exception:
                st_txt = "no_outcome"
        steps.append({"status": st_txt, "dirs": project(base)})
    json.dump({"scen": scen, "steps": steps}, open(os.path.join(root, "result.json"), "w"))


def main():
    scens = json.load(open(sys.argv[1]))
    import TidalPy  # noqa
    import TidalPy.utilities.multiprocessing.multiprocessing  # noqa
    import numpy
    from TidalPy.utilities.numpy_helper.array_other import find_nearest
    find_nearest(numpy.linspace(0., 1., 3), 0.5)
    for s in scens:
        try:
            run_scenario(s, sys.argv[2])
        except Exception:
            import traceback
            open(os.path.join(sys.argv[2], "driver_error_%s.txt" % s["id"]), "w").write(traceback.format_exc())


if __name__ == "__main__":
    main()
