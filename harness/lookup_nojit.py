"""Run with NUMBA_DISABLE_JIT=1: every multi-degree lookup helper (eccentricity and inclination) is evaluated as plain Python
on exact arguments and compared with the per-degree tables it must return. Prints one JSON line."""
import json
import sys

import numpy as np


def main():
    import logging
    import TidalPy  # noqa
    logging.disable(logging.CRITICAL)
    from harness import hansen_exact as HX
    import importlib
    from TidalPy.tides.modes.mode_manipulation import eccentricity_functions_lookup, inclination_functions_lookup
    e = HX.e
    bad = []
    n = 0

    def coeffs(x):
        return [str(c) for c in x.c] if isinstance(x, HX.P) else [str(HX.Fr(x))]

    for N, by_l in eccentricity_functions_lookup.items():
        for lmax, fn in by_l.items():
            n += 1
            f = getattr(fn, "py_func", fn)
            try:
                res = f(e)
            except Exception as ex:
                bad.append({"kind": "eccentricity", "N": N, "lmax": lmax, "what": "raised %s: %s" % (type(ex).__name__, str(ex)[:100])})
                continue
            if sorted(res.keys()) != list(range(2, lmax + 1)):
                bad.append({"kind": "eccentricity", "N": N, "lmax": lmax, "what": "degrees %s" % sorted(res.keys())})
                continue
            for l in range(2, lmax + 1):
                tf = getattr(importlib.import_module("TidalPy.tides.eccentricity_funcs.orderl%d" % l), "eccentricity_funcs_trunc%d" % N, None)
                if tf is None:
                    bad.append({"kind": "eccentricity", "N": N, "lmax": lmax, "l": l, "what": "the lookup offers truncation %d for degree %d but no such table is published (orderl%d has no eccentricity_funcs_trunc%d)" % (N, l, l, N)})
                    continue
                ref = getattr(tf, "py_func", tf)(e)
                same = set(ref.keys()) == set(res[l].keys()) and all(
                    set(ref[p].keys()) == set(res[l][p].keys()) and all(coeffs(ref[p][q]) == coeffs(res[l][p][q]) for q in ref[p]) for p in ref)
                if not same:
                    bad.append({"kind": "eccentricity", "N": N, "lmax": lmax, "l": l, "what": "sub-table is not the l=%d N=%d table" % (l, N)})
    ang = np.array([0.3, 1.1, 2.6])
    for use_obl, by_l in inclination_functions_lookup.items():
        for lmax, fn in by_l.items():
            n += 1
            f = getattr(fn, "py_func", fn)
            arg = ang if use_obl else np.zeros(3)
            res = f(arg)
            from TidalPy.tides import inclination_funcs as IF
            if sorted(res.keys()) != list(range(2, lmax + 1)):
                bad.append({"kind": "inclination", "obliquity": use_obl, "lmax": lmax, "what": "degrees %s" % sorted(res.keys())})
                continue
            for l in range(2, lmax + 1):
                tf = (IF.inclination_functions_on if use_obl else IF.inclination_functions_off)[l]
                ref = getattr(tf, "py_func", tf)(arg)
                same = set(ref.keys()) == set(res[l].keys()) and all(np.array_equal(np.asarray(ref[k]), np.asarray(res[l][k])) for k in ref)
                if not same:
                    bad.append({"kind": "inclination", "obliquity": use_obl, "lmax": lmax, "l": l, "what": "sub-table is not calc_inclin_l%d%s" % (l, "" if use_obl else "_off")})
    print("RESULT " + json.dumps({"helpers": n, "bad": bad}))


if __name__ == "__main__":
    main()
