from fractions import Fraction as Fr
N = 22
class P:
    """Truncated power series in e (order N) with Fraction coefficients."""
    __slots__ = ('c',)
    def __init__(s, c): s.c = list(c) + [Fr(0)] * (N + 1 - len(c))
    @staticmethod
    def lift(x): return x if isinstance(x, P) else P([Fr(x)])
    def __add__(s, o): o = P.lift(o); return P([a + b for a, b in zip(s.c, o.c)])
    __radd__ = __add__
    def __neg__(s): return P([-a for a in s.c])
    def __sub__(s, o): return s + (-P.lift(o))
    def __rsub__(s, o): return P.lift(o) - s
    def __mul__(s, o):
        o = P.lift(o); r = [Fr(0)] * (N + 1)
        for i, a in enumerate(s.c):
            if a == 0: continue
            for j, b in enumerate(o.c):
                if i + j > N: break
                if b: r[i + j] += a * b
        return P(r)
    __rmul__ = __mul__
    def inv(s):
        a0 = s.c[0]; r = [Fr(0)] * (N + 1); r[0] = 1 / a0
        for k in range(1, N + 1):
            r[k] = -sum(s.c[j] * r[k - j] for j in range(1, k + 1)) / a0
        return P(r)
    def __truediv__(s, o): return s * P.lift(o).inv()
    def __rtruediv__(s, o): return P.lift(o) * s.inv()
    def __pow__(s, k):
        if k < 0: return (s ** (-k)).inv()
        r = P([1])
        for _ in range(int(k)): r = r * s
        return r
e = P([0, 1])
