"""X^{n,m}_k(e) = (1+b^2)^{-(n+1)} sum_s J_s(k e) [z^{k-m-s}] (1-b z)^{n-m+1} (1-b/z)^{n+m+1},  b = (1-sqrt(1-e^2))/e.
G_lpq = X^{-(l+1), l-2p}_{l-2p+q}.  Exact rationals; validated against every shipped eccentricity table."""
import warnings; warnings.filterwarnings('ignore')
import sys, os, importlib
sys.path.insert(0, os.path.dirname(__file__))
from fractions import Fraction as Fr
from math import factorial
from poly import P, N, e

def _binom_half(k):
    r = Fr(1)
    for i in range(k): r *= (Fr(1, 2) - i)
    return r / factorial(k)
_sq = P([0])
for _k in range(0, N // 2 + 1):
    _c = [Fr(0)] * (N + 1); _c[2 * _k] = _binom_half(_k) * (-1) ** _k
    _sq = _sq + P(_c)                      # sqrt(1 - e^2)
beta = P((P([1]) - _sq).c[1:] + [Fr(0)])   # (1 - sqrt(1-e^2)) / e

def gbinom(A, a):
    r = Fr(1)
    for i in range(a): r *= (A - i)
    return r / factorial(a)
def ppow(x, k):
    r = P([1])
    for _ in range(k): r = r * x
    return r
def bessel_J(s, k):
    if s < 0: return bessel_J(-s, k) * ((-1) ** (-s))
    r = P([0]); x = e * Fr(k, 2); j = 0
    while 2 * j + s <= N:
        r = r + ppow(x, 2 * j + s) * Fr((-1) ** j, factorial(j) * factorial(j + s)); j += 1
    return r
def hansen(n, m, k):
    A = n - m + 1; B = n + m + 1
    bp = [P([1])]
    for i in range(1, N + 2): bp.append(bp[-1] * beta)
    tot = P([0])
    for s in range(-N - 2, N + 3):
        Js = bessel_J(s, k)
        if all(c == 0 for c in Js.c): continue
        t = k - m - s; coef = P([0])
        for b in range(0, N + 1):
            a = b + t
            if a < 0: continue
            if a + b > N: break
            coef = coef + bp[a + b] * (gbinom(A, a) * gbinom(B, b) * (-1) ** (a + b))
        tot = tot + Js * coef
    one_b2 = P([1]) + beta * beta
    pref = one_b2 ** (-(n + 1)) if -(n + 1) >= 0 else (one_b2 ** (n + 1)).inv()
    return pref * tot
def G2(l, p, q):
    X = hansen(-(l + 1), l - 2 * p, l - 2 * p + q); return X * X

if __name__ == '__main__':
    bad = missing = 0
    for l in range(2, 8):
        mod = importlib.import_module(f'TidalPy.tides.eccentricity_funcs.orderl{l}')
        cache = {}
        for Ntr in range(2, 21, 2):
            tab = getattr(mod, f'eccentricity_funcs_trunc{Ntr}').py_func(e)
            for p in range(0, l + 1):
                for q in range(-12, 13):
                    if (p, q) not in cache: cache[(p, q)] = G2(l, p, q)
                    g = [float(x) for x in cache[(p, q)].c[:Ntr + 1]]
                    if not (p in tab and q in tab[p]):
                        if any(g): missing += 1; print('MISSING', l, Ntr, p, q)
                        continue
                    for i in range(Ntr + 1):
                        b = float(tab[p][q].c[i])
                        if abs(g[i] - b) > 1e-11 * max(1, abs(g[i])): bad += 1; print('MISMATCH', l, Ntr, p, q, i, g[i], b)
        print('l', l, 'done', flush=True)
    print('total mismatches', bad, 'missing', missing)   # round 0: 0 and 0
