"""F_lmp(I) = (l+m)!/(2^l p!(l-p)!) sum_k (-1)^k C(2l-2p,k) C(2p,l-m-k) c^(3l-m-2p-2k) s^(m-l+2p+2k), c=cos(I/2), s=sin(I/2)."""
import warnings; warnings.filterwarnings('ignore')
import numpy as np, importlib
from math import comb, factorial
from fractions import Fraction as Fr
def F(l, m, p, I):
    c = np.cos(I / 2); s = np.sin(I / 2)
    pref = Fr(factorial(l + m), 2 ** l * factorial(p) * factorial(l - p)); tot = 0.0
    for k in range(0, 2 * l - 2 * p + 1):
        j = l - m - k
        if j < 0 or j > 2 * p: continue
        a = 3 * l - m - 2 * p - 2 * k; b = m - l + 2 * p + 2 * k
        if a < 0 or b < 0: continue
        tot = tot + (-1) ** k * comb(2 * l - 2 * p, k) * comb(2 * p, j) * c ** a * s ** b
    return float(pref) * tot
if __name__ == '__main__':
    I = np.linspace(0.0, np.pi, 41)
    for l in range(2, 8):
        mod = importlib.import_module(f'TidalPy.tides.inclination_funcs.orderl{l}')
        res = mod.calc_inclination.py_func(I); off = mod.calc_inclination_off.py_func(I)
        for m in range(0, l + 1):
            for p in range(0, l + 1):
                f2 = F(l, m, p, I) ** 2
                if (m, p) in res:
                    d = np.max(np.abs(res[(m, p)] - f2) / np.maximum(1.0, np.abs(f2)))
                    if d > 1e-9: print('MISMATCH', l, m, p, d)      # round 0: only l=6 (3,3): cos_i_half should be **4
                elif np.max(np.abs(f2)) > 1e-14: print('MISSING', l, m, p)
                z = F(l, m, p, np.array([0.0]))[0] ** 2
                if (m, p) in off:
                    if abs(off[(m, p)][0] - z) > 1e-12 * max(1, z): print('OFF MISMATCH', l, m, p)
                elif z > 1e-14: print('OFF MISSING', l, m, p)
    print('done')
