SPECIFICATION Spec
CONSTANTS
  MaxSteps = 6
  Bug = TRUE
INVARIANT C13_HostFresh
INVARIANT C13_MoonFresh
INVARIANT C13_OrbitFresh
CHECK_DEADLOCK FALSE
