SPECIFICATION Spec
CONSTANTS
  Moons = {"m1", "m2", "m3"}
  NVals = 2
  MaxSteps = 14
  AllowReAdd = TRUE
  MaxSlots = 5
INVARIANT TypeOK
INVARIANT StorageAligned
INVARIANT TablesPointHome
INVARIANT RaiserAdded
INVARIANT NothingForStrangers
PROPERTY IndexStable
PROPERTY Isolation
PROPERTY PointerOnly
PROPERTY ClearAllClearsInstances
CHECK_DEADLOCK FALSE
