------------------------------ MODULE StudyDirs ------------------------------
(***************************************************************************)
(* Directory life cycle of TidalPy's multiprocessing_run around the journal  *)
(* that MPStudy.tla models: which directory an incarnation works in          *)
(* (base directory, or restarted_study_<k> under force_restart), the header,  *)
(* the cases (abstracted to none / some / all: MPStudy.tla has the detail),   *)
(* post-processing (mkdir post_processing, run the user's function, optional  *)
(* re-run) and the completion line - with a SIGKILL possible between any two  *)
(* steps.  This extends the specification beyond the listed property C18.     *)
(*                                                                         *)
(* dirs[1] is the base directory, dirs[k+1] is restarted_study_<k>.           *)
(***************************************************************************)
EXTENDS Naturals, FiniteSets, TLC

CONSTANTS MaxDirs,        \* base + MaxDirs-1 restarted studies
          MaxInc, MaxCrash,
          ForceRestartChoices,   \* subset of BOOLEAN an incarnation may pass as force_restart
          RerunChoices           \* subset of BOOLEAN an incarnation may pass as force_post_process_rerun

VARIABLES dirs, pc, cur, opts, inc, crashes, returned, startDirs
vars == <<dirs, pc, cur, opts, inc, crashes, returned, startDirs>>

Empty == [exists |-> FALSE, hdr |-> "none", cases |-> "none", pp |-> "none", completed |-> FALSE]
Init == /\ dirs = [k \in 1..MaxDirs |-> Empty]
        /\ pc = "idle" /\ cur = 1 /\ opts = [fr |-> FALSE, ppr |-> TRUE]
        /\ inc = 1 /\ crashes = 0 /\ returned = {} /\ startDirs = [k \in 1..MaxDirs |-> Empty]

FreeDirs == {k \in 2..MaxDirs : ~dirs[k].exists}
MinFree == CHOOSE k \in FreeDirs : \A j \in FreeDirs : k <= j

\* the decision at the top of multiprocessing_run
Begin(fr, ppr) ==
  /\ pc = "idle" /\ inc <= MaxInc
  /\ opts' = [fr |-> fr, ppr |-> ppr] /\ startDirs' = dirs
  /\ IF dirs[1].exists /\ dirs[1].hdr # "none"
       THEN IF fr THEN /\ FreeDirs # {}                       \* (the model stops when it runs out of directories)
                       /\ cur' = MinFree /\ pc' = "mkdir"
                  ELSE /\ cur' = 1
                       /\ pc' = IF dirs[1].hdr = "full" THEN "cases" ELSE "raised"     \* restart: the header must parse
       ELSE /\ cur' = 1 /\ pc' = IF dirs[1].exists THEN "whdr" ELSE "mkdir"
  /\ UNCHANGED <<dirs, inc, crashes, returned>>

MkDir == /\ pc = "mkdir" /\ dirs' = [dirs EXCEPT ![cur].exists = TRUE] /\ pc' = "whdr"
         /\ UNCHANGED <<cur, opts, inc, crashes, returned, startDirs>>
HeaderBegin == /\ pc = "whdr" /\ dirs' = [dirs EXCEPT ![cur].hdr = "partial"] /\ pc' = "whdr2"
               /\ UNCHANGED <<cur, opts, inc, crashes, returned, startDirs>>
HeaderEnd == /\ pc = "whdr2" /\ dirs' = [dirs EXCEPT ![cur].hdr = "full"] /\ pc' = "cases"
             /\ UNCHANGED <<cur, opts, inc, crashes, returned, startDirs>>
\* the pool: a kill inside leaves some of the cases done (Crash below); MPStudy.tla shows that none is lost or redone
SomeCases == /\ pc = "cases" /\ dirs[cur].cases = "none" /\ dirs' = [dirs EXCEPT ![cur].cases = "some"]
             /\ UNCHANGED <<pc, cur, opts, inc, crashes, returned, startDirs>>
AllCases == /\ pc = "cases" /\ dirs' = [dirs EXCEPT ![cur].cases = "all"] /\ pc' = "pp"
            /\ UNCHANGED <<cur, opts, inc, crashes, returned, startDirs>>
PostProcess == /\ pc = "pp"
               /\ IF dirs[cur].pp = "none" THEN dirs' = [dirs EXCEPT ![cur].pp = "dir"] /\ pc' = "pp_run"
                  ELSE IF opts.ppr THEN UNCHANGED dirs /\ pc' = "pp_run"
                  ELSE UNCHANGED dirs /\ pc' = "complete"
               /\ UNCHANGED <<cur, opts, inc, crashes, returned, startDirs>>
PostRun == /\ pc = "pp_run" /\ dirs' = [dirs EXCEPT ![cur].pp = "done"] /\ pc' = "complete"
           /\ UNCHANGED <<cur, opts, inc, crashes, returned, startDirs>>
Complete == /\ pc = "complete" /\ dirs' = [dirs EXCEPT ![cur].completed = TRUE]
            /\ returned' = returned \cup {<<inc, cur>>} /\ pc' = "idle" /\ inc' = inc + 1
            /\ UNCHANGED <<cur, opts, crashes, startDirs>>
Raised == /\ pc = "raised" /\ pc' = "idle" /\ inc' = inc + 1
          /\ UNCHANGED <<dirs, cur, opts, crashes, returned, startDirs>>
Crash == /\ pc \notin {"idle", "raised"} /\ crashes < MaxCrash
         /\ crashes' = crashes + 1 /\ pc' = "idle" /\ inc' = inc + 1
         /\ UNCHANGED <<dirs, cur, opts, returned, startDirs>>

Next == (\E fr \in ForceRestartChoices, ppr \in RerunChoices : Begin(fr, ppr))
        \/ MkDir \/ HeaderBegin \/ HeaderEnd \/ SomeCases \/ AllCases \/ PostProcess \/ PostRun \/ Complete \/ Raised \/ Crash
Spec == Init /\ [][Next]_vars /\ WF_vars(MkDir \/ HeaderBegin \/ HeaderEnd \/ AllCases \/ PostProcess \/ PostRun \/ Complete \/ Raised)

\* ---- properties ----
\* an incarnation writes only inside the directory it chose
NoClobber == \A k \in 1..MaxDirs : (pc # "idle" /\ k # cur) => dirs[k] = startDirs[k]
\* a forced restart never continues (or truncates) an existing study: the directory it takes did not exist
FreshIsFresh == (pc = "mkdir" /\ cur > 1) => ~startDirs[cur].exists
\* a study that reports completion has run all its cases ...
CompletedAllCases == \A k \in 1..MaxDirs : dirs[k].completed => dirs[k].cases = "all"
\* ... and its post-processing function has run to its end at least once
CompletedPostProcessed == \A k \in 1..MaxDirs : dirs[k].completed => dirs[k].pp = "done"
\* completion is reported only together with the completion line
ReturnedMeansCompleted == \A r \in returned : dirs[r[2]].completed
\* structure
TypeOK == \A k \in 1..MaxDirs : /\ (dirs[k].hdr # "none" => dirs[k].exists)
                               /\ (dirs[k].cases # "none" => dirs[k].hdr = "full")
                               /\ (dirs[k].pp # "none" => dirs[k].cases = "all")
\* restarted studies are numbered without gaps
NoGaps == \A k \in 3..MaxDirs : dirs[k].exists => dirs[k - 1].exists
=============================================================================
