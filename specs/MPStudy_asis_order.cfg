SPECIFICATION Spec
CONSTANTS
  Cases = {0, 1, 2}
  MaxWorkers = 2
  MaxCrash = 2
  MaxInc = 3
  FailSets <- MCAllFailSets
  MustKinds <- MCAllKinds
  ResultFirst = FALSE
  OwnCaseNumber = TRUE
  ParserStripsParens = TRUE
  Transient = FALSE
  CrashInHeader = FALSE
INVARIANT TypeOK
INVARIANT C18_RestartCompletes
INVARIANT C18_ExactlyOneResult
INVARIANT C18_OwnIdentity
PROPERTY C18_NoRedo
CHECK_DEADLOCK FALSE
