SPECIFICATION Spec
CONSTANTS
  Y1s <- MCY1s
  Ds <- MCDs
  Y3s <- MCY3s
  Y4s <- MCY4s
  Mus <- MCMus
  Ks <- MCKs
  Rs = {1, 2, 5}
  Ls = {2, 3, 4}
INVARIANT C05_All
CHECK_DEADLOCK FALSE
