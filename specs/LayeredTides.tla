----------------------------- MODULE LayeredTides -----------------------------
(***************************************************************************)
(* Update cascade of a LAYERED world (property C13, the layered tidal model *)
(* and the temperature input):                                             *)
(*   orbit -> world -> LayeredTides (tides/methods/{base,layered}.py)       *)
(*   layer temperature / strength -> Rheology -> complex compliances        *)
(*       (structures/layers/physics.py, rheology/rheology.py,               *)
(*        rheology/complex_compliance/complex_compliance.py)                *)
(*   -> LayeredTides.collapse_modes -> world.dissipation_changed -> orbit.  *)
(*                                                                         *)
(* Same conventions as WorldTides.tla: inputs are value ids, every memoised *)
(* result stores the ids it was computed from, so "stale" is a state        *)
(* predicate; one action per public API path, each raising exactly the      *)
(* flags the code raises on that path.  The world has one tidal layer (the  *)
(* mantle of io_simple); its core does not contribute to tides.             *)
(***************************************************************************)
EXTENDS Integers, TLC

CONSTANTS SpinSync,   \* world configured with force_spin_sync
          ObliqOn,    \* tides configured with obliquity_tides_on
          NVals,      \* number of alternative values per input (value ids 0..NVals-1)
          NLayers,    \* number of tidally active layers (io_simple: 1, earth_simple: 2); each has its own temperature / strength
          Bug         \* "none", or a deliberately broken cascade (negative controls of the model)

VARIABLES e, obl, orb, spin, tm, tw,    \* inputs: eccentricity, obliquity, orbital frequency, spin, mantle strength source, time
          sus, eccRes, oblRes, terms,   \* memos of TidesBase
          ufreq,                        \* unique tidal frequencies handed to the rheology
          visc,                         \* viscosity / shear of the tidal layer (id of what it was computed from)
          compl,                        \* complex compliances of the tidal layer
          coll, deriv,                  \* exposed results (heating, dU/d*, k2, per-layer heating) and orbit derivatives
          radio                         \* radiogenic heating of the layers (id of the time it was computed for)

inputs == <<e, obl, orb, spin, tm, tw>>
memos == <<sus, eccRes, oblRes, terms, ufreq, visc, compl, coll, deriv, radio>>
vars == <<inputs, memos>>

None == <<>>
Vals == 0..(NVals - 1)
NotGiven == -1
NoSpin == -2
NoTemp == -3
Zero == 9
\* strength sources: <<"T", i>> = computed from temperature id i; <<"S", i>> = given directly through set_strength (id i)
StrengthIds == {<<"T", i>> : i \in Vals} \cup {<<"S", i>> : i \in Vals}

Memo == [sus |-> sus, eccRes |-> eccRes, oblRes |-> oblRes, terms |-> terms, ufreq |-> ufreq, visc |-> visc,
         compl |-> compl, coll |-> coll, deriv |-> deriv]

\* PhysicsOrbit.dissipation_changed
OrbitDiss(m, ne, norb) == IF m.coll # None THEN [m EXCEPT !.deriv = <<m.coll, ne, norb>>] ELSE m

Layers == 1..NLayers
NoneL == [L \in Layers |-> None]
\* ComplexCompliance._calculate of one layer: only when the tidal frequencies AND that layer's strength exist; otherwise the old value stays
CalcComplL(m, L) == IF m.ufreq # None /\ m.visc[L] # None THEN [m EXCEPT !.compl[L] = <<m.visc[L], m.ufreq>>] ELSE m
\* world.tidal_frequencies_changed: every layer in turn
RECURSIVE CalcComplUpTo(_, _)
CalcComplUpTo(m, n) == IF n = 0 THEN m ELSE CalcComplL(CalcComplUpTo(m, n - 1), n)
CalcCompl(m) == CalcComplUpTo(m, NLayers)

\* LayeredTides.collapse_modes: needs the tidal terms; breaks out (keeps the old results) if the layer has no compliances yet
Collapse(m, ne, norb) ==
  IF m.terms # None /\ (\A L \in Layers : m.compl[L] # None)
    THEN OrbitDiss([m EXCEPT !.coll = <<m.terms, m.compl, m.sus>>], ne, norb)
    ELSE m

\* TidesBase.orbit_spin_changed (repaired: terms are recomputed whenever eccentricity / obliquity results were refreshed),
\* then world.tidal_frequencies_changed(collapse_tidal_modes=False) -> rheology -> compliances, then collapse_modes
TidesOSC(m, ne, nobl, norb, nspin, eccCh, oblCh, orbCh, spinCh) ==
  LET m1 == IF orbCh THEN [m EXCEPT !.sus = norb] ELSE m
      eccUpd == eccCh \/ m1.eccRes = NotGiven
      m2 == IF eccUpd THEN [m1 EXCEPT !.eccRes = ne] ELSE m1
      oblUpd == IF ObliqOn THEN (oblCh \/ m2.oblRes = NotGiven) ELSE m2.oblRes = NotGiven
      m3 == IF oblUpd THEN [m2 EXCEPT !.oblRes = IF ObliqOn THEN nobl ELSE Zero] ELSE m2
      need0 == eccUpd \/ oblUpd
      doTerms == (spinCh \/ orbCh \/ need0) /\ nspin # NoSpin
      m4 == IF doTerms THEN [m3 EXCEPT !.terms = <<m3.eccRes, m3.oblRes, norb, nspin>>, !.ufreq = <<norb, nspin>>] ELSE m3
      \* negative control "no_compl_on_freq": new tidal frequencies are not handed to the rheology
      m5 == IF doTerms /\ Bug # "no_compl_on_freq" THEN CalcCompl(m4) ELSE m4
  IN IF need0 \/ doTerms THEN Collapse(m5, ne, norb) ELSE m5

WorldOSC(m, ne, nobl, norb, nspin, eccCh, oblCh, orbCh, spinCh) ==
  OrbitDiss(TidesOSC(m, ne, nobl, norb, nspin, eccCh, oblCh, orbCh, spinCh), ne, norb)

\* layer temperature / strength changed: viscosity models -> Rheology.strength_changed -> compliances ->
\* complex_compliances_changed (only if there ARE compliances) -> world -> tides.collapse_modes
StrengthChanged(m, L, src, ne, norb) ==
  LET m1 == [m EXCEPT !.visc[L] = src]
      m2 == CalcComplL(m1, L)
  \* negative control "no_collapse_on_strength": a strength change recomputes the compliances but does not collapse the modes
  IN IF m2.compl[L] # None /\ Bug # "no_collapse_on_strength" THEN Collapse(m2, ne, norb) ELSE m2

SetMemos(m) == /\ sus' = m.sus /\ eccRes' = m.eccRes /\ oblRes' = m.oblRes /\ terms' = m.terms /\ ufreq' = m.ufreq
               /\ visc' = m.visc /\ compl' = m.compl /\ coll' = m.coll /\ deriv' = m.deriv
SetMemos0(m) == /\ sus = m.sus /\ eccRes = m.eccRes /\ oblRes = m.oblRes /\ terms = m.terms /\ ufreq = m.ufreq
                /\ visc = m.visc /\ compl = m.compl /\ coll = m.coll /\ deriv = m.deriv

BlankMemo == [sus |-> 0, eccRes |-> NotGiven, oblRes |-> NotGiven, terms |-> None, ufreq |-> None, visc |-> NoneL,
              compl |-> NoneL, coll |-> None, deriv |-> None]
\* construction: PhysicsOrbit(...) runs the cascade once (eccentricity and orbital frequency from the configuration); no
\* layer temperature has been set
Init ==
  /\ e = 0 /\ obl = 0 /\ orb = 0 /\ tm = NoneL /\ tw = None /\ radio = None
  /\ spin = (IF SpinSync THEN 0 ELSE NoSpin)
  /\ SetMemos0(WorldOSC(BlankMemo, 0, 0, 0, IF SpinSync THEN 0 ELSE NoSpin, TRUE, FALSE, TRUE, SpinSync))

Given(x) == x # NotGiven
New(x, old) == IF Given(x) THEN x ELSE old

\* world.set_state(spin_*, obliquity, eccentricity, orbital_*)
WorldSetState(sp, ob, ec, orv) ==
  /\ Given(sp) \/ Given(ob) \/ Given(ec) \/ Given(orv)
  /\ (SpinSync => ~Given(sp))
  /\ LET ne == New(ec, e)  nobl == New(ob, obl)  norb == New(orv, orb)
         nspin == IF Given(orv) /\ SpinSync THEN norb ELSE New(sp, spin)
     IN /\ e' = ne /\ obl' = nobl /\ orb' = norb /\ spin' = nspin /\ tm' = tm /\ UNCHANGED <<tw, radio>>
        /\ SetMemos(WorldOSC(Memo, ne, nobl, norb, nspin, Given(ec), Given(ob), Given(orv), Given(sp)))
WorldSetSpin(sp) == /\ ~SpinSync /\ spin' = sp /\ UNCHANGED <<e, obl, orb, tm, tw, radio>>
                    /\ SetMemos(WorldOSC(Memo, e, obl, orb, sp, FALSE, FALSE, FALSE, TRUE))
WorldSetObliquity(ob) == /\ obl' = ob /\ UNCHANGED <<e, orb, spin, tm, tw, radio>>
                         /\ SetMemos(WorldOSC(Memo, e, ob, orb, spin, FALSE, TRUE, FALSE, FALSE))
\* orbit.set_state(world, eccentricity, orbital_*) and the single-quantity setters / world properties
OrbitSetState(ec, orv) ==
  /\ Given(ec) \/ Given(orv)
  /\ LET ne == New(ec, e)  norb == New(orv, orb)
         nspin == IF Given(orv) /\ SpinSync THEN norb ELSE spin
     IN /\ e' = ne /\ orb' = norb /\ spin' = nspin /\ UNCHANGED <<obl, tm, tw, radio>>
        /\ SetMemos(WorldOSC(Memo, ne, obl, norb, nspin, Given(ec), FALSE, Given(orv), Given(orv) /\ SpinSync))
\* layer.set_state(temperature=T) / layer.temperature = T / layer.set_temperature(T)
LayerSetTemp(L, t) == /\ tm' = [tm EXCEPT ![L] = <<"T", t>>] /\ UNCHANGED <<e, obl, orb, spin, tw, radio>>
                      /\ SetMemos(StrengthChanged(Memo, L, <<"T", t>>, e, orb))
\* layer.set_strength(viscosity, shear_modulus): overrides what the temperature gave
LayerSetStrength(L, s) == /\ tm' = [tm EXCEPT ![L] = <<"S", s>>] /\ UNCHANGED <<e, obl, orb, spin, tw, radio>>
                          /\ SetMemos(StrengthChanged(Memo, L, <<"S", s>>, e, orb))

\* orbit.time = t (the time lives on the orbit once a world is in one): every world's layers recompute their radiogenic
\* heating; nothing tidal depends on it
OrbitSetTime(t) == /\ tw' = t /\ radio' = t /\ UNCHANGED <<e, obl, orb, spin, tm, sus, eccRes, oblRes, terms, ufreq, visc, compl, coll, deriv>>

OptVals == {NotGiven} \cup Vals
Next ==
  \/ \E sp \in OptVals, ob \in OptVals, ec \in OptVals, orv \in OptVals : WorldSetState(sp, ob, ec, orv)
  \/ \E sp \in Vals : WorldSetSpin(sp)
  \/ \E ob \in Vals : WorldSetObliquity(ob)
  \/ \E ec \in OptVals, orv \in OptVals : OrbitSetState(ec, orv)
  \/ \E L \in Layers, t \in Vals : LayerSetTemp(L, t)
  \/ \E L \in Layers, s \in Vals : LayerSetStrength(L, s)
  \/ \E t \in Vals : OrbitSetTime(t)
Spec == Init /\ [][Next]_vars

\* ---- C13: every exposed derived quantity is a function of the current inputs only ----
OblEff == IF ObliqOn THEN obl ELSE Zero
ExpTerms == <<e, OblEff, orb, spin>>
ExpCompl == [L \in Layers |-> <<tm[L], <<orb, spin>>>>]
ExpColl == <<ExpTerms, ExpCompl, orb>>
AllSet == \A L \in Layers : tm[L] # None
C13_Fresh_Layered ==
  /\ radio = tw
  /\ sus = orb
  /\ \A L \in Layers : (tm[L] # None => visc[L] = tm[L])
  /\ (spin # NoSpin => terms = ExpTerms /\ ufreq = <<orb, spin>>)
  /\ \A L \in Layers : (spin # NoSpin /\ tm[L] # None => compl[L] = ExpCompl[L])
  \* results exist only once EVERY tidal layer has a strength (collapse_modes breaks out otherwise and nothing was ever computed)
  /\ IF spin # NoSpin /\ AllSet THEN coll = ExpColl /\ deriv = <<ExpColl, e, orb>>
                               ELSE coll = None /\ deriv = None
SyncHolds == SpinSync /\ spin # NoSpin => spin = orb
=============================================================================
