----------------------------- MODULE MC_SolverObs -----------------------------
EXTENDS SolverObs
MCProblems == {[name |-> "uniform_solid", core |-> "solid", uniformCore |-> TRUE],
               [name |-> "two_solid", core |-> "solid", uniformCore |-> TRUE],
               [name |-> "liquid_core", core |-> "liquid", uniformCore |-> TRUE],
               [name |-> "solid_liquid_solid", core |-> "solid", uniformCore |-> TRUE],
               [name |-> "ocean_world", core |-> "solid", uniformCore |-> TRUE],
               \* a DYNAMIC liquid core, forced at 1e-3 rad/s (dynamic liquids are documented as unstable at low frequency)
               [name |-> "dyn_liquid_core", core |-> "liquid", uniformCore |-> TRUE]}
=============================================================================
