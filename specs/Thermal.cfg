SPECIFICATION Spec
INVARIANT C19_RadioHalves
INVARIANT C19_RadioAdditive
INVARIANT C19_RadioLinearInMass
INVARIANT C19_RadioReference
INVARIANT C19_RadioDecays
INVARIANT C19_ConvectionAtLeastConduction
INVARIANT C19_ConvectionMonotoneInRa
INVARIANT C19_NoFluxWithoutContrast
INVARIANT C19_MeltRegionsOrdered
INVARIANT Export
CHECK_DEADLOCK FALSE
