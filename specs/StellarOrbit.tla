----------------------------- MODULE StellarOrbit -----------------------------
(***************************************************************************)
(* The stellar side of PhysicsOrbit (property C13: insolation heating and    *)
(* surface temperature are derived quantities the world exposes):            *)
(*   structures/orbit/base.py      set_stellar_distance / _eccentricity,     *)
(*                                 get_stellar_distance / _eccentricity      *)
(*   structures/orbit/physics.py   the same + calculate_insolation           *)
(*   structures/world_types/basic.py set_insolation_heating ->               *)
(*                                 update_surface_temperature                *)
(*                                                                         *)
(* Two shapes of orbit:                                                     *)
(*  StarHost = FALSE  star / tidal host (a planet) / moon: the STELLAR orbit  *)
(*     (distance sd, eccentricity se) belongs to the tidal host and is       *)
(*     shared by every world of the orbit; the moon's OWN orbit around the    *)
(*     host (wa, we) is what tides use.                                      *)
(*  StarHost = TRUE   the star is the tidal host: the world's own orbit IS    *)
(*     the stellar orbit (sd = wa, se = we).                                  *)
(* Values are typed ids <<"d", i>> (a length) and <<"e", i>> (an              *)
(* eccentricity) so that storing one in the other's slot is a type error.    *)
(* Each world's insolation memo records the ids it was computed from.        *)
(*                                                                         *)
(* Bug = "none" is the intended cascade; the other values are the cascade AS  *)
(* FOUND in the repository (each violates an invariant below: negative        *)
(* controls of the model, and the record of what the fix: commits repaired):  *)
(*  "physics_ecc_sets_distance"  PhysicsOrbit.set_stellar_eccentricity called *)
(*                               super().set_stellar_DISTANCE(e)              *)
(*  "base_ecc_on_moon"           OrbitBase.set_stellar_eccentricity(moon, e)  *)
(*                               overwrote the moon's own eccentricity        *)
(*  "stale_on_star_host"         with the star as host, changing the world's  *)
(*                               a / e through the world or the orbit did     *)
(*                               not recompute the insolation                 *)
(***************************************************************************)
EXTENDS Integers, TLC

CONSTANTS StarHost, NVals, Bug

VARIABLES wa, we,     \* the world's own orbit (around the tidal host): semi-major axis id, eccentricity id
          sd, se,     \* the stellar orbit used for insolation
          ins,        \* [world -> <<distance id, eccentricity id>>]: what each world's insolation heating was computed from
          last
vars == <<wa, we, sd, se, ins, last>>

Vals == 0..(NVals - 1)
D(i) == <<"d", i>>
E(i) == <<"e", i>>
Worlds == IF StarHost THEN {"world"} ELSE {"host", "world"}
Via == Worlds                       \* the signature handed to the stellar setters

Recomputed(nsd, nse) == [w \in Worlds |-> <<nsd, nse>>]

\* construction: everything comes from the configurations; add_star / add_tidal_world compute the insolation once
Init == /\ wa = D(0) /\ we = E(0)
        /\ sd = D(IF StarHost THEN 0 ELSE 1) /\ se = E(IF StarHost THEN 0 ELSE 1)
        /\ ins = Recomputed(sd, se) /\ last = <<"Init">>

\* world.set_state(semi_major_axis / orbital_period / ...), world.semi_major_axis = ..., orbit.set_semi_major_axis(world, ...)
WorldSetA(v, path) ==
  /\ wa' = D(v) /\ we' = we /\ last' = <<"WorldSetA", v, path>>
  /\ IF StarHost
       THEN /\ sd' = D(v) /\ se' = se
            /\ ins' = IF Bug = "stale_on_star_host" THEN ins ELSE Recomputed(D(v), se)
       ELSE UNCHANGED <<sd, se, ins>>
WorldSetE(v, path) ==
  /\ we' = E(v) /\ wa' = wa /\ last' = <<"WorldSetE", v, path>>
  /\ IF StarHost
       THEN /\ se' = E(v) /\ sd' = sd
            /\ ins' = IF Bug = "stale_on_star_host" THEN ins ELSE Recomputed(sd, E(v))
       ELSE UNCHANGED <<sd, se, ins>>

\* orbit.set_stellar_distance(signature, d): PhysicsOrbit recomputes the insolation (of that world with the star as host, of
\* every world otherwise)
SetStellarDistance(v, via) ==
  /\ sd' = D(v) /\ se' = se /\ we' = we /\ last' = <<"SetStellarDistance", v, via>>
  /\ wa' = IF StarHost THEN D(v) ELSE wa
  /\ ins' = Recomputed(D(v), se)

\* orbit.set_stellar_eccentricity(signature, e)
SetStellarEcc(v, via) ==
  /\ last' = <<"SetStellarEcc", v, via>>
  /\ IF Bug = "physics_ecc_sets_distance"
       THEN /\ sd' = E(v) /\ se' = se /\ we' = we /\ wa' = (IF StarHost THEN E(v) ELSE wa)
            /\ ins' = Recomputed(E(v), se)
       ELSE IF (Bug = "base_ecc_on_moon" /\ ~StarHost /\ via = "world")
       THEN /\ we' = E(v) /\ UNCHANGED <<wa, sd, se>> /\ ins' = Recomputed(sd, se)
       ELSE /\ se' = E(v) /\ sd' = sd /\ wa' = wa /\ we' = (IF StarHost THEN E(v) ELSE we)
            /\ ins' = Recomputed(sd, E(v))

Paths == {"world_set_state", "world_property", "orbit_setter", "orbit_set_state"}
Next == \/ \E v \in Vals, p \in Paths : WorldSetA(v, p) \/ WorldSetE(v, p)
        \/ \E v \in Vals, via \in Via : SetStellarDistance(v, via) \/ SetStellarEcc(v, via)
Spec == Init /\ [][Next]_vars

(* ---- C13 for the stellar side ---- *)
TypeOK == /\ wa[1] = "d" /\ sd[1] = "d" /\ we[1] = "e" /\ se[1] = "e"
\* every world's insolation is the one of the current stellar orbit (what a freshly built system in this state reports)
C13_InsolationFresh == \A w \in Worlds : ins[w] = <<sd, se>>
StarHostAlias == StarHost => sd = wa /\ se = we
\* the stellar setters store what they were given and leave the moon's own orbit alone; the world's setters leave the stellar orbit alone
SettersStore == [][/\ (last'[1] = "SetStellarDistance" => sd' = D(last'[2]))
                   /\ (last'[1] = "SetStellarEcc" => se' = E(last'[2]))
                   /\ (last'[1] = "WorldSetA" => wa' = D(last'[2]))
                   /\ (last'[1] = "WorldSetE" => we' = E(last'[2]))]_vars
OwnOrbitUntouched == [][~StarHost /\ last'[1] \in {"SetStellarDistance", "SetStellarEcc"} => wa' = wa /\ we' = we]_vars
StellarOrbitUntouched == [][~StarHost /\ last'[1] \in {"WorldSetA", "WorldSetE"} => sd' = sd /\ se' = se /\ ins' = ins]_vars
=============================================================================
