SPECIFICATION Spec
CONSTANTS
  Moons = {"m1", "m2", "m3"}
  NVals = 2
  MaxSteps = 0
  AllowReAdd = FALSE
  MaxSlots = 3
VIEW view
INVARIANT TypeOK
INVARIANT StorageAligned
INVARIANT TablesPointHome
INVARIANT NoDuplicates
INVARIANT LookupAgree
INVARIANT RaiserAdded
INVARIANT NothingForStrangers
PROPERTY IndexStable
PROPERTY Isolation
PROPERTY PointerOnly
PROPERTY ClearAllClearsInstances
CHECK_DEADLOCK FALSE
