SPECIFICATION Spec
CONSTANTS
  Moons = {"m1", "m2", "m3"}
  NVals = 2
  MaxSteps = 0
VIEW view
INVARIANT TypeOK
INVARIANT NoDuplicates
INVARIANT RaiserAdded
INVARIANT NothingForStrangers
PROPERTY IndexStable
PROPERTY Isolation
PROPERTY PointerOnly
CHECK_DEADLOCK FALSE
