SPECIFICATION Spec
CONSTANTS
  StarHost = FALSE
  NVals = 3
  Bug = "physics_ecc_sets_distance"
INVARIANT TypeOK
INVARIANT C13_InsolationFresh
INVARIANT StarHostAlias
PROPERTY SettersStore
PROPERTY OwnOrbitUntouched
PROPERTY StellarOrbitUntouched
CHECK_DEADLOCK FALSE
