---------------------------- MODULE OrbitRegistry ----------------------------
(***************************************************************************)
(* The world registry of an orbit (structures/orbit/base.py): tidal_objects, *)
(* the look-up tables by instance and by name, the per-world storage lists,   *)
(* the host's tide-raiser pointer and world_signature_to_index - for a        *)
(* planet host with several moons.  Beyond the listed properties; C13 and     *)
(* C17 replay single-moon orbits, this is what changes with more than one.    *)
(*                                                                         *)
(*   AddMoon(m)           orbit.add_tidal_world(m): appended, never           *)
(*                        reordered; its orbit comes from its configuration;  *)
(*                        the first moon becomes the host's tide raiser       *)
(*   SetRaiser(m, k)      orbit.set_host_tide_raiser(signature of m)          *)
(*   SetE(s, k, v)        orbit.set_eccentricity(signature, v): signature s   *)
(*                        is a moon or "host", given as instance, name,        *)
(*                        lower-case name, title-case name or index (k)       *)
(*   SetA(s, k, v, via)   the same for the Kepler triple (a, n, P), given as   *)
(*                        semi-major axis, mean motion or period through the  *)
(*                        single-quantity setter or through set_state (via):  *)
(*                        the harness converts with the true masses, so the   *)
(*                        stored semi-major axis must come out as value v     *)
(*   ClearSpecific(s, k)  orbit.clear_state(clear_all=False, clear_specific=s)*)
(*   ClearAll             orbit.clear_state()                                 *)
(* The tidal host's signature stands for the orbit of whichever moon is       *)
(* currently raising tides on it (world_signature_to_index).                  *)
(***************************************************************************)
EXTENDS Integers, Sequences, FiniteSets, TLC

CONSTANTS Moons, NVals, MaxSteps

VARIABLES order,     \* moons in tidal_objects[1..] (index 0 is the host)
          raiser,    \* the host's tide raiser ("none" before the first moon)
          ecc, sma,  \* [moon -> value id | NoVal]: the orbit's storage
          last, steps
vars == <<order, raiser, ecc, sma, last, steps>>
view == <<order, raiser, ecc, sma>>

NoVal == -1
Vals == 0..(NVals - 1)
Kinds == {"instance", "name", "lower", "title", "index"}
Added == {order[i] : i \in 1..Len(order)}
IndexOf(m) == CHOOSE i \in 1..Len(order) : order[i] = m
\* world_signature_to_index: the host's signature resolves to its tide raiser
Target(s) == IF s = "host" THEN raiser ELSE s

Init == /\ order = <<>> /\ raiser = "none" /\ ecc = [m \in Moons |-> NoVal] /\ sma = [m \in Moons |-> NoVal]
        /\ last = <<"Init">> /\ steps = 0
\* MaxSteps = 0: unbounded (exhaustive runs under VIEW view)
Step(l) == (MaxSteps = 0 \/ steps < MaxSteps) /\ steps' = (IF MaxSteps = 0 THEN 0 ELSE steps + 1) /\ last' = l

AddMoon(m) ==
  /\ m \notin Added /\ Step(<<"AddMoon", m>>)
  /\ order' = Append(order, m)
  /\ ecc' = [ecc EXCEPT ![m] = 0] /\ sma' = [sma EXCEPT ![m] = 0]      \* id 0: the configuration's orbit
  /\ raiser' = IF raiser = "none" THEN m ELSE raiser
SetRaiser(m, k) ==
  /\ m \in Added /\ Step(<<"SetRaiser", m, k>>)
  /\ raiser' = m /\ UNCHANGED <<order, ecc, sma>>
Sigs == Added \cup (IF raiser # "none" THEN {"host"} ELSE {})
SetE(s, k, v) ==
  /\ s \in Sigs /\ Step(<<"SetE", s, k, v>>)
  /\ ecc' = [ecc EXCEPT ![Target(s)] = v] /\ UNCHANGED <<order, raiser, sma>>
Vias == {"a", "n", "P", "state_a", "state_n", "state_P"}
SetA(s, k, v, via) ==
  /\ s \in Sigs /\ Step(<<"SetA", s, k, v, via>>)
  /\ sma' = [sma EXCEPT ![Target(s)] = v] /\ UNCHANGED <<order, raiser, ecc>>
ClearSpecific(s, k) ==
  /\ s \in Sigs /\ Step(<<"ClearSpecific", s, k>>)
  /\ ecc' = [ecc EXCEPT ![Target(s)] = NoVal] /\ sma' = [sma EXCEPT ![Target(s)] = NoVal] /\ UNCHANGED <<order, raiser>>
ClearAll ==
  /\ Added # {} /\ Step(<<"ClearAll">>)
  /\ ecc' = [m \in Moons |-> NoVal] /\ sma' = [m \in Moons |-> NoVal] /\ UNCHANGED <<order, raiser>>

Next == \/ \E m \in Moons : AddMoon(m)
        \/ \E m \in Moons, k \in Kinds : SetRaiser(m, k)
        \/ \E s \in Moons \cup {"host"}, k \in Kinds, v \in Vals : SetE(s, k, v) \/ (\E via \in Vias : SetA(s, k, v, via))
        \/ \E s \in Moons \cup {"host"}, k \in Kinds : ClearSpecific(s, k)
        \/ ClearAll
Spec == Init /\ [][Next]_vars

(* ---- properties ---- *)
TypeOK == /\ raiser \in Moons \cup {"none"} /\ \A m \in Moons : ecc[m] \in Vals \cup {NoVal} /\ sma[m] \in Vals \cup {NoVal}
\* a world's orbital index never changes once it is in the orbit
IndexStable == [][\A i \in 1..Len(order) : order'[i] = order[i]]_vars
NoDuplicates == Cardinality(Added) = Len(order)
\* the raiser is a world of the orbit as soon as there is one
RaiserAdded == (raiser = "none" /\ order = <<>>) \/ raiser \in Added
\* nothing is stored for a world that is not in the orbit
NothingForStrangers == \A m \in Moons \ Added : ecc[m] = NoVal /\ sma[m] = NoVal
\* a setter or a clear touches exactly the world its signature resolves to
Isolation == [][last'[1] \in {"SetE", "SetA", "ClearSpecific"} =>
                  \A m \in Moons : m # Target(last'[2]) => ecc'[m] = ecc[m] /\ sma'[m] = sma[m]]_vars
\* moving the raiser pointer changes nothing that is stored
PointerOnly == [][last'[1] = "SetRaiser" => ecc' = ecc /\ sma' = sma]_vars
=============================================================================
