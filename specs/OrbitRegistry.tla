---------------------------- MODULE OrbitRegistry ----------------------------
(***************************************************************************)
(* The world registry of an orbit (structures/orbit/base.py): tidal_objects, *)
(* the look-up tables by instance and by name, the per-world storage lists,   *)
(* the host's tide-raiser pointer and world_signature_to_index - for a        *)
(* planet host with several moons.  Beyond the listed properties; C13 and     *)
(* C17 replay single-moon orbits, this is what changes with more than one.    *)
(*                                                                         *)
(*   AddMoon(m)           orbit.add_tidal_world(m): appended, never           *)
(*                        reordered; its orbit comes from its configuration;  *)
(*                        the first moon becomes the host's tide raiser       *)
(*   SetRaiser(m, k)      orbit.set_host_tide_raiser(signature of m)          *)
(*   SetE(s, k, v)        orbit.set_eccentricity(signature, v): signature s   *)
(*                        is a moon or "host", given as instance, name,        *)
(*                        lower-case name, title-case name or index (k)       *)
(*   SetA(s, k, v, via)   the same for the Kepler triple (a, n, P), given as   *)
(*                        semi-major axis, mean motion or period through the  *)
(*                        single-quantity setter or through set_state (via):  *)
(*                        the harness converts with the true masses, so the   *)
(*                        stored semi-major axis must come out as value v     *)
(*   ClearSpecific(s, k)  orbit.clear_state(clear_all=False, clear_specific=s)*)
(*   ClearAll             orbit.clear_state()                                 *)
(*   ReAdd(m)             orbit.add_tidal_world(m) for a moon that is ALREADY  *)
(*                        in the orbit (constant AllowReAdd; the code only     *)
(*                        warns).  As found: a second slot is appended for it,  *)
(*                        the name table moves to the new slot, the instance    *)
(*                        table keeps the old one, and the configuration's      *)
(*                        orbit is written through the instance, i.e. into the  *)
(*                        OLD slot; clear_state() walks all_objects (unique     *)
(*                        instances) and never reaches the new slot.  A named   *)
(*                        deviation: NoDuplicates / LookupAgree are expected    *)
(*                        violations of OrbitRegistry_asfound_readd.cfg.       *)
(* State is kept per SLOT (index into tidal_objects), as the code keeps it,    *)
(* with the two look-up tables beside it.  The tidal host's signature stands   *)
(* for the orbit of whichever moon is currently raising tides on it             *)
(* (world_signature_to_index, resolved through the raiser's INSTANCE).          *)
(***************************************************************************)
EXTENDS Integers, Sequences, FiniteSets, TLC

CONSTANTS Moons, NVals, MaxSteps, AllowReAdd, MaxSlots

VARIABLES order,     \* tidal_objects[1..] (index 0 is the host): one moon per slot
          byInst,    \* all_tidal_world_orbit_index_by_instance: [moon -> slot | 0]
          byName,    \* all_tidal_world_orbit_index_by_name (all three spellings move together)
          raiser,    \* the host's tide raiser ("none" before the first moon)
          ecc, sma,  \* Seq(value id | NoVal) by slot: the orbit's storage lists
          last, steps
vars == <<order, byInst, byName, raiser, ecc, sma, last, steps>>
view == <<order, byInst, byName, raiser, ecc, sma>>

NoVal == -1
Vals == 0..(NVals - 1)
Kinds == {"instance", "name", "lower", "title", "index"}
Added == {order[i] : i \in 1..Len(order)}
Slots == 1..Len(order)
\* world_signature_to_index.  "index" is the first slot that holds the world (the harness passes tidal_objects.index(world)),
\* which is the slot the instance table points to
SlotOf(m, k) == IF k \in {"name", "lower", "title"} THEN byName[m] ELSE byInst[m]
\* the host's signature resolves to its tide raiser, through the raiser's instance
Target(s, k) == IF s = "host" THEN byInst[raiser] ELSE SlotOf(s, k)

Init == /\ order = <<>> /\ raiser = "none" /\ ecc = <<>> /\ sma = <<>>
        /\ byInst = [m \in Moons |-> 0] /\ byName = [m \in Moons |-> 0]
        /\ last = <<"Init">> /\ steps = 0
\* MaxSteps = 0: unbounded (exhaustive runs under VIEW view)
Step(l) == (MaxSteps = 0 \/ steps < MaxSteps) /\ steps' = (IF MaxSteps = 0 THEN 0 ELSE steps + 1) /\ last' = l

AddMoon(m) ==
  /\ m \notin Added /\ Len(order) < MaxSlots /\ Step(<<"AddMoon", m>>)
  /\ order' = Append(order, m)
  /\ byInst' = [byInst EXCEPT ![m] = Len(order) + 1] /\ byName' = [byName EXCEPT ![m] = Len(order) + 1]
  /\ ecc' = Append(ecc, 0) /\ sma' = Append(sma, 0)                      \* id 0: the configuration's orbit
  /\ raiser' = IF raiser = "none" THEN m ELSE raiser
ReAdd(m) ==
  /\ AllowReAdd /\ m \in Added /\ Len(order) < MaxSlots /\ Step(<<"ReAdd", m>>)
  /\ order' = Append(order, m)
  /\ byName' = [byName EXCEPT ![m] = Len(order) + 1] /\ UNCHANGED byInst
  \* placeholders appended for the new slot; the configuration's orbit goes where the INSTANCE resolves to
  /\ ecc' = Append([ecc EXCEPT ![byInst[m]] = 0], NoVal) /\ sma' = Append([sma EXCEPT ![byInst[m]] = 0], NoVal)
  /\ UNCHANGED raiser
SetRaiser(m, k) ==
  /\ m \in Added /\ Step(<<"SetRaiser", m, k>>)
  /\ raiser' = order[SlotOf(m, k)] /\ UNCHANGED <<order, byInst, byName, ecc, sma>>
Sigs == Added \cup (IF raiser # "none" THEN {"host"} ELSE {})
SetE(s, k, v) ==
  /\ s \in Sigs /\ Step(<<"SetE", s, k, v>>)
  /\ ecc' = [ecc EXCEPT ![Target(s, k)] = v] /\ UNCHANGED <<order, byInst, byName, raiser, sma>>
Vias == {"a", "n", "P", "state_a", "state_n", "state_P"}
SetA(s, k, v, via) ==
  /\ s \in Sigs /\ Step(<<"SetA", s, k, v, via>>)
  /\ sma' = [sma EXCEPT ![Target(s, k)] = v] /\ UNCHANGED <<order, byInst, byName, raiser, ecc>>
ClearSpecific(s, k) ==
  /\ s \in Sigs /\ Step(<<"ClearSpecific", s, k>>)
  /\ ecc' = [ecc EXCEPT ![Target(s, k)] = NoVal] /\ sma' = [sma EXCEPT ![Target(s, k)] = NoVal]
  /\ UNCHANGED <<order, byInst, byName, raiser>>
\* clear_state(): for every object of all_objects (unique instances), the slot its INSTANCE resolves to
InstSlots == {byInst[m] : m \in Added}
ClearAll ==
  /\ Added # {} /\ Step(<<"ClearAll">>)
  /\ ecc' = [i \in Slots |-> IF i \in InstSlots THEN NoVal ELSE ecc[i]]
  /\ sma' = [i \in Slots |-> IF i \in InstSlots THEN NoVal ELSE sma[i]]
  /\ UNCHANGED <<order, byInst, byName, raiser>>

Next == \/ \E m \in Moons : AddMoon(m) \/ ReAdd(m)
        \/ \E m \in Moons, k \in Kinds : SetRaiser(m, k)
        \/ \E s \in Moons \cup {"host"}, k \in Kinds, v \in Vals : SetE(s, k, v) \/ (\E via \in Vias : SetA(s, k, v, via))
        \/ \E s \in Moons \cup {"host"}, k \in Kinds : ClearSpecific(s, k)
        \/ ClearAll
Spec == Init /\ [][Next]_vars

(* ---- properties ---- *)
TypeOK == /\ raiser \in Moons \cup {"none"}
          /\ \A i \in Slots : order[i] \in Moons /\ ecc[i] \in Vals \cup {NoVal} /\ sma[i] \in Vals \cup {NoVal}
          /\ \A m \in Moons : byInst[m] \in 0..Len(order) /\ byName[m] \in 0..Len(order)
\* the four storage lists and tidal_objects stay aligned (also with ReAdd)
StorageAligned == Len(ecc) = Len(order) /\ Len(sma) = Len(order)
\* both tables point at a slot that holds the world they are asked about (also with ReAdd)
TablesPointHome == \A m \in Moons : (m \in Added <=> byInst[m] # 0) /\ (m \in Added <=> byName[m] # 0)
                                    /\ (m \in Added => order[byInst[m]] = m /\ order[byName[m]] = m)
\* a world's orbital index never changes once it is in the orbit
IndexStable == [][\A i \in 1..Len(order) : order'[i] = order[i]]_vars
NoDuplicates == Cardinality(Added) = Len(order)
\* every form of signature resolves to the same slot (what a user means by "the world's orbit")
LookupAgree == \A m \in Added : byInst[m] = byName[m]
\* the raiser is a world of the orbit as soon as there is one
RaiserAdded == (raiser = "none" /\ order = <<>>) \/ raiser \in Added
\* nothing is stored for a world that is not in the orbit
NothingForStrangers == \A m \in Moons \ Added : byInst[m] = 0 /\ byName[m] = 0
\* a setter or a clear touches exactly the slot its signature resolves to
Isolation == [][last'[1] \in {"SetE", "SetA", "ClearSpecific"} =>
                  \A i \in Slots : i # Target(last'[2], last'[3]) => ecc'[i] = ecc[i] /\ sma'[i] = sma[i]]_vars
\* moving the raiser pointer changes nothing that is stored
PointerOnly == [][last'[1] = "SetRaiser" => ecc' = ecc /\ sma' = sma /\ byInst' = byInst /\ byName' = byName]_vars
\* after clear_state() nothing is readable through an instance (through a name only if LookupAgree holds)
ClearAllClearsInstances == [][last'[1] = "ClearAll" => \A m \in Added : ecc'[byInst[m]] = NoVal /\ sma'[byInst[m]] = NoVal]_vars
=============================================================================
