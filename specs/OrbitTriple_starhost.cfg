SPECIFICATION Spec
CONSTANT StarHost = TRUE
INVARIANT C17_Kepler
PROPERTY UpdateUsesCurrentMasses
PROPERTY MassChangeStoresNothing
CHECK_DEADLOCK FALSE
