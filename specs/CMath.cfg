SPECIFICATION Spec
INVARIANT C20_RootSquares
INVARIANT C20_Pythagoras
INVARIANT C20_PowerRecurrence
INVARIANT C20_NegPower
INVARIANT C20_UnitCycle
INVARIANT C20_TablesTotalAndConjugate
INVARIANT C20_DFRecurrence
INVARIANT Export
CHECK_DEADLOCK FALSE
