SPECIFICATION Spec
CONSTANTS
  Cases = {0, 1, 2, 3}
  MaxWorkers = 3
  MaxCrash = 2
  MaxInc = 3
  FailSets <- MCAllFailSets
  MustKinds <- MCAllKinds
  ResultFirst = TRUE
  OwnCaseNumber = TRUE
  ParserStripsParens = TRUE
  Transient = FALSE
  CrashInHeader = FALSE
INVARIANT TypeOK
INVARIANT C18_RestartCompletes
INVARIANT C18_ExactlyOneResult
INVARIANT C18_OwnIdentity
INVARIANT MarkerImpliesResult
PROPERTY C18_NoRedo
CHECK_DEADLOCK FALSE
