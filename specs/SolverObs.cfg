SPECIFICATION Spec
CONSTANTS
  Problems <- MCProblems
CONSTRAINT Bound
INVARIANT C03_DimensionAlgebra
INVARIANT C03_SlotLayout
INVARIANT Export
CHECK_DEADLOCK FALSE
