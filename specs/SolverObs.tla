------------------------------ MODULE SolverObs ------------------------------
(***************************************************************************)
(* Representation space of ONE physical radial-solver problem and the        *)
(* observations that must not depend on the representation                  *)
(* (properties C01, C03, C04).                                              *)
(*                                                                         *)
(* A state is a representation: how the same planet is handed to            *)
(* radial_solver.  Actions change one coordinate.  The spec predicts, for    *)
(* every representation, whether the starting-condition dispatch supports it *)
(* (else NotImplementedError), and states which observations are required to *)
(* agree with the base representation.  The dimension algebra below is       *)
(* decided by TLC itself.                                                    *)
(***************************************************************************)
EXTENDS Integers, Sequences, FiniteSets, TLC

CONSTANTS Problems      \* set of records [name, core (solid|liquid), uniformCore (BOOLEAN)]

VARIABLES prob, nondim, scale, solveFor, integ, tol, grid, start, family, static, incomp, steps
vars == <<prob, nondim, scale, solveFor, integ, tol, grid, start, family, static, incomp, steps>>

SolveForSeqs == {<<"tidal">>, <<"loading">>, <<"free">>, <<"tidal", "loading">>, <<"loading", "tidal">>, <<"tidal", "loading", "free">>,
                 <<"free", "tidal">>}
Base == [nondim |-> TRUE, scale |-> 0, solveFor |-> <<"tidal", "loading">>, integ |-> "DOP853", tol |-> 0, grid |-> 0, start |-> 1,
         family |-> "kamata", static |-> FALSE, incomp |-> FALSE]

Init == /\ prob \in Problems
        /\ nondim = Base.nondim /\ scale = Base.scale /\ solveFor = Base.solveFor /\ integ = Base.integ /\ tol = Base.tol
        /\ grid = Base.grid /\ start = Base.start /\ family = Base.family /\ static = Base.static /\ incomp = Base.incomp
        /\ steps = 0

Step == steps' = steps + 1 /\ prob' = prob
ToggleNondim == nondim' = ~nondim /\ Step /\ UNCHANGED <<scale, solveFor, integ, tol, grid, start, family, static, incomp>>
Rescale(s) == s # scale /\ scale' = s /\ Step /\ UNCHANGED <<nondim, solveFor, integ, tol, grid, start, family, static, incomp>>
SetSolveFor(sf) == sf # solveFor /\ solveFor' = sf /\ Step /\ UNCHANGED <<nondim, scale, integ, tol, grid, start, family, static, incomp>>
SetIntegrator(i) == i # integ /\ integ' = i /\ Step /\ UNCHANGED <<nondim, scale, solveFor, tol, grid, start, family, static, incomp>>
SetTolerance(t) == t # tol /\ tol' = t /\ Step /\ UNCHANGED <<nondim, scale, solveFor, integ, grid, start, family, static, incomp>>
SetGrid(g) == g # grid /\ grid' = g /\ Step /\ UNCHANGED <<nondim, scale, solveFor, integ, tol, start, family, static, incomp>>
\* start radius inside the core (only meaningful when the innermost region is homogeneous)
SetStart(r0) == prob.uniformCore /\ r0 # start /\ start' = r0 /\ Step /\ UNCHANGED <<nondim, scale, solveFor, integ, tol, grid, family, static, incomp>>
SetFamily(f) == f # family /\ family' = f /\ Step /\ UNCHANGED <<nondim, scale, solveFor, integ, tol, grid, start, static, incomp>>
SetAssumption(st, ic) == (st # static \/ ic # incomp) /\ static' = st /\ incomp' = ic /\ Step
                         /\ UNCHANGED <<nondim, scale, solveFor, integ, tol, grid, start, family>>

Next == \/ ToggleNondim \/ (\E s \in -2..2 : Rescale(s)) \/ (\E sf \in SolveForSeqs : SetSolveFor(sf))
        \/ (\E i \in {"RK23", "RK45", "DOP853"} : SetIntegrator(i)) \/ (\E t \in 0..1 : SetTolerance(t)) \/ (\E g \in 0..1 : SetGrid(g))
        \/ (\E r0 \in 0..4 : SetStart(r0)) \/ (\E f \in {"takeuchi", "kamata"} : SetFamily(f))
        \/ (\E st \in BOOLEAN, ic \in BOOLEAN : SetAssumption(st, ic))
Spec == Init /\ [][Next]_vars
Bound == steps <= 2

\* ---- starting-condition dispatch (starting/driver.pyx): which representations are supported ----
\* liquid layers of the observed problems are always static (dynamic liquid layers at low frequency are documented as unstable and
\* are outside C03's claim): a liquid core starts from Saito's solution whatever the family; `static`/`incomp` describe the solid layers.
Supported == IF prob.core = "liquid" THEN TRUE
             ELSE IF family = "kamata" THEN ~(static /\ incomp)
             ELSE ~incomp
Prediction == IF Supported THEN "solves" ELSE "NotImplementedError"

\* ---- what must agree with the base representation ----
\* Love numbers: always (C03, C04); for a uniform body additionally with the Kelvin/Love closed form (C01).
\* A static / incompressible assumption changes the physics slightly (not a representation change): Love numbers are only
\* required to agree with the closed form then, not bit-for-bit with the base.
SameProblemAsBase == static = Base.static /\ incomp = Base.incomp
RequiredLoveAgreement == IF SameProblemAsBase THEN "base" ELSE "closed_form_only"

\* ---- dimension algebra (M, L, T exponents), decided by TLC ----
Dim == [radius |-> <<0, 1, 0>>, density |-> <<1, -3, 0>>, gravity |-> <<0, 1, -2>>, modulus |-> <<1, -1, -2>>, frequency |-> <<0, 0, -1>>,
        G |-> <<-1, 3, -2>>,
        y1 |-> <<0, -1, 2>>, y2 |-> <<1, -3, 0>>, y3 |-> <<0, -1, 2>>, y4 |-> <<1, -3, 0>>, y5 |-> <<0, 0, 0>>, y6 |-> <<0, -1, 0>>,
        love |-> <<0, 0, 0>>]
\* exact rescaling: lengths x a, masses x a^3 (densities unchanged), times unchanged: exponent of a for a quantity of dimension d
ScaleExp(d) == 3 * d[1] + d[2]
\* non-dimensionalisation: length R, mass rho_bar R^3, time (pi G rho_bar)^(-1/2): exponents of (R, rho_bar, (pi G rho_bar)^(-1/2)) in the divisor
NonDimFactor(d) == <<3 * d[1] + d[2], d[1], d[3]>>

DimensionAlgebraOK ==
  /\ ScaleExp(Dim.radius) = 1 /\ ScaleExp(Dim.density) = 0 /\ ScaleExp(Dim.gravity) = 1 /\ ScaleExp(Dim.modulus) = 2
  /\ ScaleExp(Dim.frequency) = 0
  /\ ScaleExp(Dim.G) = 0                                   \* the rescaling keeps G: it maps solutions to solutions
  /\ <<ScaleExp(Dim.y1), ScaleExp(Dim.y2), ScaleExp(Dim.y3), ScaleExp(Dim.y4), ScaleExp(Dim.y5), ScaleExp(Dim.y6)>> = <<-1, 0, -1, 0, 0, -1>>
  /\ ScaleExp(Dim.love) = 0
  \* G expressed in the non-dimensional units is the pure number 1/pi: its divisor is R^0 rho_bar^-1 tau^-2 = G pi
  /\ NonDimFactor(Dim.G) = <<0, -1, -2>>
  \* the modulus divisor: R^2 rho_bar tau^-2, the gravity divisor: R tau^-2
  /\ NonDimFactor(Dim.modulus) = <<2, 1, -2>> /\ NonDimFactor(Dim.gravity) = <<1, 0, -2>>
C03_DimensionAlgebra == DimensionAlgebraOK

\* result layout: row of y_i (i = 1..6) of the j-th requested type (j = 1..), and Love numbers (k, h, l) per requested type
Row(j, i) == 6 * (j - 1) + i
C03_SlotLayout == \A j \in 1..Len(solveFor) : Row(j, 1) = 6 * (j - 1) + 1 /\ Row(j, 6) = 6 * j

YScaleExps == <<ScaleExp(Dim.y1), ScaleExp(Dim.y2), ScaleExp(Dim.y3), ScaleExp(Dim.y4), ScaleExp(Dim.y5), ScaleExp(Dim.y6)>>
ASSUME PrintT(<<"YSCALE", YScaleExps>>)
Export == PrintT(<<"REP", prob.name, nondim, scale, solveFor, integ, tol, grid, start, family, static, incomp, Prediction, RequiredLoveAgreement>>)
=============================================================================
