SPECIFICATION Spec
CONSTANTS
  Ls = {2, 3}
  Qs <- MCQs
  MaxCell = 2
  NVals = {1, 2, 3}
  WVals <- MCWVals
INVARIANT C10_EnergyIdentity
INVARIANT C10_NonNegative
INVARIANT C10_GroupingSound
INVARIANT C10_GroupingInvariant
INVARIANT C10_SkipRulesSound
INVARIANT C10_SyncCircularZero
INVARIANT Export
CHECK_DEADLOCK FALSE
