-------------------------- MODULE MC_MPStudyTrace --------------------------
EXTENDS MPStudyTrace
MCAllFailSets == SUBSET Cases
MCAllKinds == {"list", "tuple", "empty_tuple"}
=============================================================================
