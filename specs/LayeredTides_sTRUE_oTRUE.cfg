SPECIFICATION Spec
CONSTANTS
  SpinSync = TRUE
  ObliqOn = TRUE
  NVals = 2
  NLayers = 1
  Bug = "none"
INVARIANT C13_Fresh_Layered
INVARIANT SyncHolds
CHECK_DEADLOCK FALSE
