------------------------------- MODULE Kaula -------------------------------
(***************************************************************************)
(* Kaula's inclination functions F_lmp(I) and the degree coefficients      *)
(* (2 - delta_0m)(l-m)!/(l+m)!  (property C09).                             *)
(*                                                                         *)
(* Form A (half-angle form, s = sin I/2, c = cos I/2):                      *)
(*   F_lmp = (l+m)! / (2^l p! (l-p)!)                                        *)
(*           Sum_k (-1)^k C(2l-2p, k) C(2p, l-m-k) c^(3l-m-2p-2k) s^(m-l+2p+2k) *)
(* Form B (Kaula 1966, eq. 3.62, in sin I, cos I):                          *)
(*   F_lmp = Sum_t (2l-2t)! / (t! (l-t)! (l-m-2t)! 2^(2l-2t)) sin^(l-m-2t) I  *)
(*           Sum_s C(m,s) cos^s I  Sum_c C(l-m-2t+s, c) C(m-s, p-t-c) (-1)^(c-k),  k = floor((l-m)/2) *)
(*                                                                         *)
(* TLC decides, for every (l, m, p) with l = 2..7: A = B as polynomials on   *)
(* the circle s^2 + c^2 = 1 (evaluation at more circle points than twice   *)
(* the degree, over GF(P)); the value at I = 0 and which (m, p) survive      *)
(* there; and exports the exact integer coefficients of form A for the      *)
(* conformance check of TidalPy.tides.inclination_funcs.                     *)
(***************************************************************************)
EXTENDS Integers, FiniteSets, FiniteSetsExt, Sequences, TLC

CONSTANTS Degrees, P, Ts      \* P: prime < 46341 ; Ts: parameters t of circle points (2t/(1+t^2), (1-t^2)/(1+t^2))

VARIABLES l, m, p
vars == <<l, m, p>>
Init == l \in Degrees /\ m \in 0..l /\ p \in 0..l
Next == UNCHANGED vars
Spec == Init /\ [][Next]_vars

\* ---------------- exact small-integer pieces ----------------
RECURSIVE Binom(_, _)
Binom(n, k) == IF k < 0 \/ k > n THEN 0 ELSE IF k = 0 THEN 1 ELSE (Binom(n, k - 1) * (n - k + 1)) \div k
RECURSIVE GCD(_, _)
GCD(a, b) == IF b = 0 THEN a ELSE GCD(b, a % b)
RECURSIVE Rising(_, _)
Rising(a, k) == IF k = 0 THEN 1 ELSE (a + k) * Rising(a, k - 1)          \* (a+1)(a+2)...(a+k)
RECURSIVE Pow2(_)
Pow2(k) == IF k = 0 THEN 1 ELSE 2 * Pow2(k - 1)
\* prefactor of form A as a reduced fraction: C(l,p) (l+1)...(l+m) / 2^l
PrefNum(ll, mm, pp) == Binom(ll, pp) * Rising(ll, mm)
Pref(ll, mm, pp) == LET g == GCD(PrefNum(ll, mm, pp), Pow2(ll)) IN <<PrefNum(ll, mm, pp) \div g, Pow2(ll) \div g>>
KRange(ll, mm, pp) == {k \in 0..(2 * ll) : Binom(2 * ll - 2 * pp, k) # 0 /\ Binom(2 * pp, ll - mm - k) # 0}
Sign(k) == IF k % 2 = 0 THEN 1 ELSE -1
CoefA(ll, mm, pp, k) == Sign(k) * Binom(2 * ll - 2 * pp, k) * Binom(2 * pp, ll - mm - k)
CExp(ll, mm, pp, k) == 3 * ll - mm - 2 * pp - 2 * k
SExp(ll, mm, pp, k) == mm - ll + 2 * pp + 2 * k
\* the exported polynomial: set of <<coefficient, exponent of c, exponent of s>>
PolyA(ll, mm, pp) == {<<CoefA(ll, mm, pp, k), CExp(ll, mm, pp, k), SExp(ll, mm, pp, k)>> : k \in KRange(ll, mm, pp)}

\* ---------------- arithmetic in GF(P) ----------------
Md(x) == ((x % P) + P) % P
MMul(a, b) == (Md(a) * Md(b)) % P
RECURSIVE MPow(_, _)
MPow(a, e) == IF e = 0 THEN 1 ELSE IF e % 2 = 0 THEN MPow(MMul(a, a), e \div 2) ELSE MMul(a, MPow(MMul(a, a), e \div 2))
MInv(a) == MPow(a, P - 2)
RECURSIVE MFact(_)
MFact(k) == IF k <= 1 THEN 1 ELSE MMul(k, MFact(k - 1))
MSum(S, f(_)) == FoldSet(LAMBDA x, acc : (acc + f(x)) % P, 0, S)

\* circle point for parameter t
Den(t) == Md(1 + t * t)
Sx(t) == MMul(2 * t, MInv(Den(t)))           \* s = sin I/2
Cx(t) == MMul(Md(1 - t * t), MInv(Den(t)))   \* c = cos I/2
SinI(t) == MMul(2, MMul(Sx(t), Cx(t)))
CosI(t) == Md(MMul(Cx(t), Cx(t)) - MMul(Sx(t), Sx(t)))

EvalA(ll, mm, pp, t) ==
  MMul(MMul(Pref(ll, mm, pp)[1], MInv(Pref(ll, mm, pp)[2])),
       MSum(KRange(ll, mm, pp), LAMBDA k : MMul(CoefA(ll, mm, pp, k),
                                              MMul(MPow(Cx(t), CExp(ll, mm, pp, k)), MPow(Sx(t), SExp(ll, mm, pp, k))))))

K0(ll, mm) == (ll - mm) \div 2
TRange(ll, mm, pp) == {tt \in 0..ll : tt <= pp /\ tt <= K0(ll, mm)}
AB(ll, mm, tt) == MMul(MFact(2 * ll - 2 * tt),
                       MInv(MMul(MMul(MFact(tt), MFact(ll - tt)), MMul(MFact(ll - mm - 2 * tt), MPow(2, 2 * ll - 2 * tt)))))
InnerC(ll, mm, pp, tt, ss) ==
  MSum({c \in 0..(2 * ll) : Binom(ll - mm - 2 * tt + ss, c) # 0 /\ Binom(mm - ss, pp - tt - c) # 0},
       LAMBDA c : Md(Binom(ll - mm - 2 * tt + ss, c) * Binom(mm - ss, pp - tt - c) * Sign(c + K0(ll, mm))))
EvalB(ll, mm, pp, t) ==
  MSum(TRange(ll, mm, pp),
       LAMBDA tt : MMul(MMul(AB(ll, mm, tt), MPow(SinI(t), ll - mm - 2 * tt)),
                        MSum(0..mm, LAMBDA ss : MMul(MMul(Binom(mm, ss), MPow(CosI(t), ss)), InnerC(ll, mm, pp, tt, ss)))))

GoodTs == {t \in Ts : Den(t) # 0}

\* ---------------- clauses ----------------
\* the two published forms define the same function (more circle points than twice the degree 2l <= 14)
C09_FormsAgree == /\ Cardinality(GoodTs) > 4 * l
                  \* (the two references differ by an overall sign convention for some (l, m, p); the tables hold F^2)
                  /\ \/ \A t \in GoodTs : EvalA(l, m, p, t) = EvalB(l, m, p, t)
                     \/ \A t \in GoodTs : EvalA(l, m, p, t) = Md(-EvalB(l, m, p, t))
\* at I = 0 (s = 0, c = 1) only m = l - 2p survives; its value is pref * (coefficient of s^0)
ZeroTerm(ll, mm, pp) == {tr \in PolyA(ll, mm, pp) : tr[3] = 0}
C09_AtZero == (ZeroTerm(l, m, p) # {}) <=> (m = l - 2 * p)
\* (2 - delta_0m)(l-m)!/(l+m)! = (2 - delta_0m) / ((l-m+1)...(l+m))
\* (14! does not fit TLC's integers: the denominator is exported as the interval of its factors)
UniFactors(ll, mm) == (ll - mm + 1)..(ll + mm)
UniNum(mm) == IF mm = 0 THEN 1 ELSE 2
C09_UniversalFactors == Cardinality(UniFactors(l, m)) = 2 * m

Export == PrintT(<<"ROW", l, m, p, Pref(l, m, p), PolyA(l, m, p), UniNum(m), UniFactors(l, m)>>)
=============================================================================
