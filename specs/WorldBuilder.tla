----------------------------- MODULE WorldBuilder -----------------------------
(***************************************************************************)
(* Derivation chains of worlds: build_from_world / scale_from_world of       *)
(* TidalPy.structures.world_builder (property C16: terminates for every     *)
(* chain, yields a distinct name, scales every length, never mutates its     *)
(* inputs).  A world name is a sequence of tokens; "V" stands for the        *)
(* substring "_variant", "N<i>" for "_<i>", "S"/"M" for the "super-" /   *)
(* "mini-" prefixes, "B" for the base name, "U<k>" for a user-chosen     *)
(* fresh name.  The variant-naming loop of build_from_world is modelled      *)
(* step by step (pc), so that non-termination is a liveness counterexample. *)
(* Incr = TRUE is the repaired loop (i is incremented), FALSE the loop as    *)
(* found (negative control).                                                 *)
(***************************************************************************)
EXTENDS Integers, Sequences, TLC

CONSTANTS MaxChain,      \* number of derivations in a chain
          MaxI,          \* bound on the loop counter (only reached if the loop does not terminate)
          Incr           \* TRUE: `i += 1` inside the loop

VARIABLES name,      \* name of the current (most recently built) world
          scale,     \* accumulated radius scale as <<num, den>> relative to the first world
          gen,       \* number of derivations done
          pc,        \* "idle" | "loop" | "done"
          i, cand,   \* loop counter and candidate name of the variant-naming loop
          req,       \* the derivation being performed [kind, k, nm]
          parent     \* name of the world the current derivation started from
vars == <<name, scale, gen, pc, i, cand, req, parent>>

V == "V"
HasV(n) == \E j \in 1..Len(n) : n[j] = V
FirstV(n) == CHOOSE j \in 1..Len(n) : n[j] = V /\ \A k \in 1..(j - 1) : n[k] # V
\* new_name.split('_variant')[0]
Pre(n) == SubSeq(n, 1, FirstV(n) - 1)
NumToks == <<"N0", "N1", "N2", "N3", "N4", "N5", "N6", "N7", "N8", "N9">>
Num(k) == NumToks[k + 1]
FreshToks == <<"U1", "U2", "U3", "U4", "U5", "U6", "U7", "U8">>

Init == /\ name = <<"B">> /\ scale = <<1, 1>> /\ gen = 0 /\ pc = "idle"
        /\ i = 0 /\ cand = <<>> /\ req = [kind |-> "none", k |-> <<1, 1>>, nm |-> "none"] /\ parent = <<>>

Scales == {<<1, 2>>, <<2, 1>>, <<3, 1>>}
MulScale(s, k) == <<s[1] * k[1], s[2] * k[2]>>      \* not normalised on purpose: compared by cross-multiplication

\* ---- the user asks for a derivation --------------------------------------------------------------
\* kind "from": build_from_world(old, new_config, new_name)  nm \in {"none", "same", "fresh", "cfg_same", "cfg_fresh"}
\* kind "scale": scale_from_world(old, new_name, radius_scale=k)  nm \in {"none", "same", "fresh"}
Request(kind, k, nm) ==
  /\ pc = "idle" /\ gen < MaxChain
  /\ req' = [kind |-> kind, k |-> k, nm |-> nm]
  /\ parent' = name
  /\ LET requested ==                     \* the name handed to build_from_world
           IF nm = "fresh" \/ nm = "cfg_fresh" THEN <<FreshToks[gen + 1]>>
           ELSE IF nm = "same" \/ nm = "cfg_same" THEN name
           ELSE IF kind = "scale" THEN (IF k[1] >= k[2] THEN <<"S">> ELSE <<"M">>) \o name
           ELSE name                        \* no name given: combo_dict['name'] = the old name
         variant == IF kind = "scale" /\ nm = "none" THEN FALSE ELSE requested = name
     IN IF ~variant
          THEN /\ name' = requested /\ pc' = "done" /\ UNCHANGED <<i, cand>>
          ELSE IF HasV(requested)
                 THEN /\ pc' = "loop" /\ i' = 2 /\ cand' = Pre(requested) \o <<V, Num(2)>> /\ UNCHANGED name
                 ELSE /\ name' = requested \o <<V>> /\ pc' = "done" /\ UNCHANGED <<i, cand>>
  /\ scale' = IF kind = "scale" THEN MulScale(scale, k) ELSE scale
  /\ UNCHANGED gen

\* one iteration of `while True: new_variant_name = f'{pre}_variant_{i}'; if new_variant_name != new_name: break`
LoopStep ==
  /\ pc = "loop"
  /\ IF cand # name
       THEN /\ name' = cand /\ pc' = "done" /\ UNCHANGED <<i, cand>>
       ELSE /\ i' = (IF Incr THEN i + 1 ELSE i)
            /\ cand' = Pre(name) \o <<V, Num(IF Incr THEN i + 1 ELSE i)>>
            /\ UNCHANGED <<name, pc>>
  /\ UNCHANGED <<scale, gen, req, parent>>

\* build_world(new_name, combo_dict) returns
Finish == /\ pc = "done" /\ pc' = "idle" /\ gen' = gen + 1
          /\ UNCHANGED <<name, scale, i, cand, req, parent>>

Next == \/ \E nm \in {"none", "same", "fresh", "cfg_same", "cfg_fresh"} : Request("from", <<1, 1>>, nm)
        \/ \E k \in Scales, nm \in {"none", "same", "fresh"} : Request("scale", k, nm)
        \/ LoopStep \/ Finish

Spec == Init /\ [][Next]_vars /\ WF_vars(LoopStep) /\ WF_vars(Finish)

\* ---- properties ---------------------------------------------------------------------------------
\* every derivation terminates (the naming loop is left)
C16_Terminates == [](pc = "loop" => <>(pc = "done"))
\* the derived world's name differs from its parent's
C16_DistinctName == pc = "done" => name # parent
\* the loop counter stays small when the loop terminates as intended
LoopBounded == i <= MaxI
Bound == i <= MaxI + 1
=============================================================================
