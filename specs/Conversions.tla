----------------------------- MODULE Conversions -----------------------------
(***************************************************************************)
(* Unit / orbital conversion helpers of TidalPy.utilities.conversions as    *)
(* monomials  h(x) = c * x^k,  c a product of symbolic generators with      *)
(* rational exponents (property C17).                                       *)
(*  - behaviour part: every walk through the conversion graph that returns  *)
(*    to its starting quantity composes to the identity monomial;           *)
(*  - conformance part: the monomial MEASURED on every implementation of    *)
(*    every helper (interpreted scalar / array / undecorated, compiled) by   *)
(*    harness/props/c17.py must equal the spec monomial, and twins must     *)
(*    agree on the numeric identity of each generator.                      *)
(***************************************************************************)
EXTENDS Rat, Sequences, FiniteSets, TLC, Json, IOUtils

Gens == {"TWO_PI", "DAY", "AU", "MYR", "GM"}
NoGen == [g \in Gens |-> RZero]

\* helper |-> [from, to, k, c]
Helpers == [
  rads2days |-> [from |-> "rads", to |-> "days", k |-> R(-1), c |-> [NoGen EXCEPT !["TWO_PI"] = R(1), !["DAY"] = R(-1)]],
  days2rads |-> [from |-> "days", to |-> "rads", k |-> R(-1), c |-> [NoGen EXCEPT !["TWO_PI"] = R(1), !["DAY"] = R(-1)]],
  m2Au      |-> [from |-> "m",    to |-> "AU",   k |-> R(1),  c |-> [NoGen EXCEPT !["AU"] = R(-1)]],
  Au2m      |-> [from |-> "AU",   to |-> "m",    k |-> R(1),  c |-> [NoGen EXCEPT !["AU"] = R(1)]],
  sec2myr   |-> [from |-> "s",    to |-> "Myr",  k |-> R(1),  c |-> [NoGen EXCEPT !["MYR"] = R(-1)]],
  myr2sec   |-> [from |-> "Myr",  to |-> "s",    k |-> R(1),  c |-> [NoGen EXCEPT !["MYR"] = R(1)]],
  orbital_motion2semi_a |-> [from |-> "rads", to |-> "m", k |-> <<-2, 3>>, c |-> [NoGen EXCEPT !["GM"] = <<1, 3>>]],
  semi_a2orbital_motion |-> [from |-> "m", to |-> "rads", k |-> <<-3, 2>>, c |-> [NoGen EXCEPT !["GM"] = <<1, 2>>]]
]
HNames == DOMAIN Helpers
InversePairs == {<<"rads2days", "days2rads">>, <<"m2Au", "Au2m">>, <<"sec2myr", "myr2sec">>,
                 <<"orbital_motion2semi_a", "semi_a2orbital_motion">>}

Id == [k |-> ROne, c |-> NoGen]
\* (f after g)(x) = c_f * (c_g x^kg)^kf
Compose(f, g) == [k |-> RMul(f.k, g.k), c |-> [x \in Gens |-> RAdd(f.c[x], RMul(f.k, g.c[x]))]]

VARIABLES start, node, mono, len
vars == <<start, node, mono, len>>
Nodes == {"rads", "days", "m", "AU", "s", "Myr"}

Init == /\ start \in Nodes /\ node = start /\ mono = Id /\ len = 0
Apply(h) == /\ Helpers[h].from = node
            /\ node' = Helpers[h].to
            /\ mono' = Compose([k |-> Helpers[h].k, c |-> Helpers[h].c], mono)
            /\ len' = len + 1 /\ start' = start
Next == \E h \in HNames : Apply(h)
Spec == Init /\ [][Next]_vars
Bound == len <= 6

\* C17: every closed walk is the identity, in particular every declared inverse pair
C17_ClosedWalkIdentity == (node = start) => mono = Id
C17_InversePairs == \A p \in InversePairs :
    /\ Compose([k |-> Helpers[p[1]].k, c |-> Helpers[p[1]].c], [k |-> Helpers[p[2]].k, c |-> Helpers[p[2]].c]) = Id
    /\ Compose([k |-> Helpers[p[2]].k, c |-> Helpers[p[2]].c], [k |-> Helpers[p[1]].k, c |-> Helpers[p[1]].c]) = Id

(* ----------------------- conformance of the measured implementations ----------------------- *)
\* Obs[i] = [helper, impl, k: <<num, den>>, c_matches_spec: BOOLEAN, gen_ids: [gen |-> string id of the numeric value found]]
Obs == JsonDeserialize(IOEnv.OBS_FILE)
ObsOk(o) == /\ o.helper \in HNames
            /\ <<o.k[1], o.k[2]>> = Helpers[o.helper].k
            /\ o.c_matches_spec
BadObs == {i \in DOMAIN Obs : ~ObsOk(Obs[i])}
\* two implementations of the same helper, or a helper and its inverse, must use numerically the same generator
SameFamily(a, b) == a.helper = b.helper \/ <<a.helper, b.helper>> \in InversePairs \/ <<b.helper, a.helper>> \in InversePairs
BadTwins == {<<i, j>> \in (DOMAIN Obs) \X (DOMAIN Obs) :
               /\ i < j /\ SameFamily(Obs[i], Obs[j])
               /\ \E g \in DOMAIN Obs[i].gen_ids : g \in DOMAIN Obs[j].gen_ids /\ Obs[i].gen_ids[g] # Obs[j].gen_ids[g]}
Report == PrintT(<<"BADOBS", BadObs>>) /\ PrintT(<<"BADTWINS", BadTwins>>) /\ PrintT(<<"NOBS", Len(Obs)>>)
ASSUME Report
=============================================================================
