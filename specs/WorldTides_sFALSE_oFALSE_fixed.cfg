SPECIFICATION Spec
CONSTANTS
  OrbKinds = {"n", "P", "a"}
  SpinKinds = {"f", "p"}
  AllowDeferred = FALSE
  SpinSync = FALSE
  ObliqOn = FALSE
  FixTerms = TRUE
  FixLove = TRUE
INVARIANT C13_Fresh
INVARIANT C17_Kepler
INVARIANT SyncHolds
CHECK_DEADLOCK FALSE
