SPECIFICATION Spec
CONSTANTS
  Cases = {0, 1, 2, 3, 4, 5, 6, 7}
  MaxWorkers = 4
  MaxCrash = 3
  MaxInc = 4
  FailSets <- MCAllFailSets
  MustKinds <- MCAllKinds
  ResultFirst = TRUE
  OwnCaseNumber = TRUE
  ParserStripsParens = TRUE
  Transient = FALSE
  CrashInHeader = FALSE
INVARIANT TypeOK
INVARIANT C18_RestartCompletes
INVARIANT C18_ExactlyOneResult
INVARIANT C18_OwnIdentity
INVARIANT MarkerImpliesResult
CHECK_DEADLOCK FALSE
