----------------------------- MODULE Sensitivity -----------------------------
(***************************************************************************)
(* Radial sensitivity kernels of Tobie et al. (2005) (property C05), over    *)
(* Gaussian rationals.  With  T = 2 y1 - l(l+1) y3,  d = dy1/dr  and the      *)
(* constitutive relation  y2 = (K + 4 mu/3) d + ((K - 2 mu/3)/r) T :          *)
(*   H_mu = 4/3 r^2 |d|^2 - 4/3 r Re(conj(d) T) + 1/3 |T|^2                    *)
(*          + l(l+1) r^2 |y4|^2 / |mu|^2 + l(l^2-1)(l+2) |y3|^2               *)
(*   H_K  = r^2 |d|^2 + 2 r Re(conj(d) T) + |T|^2                              *)
(* TLC checks that both kernels are sums of squares (hence >= 0, which is     *)
(* what makes Im k <= 0 for dissipative material in the energy theorem        *)
(*   -Im k_l = 4 pi G / ((2l+1) R) Int (H_mu Im mu + H_K Im K) dr )           *)
(* and exports each lattice point with the y2 that the constitutive relation  *)
(* demands, for the conformance check of sensitivity_to_shear / _bulk.        *)
(***************************************************************************)
EXTENDS CRat, TLC

CONSTANTS Y1s, Ds, Y3s, Y4s, Mus, Ks, Rs, Ls
VARIABLES y1, d, y3, y4, mu, kb, r, l
vars == <<y1, d, y3, y4, mu, kb, r, l>>
Init == y1 \in Y1s /\ d \in Ds /\ y3 \in Y3s /\ y4 \in Y4s /\ mu \in Mus /\ kb \in Ks /\ r \in Rs /\ l \in Ls
Next == UNCHANGED vars
Spec == Init /\ [][Next]_vars

Abs2(z) == CNorm2(z)
ReConjMul(a, b) == RAdd(RMul(CRe(a), CRe(b)), RMul(CIm(a), CIm(b)))       \* Re(conj(a) b)

All ==
  LET LL == R(l * (l + 1))
      T == CSub(CScale(R(2), y1), CScale(LL, y3))
      lam2mu == CAdd(kb, CScale(<<4, 3>>, mu))
      lam == CSub(kb, CScale(<<2, 3>>, mu))
      y2 == CAdd(CMul(lam2mu, d), CMul(CScale(RInv(R(r)), lam), T))
      r2 == R(r * r)
      hmu == RAdd(RAdd(RSub(RMul(RMul(<<4, 3>>, r2), Abs2(d)), RMul(RMul(<<4, 3>>, R(r)), ReConjMul(d, T))), RMul(<<1, 3>>, Abs2(T))),
                  RAdd(RMul(RMul(LL, r2), RDiv(Abs2(y4), Abs2(mu))), RMul(R(l * (l * l - 1) * (l + 2)), Abs2(y3))))
      hk == RAdd(RAdd(RMul(r2, Abs2(d)), RMul(RMul(R(2), R(r)), ReConjMul(d, T))), Abs2(T))
      sq1 == RMul(<<1, 3>>, Abs2(CSub(CScale(R(2 * r), d), T)))          \* 1/3 |2 r d - T|^2
      sq2 == Abs2(CAdd(CScale(R(r), d), T))                               \* |r d + T|^2
  IN [y2 |-> y2, hmu |-> hmu, hk |-> hk, sq1 |-> sq1, sq2 |-> sq2,
      rest |-> RAdd(RMul(RMul(LL, r2), RDiv(Abs2(y4), Abs2(mu))), RMul(R(l * (l * l - 1) * (l + 2)), Abs2(y3)))]

C05_All == LET a == All IN
  /\ a.hmu = RAdd(a.sq1, a.rest)              \* C05_ShearKernelSumOfSquares
  /\ a.hk = a.sq2                             \* C05_BulkKernelSquare
  /\ RLe(RZero, a.hmu) /\ RLe(RZero, a.hk)    \* C05_KernelsNonNegative
  /\ PrintT(<<"ROW", y1, d, y3, y4, mu, kb, r, l, a.y2, a.hmu, a.hk>>)
=============================================================================
