------------------------------- MODULE Modes -------------------------------
(***************************************************************************)
(* Mode-summed tidal heating and potential derivatives (property C10),      *)
(* exact integers / rationals.  For every mode (l, m, p, q) with            *)
(*     X = (2/3) U_lm F2[l][m,p] G2[l][p][q],   omega = (l-2p+q) n - m W     *)
(* the definitions are                                                       *)
(*     heating = S  Sum X |omega| K(|omega|)                                  *)
(*     dU/dM   = S/Mh Sum X (l-2p+q) sgn(omega) K(|omega|)   (dU/dw: l-2p,   dU/dO: m) *)
(* with K = -Im k >= 0, K(0) = 0.  The spec also models the bookkeeping of   *)
(* calculate_terms: skip rules and grouping of modes by frequency signature  *)
(* (n_sig, m_sig), and states that grouping and skipping change nothing.     *)
(* Tables are filled step by step (actions) so that TLC's simulation mode     *)
(* generates arbitrary tables; every visited state is exported.             *)
(***************************************************************************)
EXTENDS Rat, FiniteSets, FiniteSetsExt, TLC

CONSTANTS Ls,        \* degrees
          Qs,        \* q range
          MaxCell,   \* table values 0..MaxCell, -1 = key absent
          NVals, WVals   \* values of the mean motion n (> 0) and of the spin rate W

VARIABLES n, w, ecc, inc, kmul, koff
vars == <<n, w, ecc, inc, kmul, koff>>

Absent == -1
Ps(l) == 0..l
Ms(l) == 0..l
EccKeys == {<<l, p, q>> : l \in Ls, p \in 0..7, q \in Qs} \cap {k \in (Ls \X (0..7) \X Qs) : k[2] <= k[1]}
IncKeys == {k \in (Ls \X (0..7) \X (0..7)) : k[2] <= k[1] /\ k[3] <= k[1]}      \* <<l, m, p>>

Init == /\ n \in NVals /\ w \in WVals
        /\ \E fill \in {"empty", "ones", "mixed"} :
             /\ ecc = [k \in EccKeys |-> IF fill = "empty" THEN Absent ELSE IF fill = "ones" THEN 1 ELSE ((k[1] + k[2] + k[3]) % 4) - 1]
             /\ inc = [k \in IncKeys |-> IF fill = "empty" THEN Absent ELSE IF fill = "ones" THEN 1 ELSE ((k[1] + 2 * k[2] + k[3]) % 4) - 1]
        /\ kmul = 1 /\ koff = 0

SetEcc(k, v) == ecc' = [ecc EXCEPT ![k] = v] /\ UNCHANGED <<n, w, inc, kmul, koff>>
SetInc(k, v) == inc' = [inc EXCEPT ![k] = v] /\ UNCHANGED <<n, w, ecc, kmul, koff>>
SetK(a, b) == kmul' = a /\ koff' = b /\ UNCHANGED <<n, w, ecc, inc>>
SetFreq(a, b) == n' = a /\ w' = b /\ UNCHANGED <<ecc, inc, kmul, koff>>
Next == \/ \E k \in EccKeys, v \in Absent..MaxCell : SetEcc(k, v)
        \/ \E k \in IncKeys, v \in Absent..MaxCell : SetInc(k, v)
        \/ \E a \in 0..2, b \in 0..2 : SetK(a, b)
        \/ \E a \in NVals, b \in WVals : SetFreq(a, b)
Spec == Init /\ [][Next]_vars

\* ---- definitions ------------------------------------------------------------------------------
Sgn(x) == IF x > 0 THEN 1 ELSE IF x < 0 THEN -1 ELSE 0
K(f) == IF f = 0 THEN 0 ELSE (f * kmul + koff) % 3           \* -Im k, passive, zero at zero frequency
RECURSIVE Fact(_)
Fact(x) == IF x <= 1 THEN 1 ELSE x * Fact(x - 1)
U(l, m) == Norm((IF m = 0 THEN 1 ELSE 2) * Fact(l - m), Fact(l + m))     \* (2 - delta_0m)(l-m)!/(l+m)!

\* a mode is <<l, m, p, q>> with both table entries present
ModeSet == {md \in (Ls \X (0..7) \X (0..7) \X Qs) :
              /\ md[2] <= md[1] /\ md[3] <= md[1]
              /\ inc[<<md[1], md[2], md[3]>>] # Absent /\ ecc[<<md[1], md[3], md[4]>>] # Absent}
NCoeff(md) == md[1] - 2 * md[3] + md[4]
Omega(md) == NCoeff(md) * n - md[2] * w
X(md) == RMul(<<2, 3>>, RMul(U(md[1], md[2]), R(inc[<<md[1], md[2], md[3]>>] * ecc[<<md[1], md[3], md[4]>>])))

HeatTerm(md) == RMul(X(md), R(Abs(Omega(md)) * K(Abs(Omega(md)))))
MTerm(md) == RMul(X(md), R(NCoeff(md) * Sgn(Omega(md)) * K(Abs(Omega(md)))))
WTerm(md) == RMul(X(md), R((md[1] - 2 * md[3]) * Sgn(Omega(md)) * K(Abs(Omega(md)))))
OTerm(md) == RMul(X(md), R(md[2] * Sgn(Omega(md)) * K(Abs(Omega(md)))))

Heating == FoldSet(LAMBDA md, acc : RAdd(HeatTerm(md), acc), RZero, ModeSet)       \* in units of the susceptibility S
dUdM == FoldSet(LAMBDA md, acc : RAdd(MTerm(md), acc), RZero, ModeSet)             \* in units of S / M_host
dUdw == FoldSet(LAMBDA md, acc : RAdd(WTerm(md), acc), RZero, ModeSet)
dUdO == FoldSet(LAMBDA md, acc : RAdd(OTerm(md), acc), RZero, ModeSet)

\* ---- the bookkeeping of calculate_terms ----------------------------------------------------------
Skipped(md) == \/ (md[2] = 0 /\ NCoeff(md) = 0)
               \/ (NCoeff(md) - md[2] = 0 /\ n = w)          \* only when spin and mean motion are known to be equal
Sig(md) == IF md[2] = 0 THEN <<Abs(NCoeff(md)), 0>>
           ELSE IF NCoeff(md) = 0 THEN <<0, md[2]>>
           ELSE <<NCoeff(md), -md[2]>>
Kept == {md \in ModeSet : ~Skipped(md)}
Sigs == {Sig(md) : md \in Kept}
Group(sg) == {md \in Kept : Sig(md) = sg}
GroupHeat(sg) == LET f == Abs(Omega(CHOOSE md \in Group(sg) : TRUE))      \* frequency stored for the signature
                     \* summed per signature BEFORE multiplying by K
                 IN RMul(FoldSet(LAMBDA md, acc : RAdd(RMul(X(md), R(Abs(Omega(md)))), acc), RZero, Group(sg)), R(K(f)))
GroupedHeating == FoldSet(LAMBDA sg, acc : RAdd(GroupHeat(sg), acc), RZero, Sigs)

\* ---- clauses of C10 ----------------------------------------------------------------------------
\* heating = M_host (n dU/dM - W dU/dO)   (dU/d* carry 1/M_host)
C10_EnergyIdentity == Heating = RSub(RMul(R(n), dUdM), RMul(R(w), dUdO))
C10_NonNegative == RLe(RZero, Heating)
\* modes sharing a signature share |omega| for every n, W of the lattice
C10_GroupingSound == \A a \in Kept, b \in Kept : Sig(a) = Sig(b) => Abs(Omega(a)) = Abs(Omega(b))
C10_GroupingInvariant == GroupedHeating = Heating
C10_SkipRulesSound == \A md \in ModeSet : Skipped(md) => RIsZero(HeatTerm(md)) /\ RIsZero(MTerm(md)) /\ RIsZero(OTerm(md))
\* circular, zero-obliquity, synchronous: only q = 0 and m = l - 2p entries present => everything vanishes
CircularSyncTables == /\ n = w
                      /\ \A k \in EccKeys : ecc[k] # Absent => k[3] = 0
                      /\ \A k \in IncKeys : inc[k] # Absent => k[2] = k[1] - 2 * k[3]
C10_SyncCircularZero == CircularSyncTables => RIsZero(Heating) /\ RIsZero(dUdM) /\ RIsZero(dUdw) /\ RIsZero(dUdO)

Export ==
  PrintT(<<"ROW", n, w, kmul, koff,
           {<<k, ecc[k]>> : k \in {kk \in EccKeys : ecc[kk] # Absent}},
           {<<k, inc[k]>> : k \in {kk \in IncKeys : inc[kk] # Absent}},
           Heating, dUdM, dUdw, dUdO, Cardinality(Sigs)>>)
=============================================================================
