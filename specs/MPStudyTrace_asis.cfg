SPECIFICATION TraceSpec
CONSTANTS
  Cases = {0, 1, 2, 3, 4, 5, 6, 7}
  MaxWorkers = 16
  MaxCrash = 6
  MaxInc = 60
  FailSets <- MCAllFailSets
  MustKinds <- MCAllKinds
  ResultFirst = FALSE
  OwnCaseNumber = FALSE
  ParserStripsParens = FALSE
  Transient = TRUE
  CrashInHeader = TRUE
CONSTRAINT Progress
CHECK_DEADLOCK FALSE
