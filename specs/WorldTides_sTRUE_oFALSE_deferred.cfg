SPECIFICATION Spec
CONSTANTS
  OrbKinds = {"P"}
  SpinKinds = {"f"}
  AllowDeferred = TRUE
  SpinSync = TRUE
  ObliqOn = FALSE
  FixTerms = TRUE
  FixLove = TRUE
INVARIANT C13_Fresh
INVARIANT C17_Kepler
INVARIANT SyncHolds
CHECK_DEADLOCK FALSE
INVARIANT PendingMeansDeferred
