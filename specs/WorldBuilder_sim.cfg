SPECIFICATION Spec
CONSTANTS
  MaxChain = 6
  MaxI = 8
  Incr = TRUE
INVARIANT C16_DistinctName
INVARIANT LoopBounded
CHECK_DEADLOCK FALSE
