------------------------------ MODULE Harmonic2 ------------------------------
(***************************************************************************)
(* The space H2 of real degree-2 surface harmonics and its angular          *)
(* derivatives, in exact rational arithmetic (property C14).                 *)
(*                                                                         *)
(* Every tidal-potential implementation returns, per mode, a function of     *)
(* (colatitude t, longitude p) that must lie in H2 = span{b1..b5} together   *)
(* with U_t, U_p, U_tt, U_pp, U_tp.  Here:                                   *)
(*  - the basis functions are POLYNOMIALS in (c, s, cp, sp) =                *)
(*    (cos t, sin t, cos p, sin p), held as term lists;                      *)
(*  - differentiation is SYMBOLIC on term lists (d/dt: c -> -s, s -> c;      *)
(*    d/dp: cp -> -sp, sp -> cp), so the derivative tables are derived,      *)
(*    not hand-written;                                                      *)
(*  - TLC checks, on every point of a lattice of Pythagorean angles, the     *)
(*    degree-2 Laplace identity  b_tt + cot(t) b_t + b_pp / sin^2 t = -6 b   *)
(*    for every basis function, the symmetry of mixed partials, that the     *)
(*    five basis functions are independent on the chosen fit points (so the  *)
(*    coefficients of a returned potential are determined by its values),    *)
(*    and exports the value / derivative tables the harness uses to decide   *)
(*    "the returned derivatives are the true partial derivatives of the      *)
(*    returned potential and satisfy the Laplace identity" on the real code. *)
(***************************************************************************)
EXTENDS Rat, Sequences, FiniteSets, TLC

\* a term is <<coefficient (rational), i, j, k, l>> = coeff * c^i s^j cp^k sp^l ; a polynomial is a sequence of terms
T(n, d, i, j, k, l) == <<Norm(n, d), i, j, k, l>>
B1 == <<T(3, 2, 2, 0, 0, 0), T(-1, 2, 0, 0, 0, 0)>>                  \* P20 = (3 cos^2 t - 1)/2
B2 == <<T(3, 1, 1, 1, 1, 0)>>                                       \* 3 sin t cos t cos p      (|P21| cos p)
B3 == <<T(3, 1, 1, 1, 0, 1)>>                                       \* 3 sin t cos t sin p
B4 == <<T(3, 1, 0, 2, 2, 0), T(-3, 1, 0, 2, 0, 2)>>                  \* 3 sin^2 t cos 2p          (P22 cos 2p)
B5 == <<T(6, 1, 0, 2, 1, 1)>>                                       \* 3 sin^2 t sin 2p
Basis == <<B1, B2, B3, B4, B5>>

\* symbolic differentiation of one term -> sequence of terms
DTermT(t) == (IF t[2] > 0 THEN << <<RMul(t[1], R(-t[2])), t[2] - 1, t[3] + 1, t[4], t[5]>> >> ELSE <<>>)
             \o (IF t[3] > 0 THEN << <<RMul(t[1], R(t[3])), t[2] + 1, t[3] - 1, t[4], t[5]>> >> ELSE <<>>)
DTermP(t) == (IF t[4] > 0 THEN << <<RMul(t[1], R(-t[4])), t[2], t[3], t[4] - 1, t[5] + 1>> >> ELSE <<>>)
             \o (IF t[5] > 0 THEN << <<RMul(t[1], R(t[5])), t[2], t[3], t[4] + 1, t[5] - 1>> >> ELSE <<>>)
RECURSIVE Dt(_)
Dt(p) == IF p = <<>> THEN <<>> ELSE DTermT(Head(p)) \o Dt(Tail(p))
RECURSIVE Dp(_)
Dp(p) == IF p = <<>> THEN <<>> ELSE DTermP(Head(p)) \o Dp(Tail(p))

\* evaluation at a point pt = <<c, s, cp, sp>> (rationals)
RECURSIVE Eval(_, _)
Eval(p, pt) == IF p = <<>> THEN RZero
               ELSE LET t == Head(p) IN
                    RAdd(RMul(t[1], RMul(RMul(RPow(pt[1], t[2]), RPow(pt[2], t[3])), RMul(RPow(pt[3], t[4]), RPow(pt[4], t[5])))), Eval(Tail(p), pt))

\* Pythagorean angles: (cos, sin) pairs with rational values; all four quadrants for the longitude
ThetaPairs == { <<<<3, 5>>, <<4, 5>>>>, <<<<4, 5>>, <<3, 5>>>>, <<<<-5, 13>>, <<12, 13>>>>, <<<<-3, 5>>, <<4, 5>>>>, <<<<12, 13>>, <<5, 13>>>>, <<<<-8, 17>>, <<15, 17>>>>, <<<<0, 1>>, <<1, 1>>>> }
PhiPairs == { <<<<1, 1>>, <<0, 1>>>>, <<<<3, 5>>, <<4, 5>>>>, <<<<-4, 5>>, <<3, 5>>>>, <<<<-5, 13>>, <<-12, 13>>>>, <<<<15, 17>>, <<-8, 17>>>>, <<<<0, 1>>, <<1, 1>>>>, <<<<-3, 5>>, <<-4, 5>>>> }
ASSUME \A a \in ThetaPairs \cup PhiPairs : RAdd(RMul(a[1], a[1]), RMul(a[2], a[2])) = ROne
ASSUME \A a \in ThetaPairs : RSign(a[2]) > 0         \* colatitude in (0, pi)

VARIABLE pt           \* <<cos t, sin t, cos p, sin p>>
Init == \E a \in ThetaPairs, b \in PhiPairs : pt = <<a[1], a[2], b[1], b[2]>>
Next == UNCHANGED pt
Spec == Init /\ [][Next]_pt

\* the six quantities of one basis function at a point
Six(b, q) == <<Eval(b, q), Eval(Dt(b), q), Eval(Dp(b), q), Eval(Dt(Dt(b)), q), Eval(Dp(Dp(b)), q), Eval(Dp(Dt(b)), q)>>

\* ---- what TLC decides at every lattice point ----
C14_Laplace == \A n \in 1..5 : LET v == Six(Basis[n], pt) IN
     \* U_tt + (cos t / sin t) U_t + U_pp / sin^2 t = -6 U
     RAdd(RAdd(v[4], RMul(RDiv(pt[1], pt[2]), v[2])), RDiv(v[5], RMul(pt[2], pt[2]))) = RMul(R(-6), v[1])
C14_MixedSymmetric == \A n \in 1..5 : Eval(Dp(Dt(Basis[n])), pt) = Eval(Dt(Dp(Basis[n])), pt)
\* longitude structure of the order-m members: U_pp = -m^2 U
C14_Order == /\ Eval(Dp(Dp(B1)), pt) = RZero
             /\ \A n \in {2, 3} : Eval(Dp(Dp(Basis[n])), pt) = RNeg(Eval(Basis[n], pt))
             /\ \A n \in {4, 5} : Eval(Dp(Dp(Basis[n])), pt) = RMul(R(-4), Eval(Basis[n], pt))

\* ---- independence of the basis on the fit points (a constant-level fact) ----
FitPoints == << <<<<3, 5>>, <<4, 5>>, <<1, 1>>, <<0, 1>>>>, <<<<4, 5>>, <<3, 5>>, <<3, 5>>, <<4, 5>>>>, <<<<0, 1>>, <<1, 1>>, <<0, 1>>, <<1, 1>>>>,
               <<<<-3, 5>>, <<4, 5>>, <<0, 1>>, <<-1, 1>>>>, <<<<-4, 5>>, <<3, 5>>, <<-4, 5>>, <<3, 5>>>> >>
M5 == [r \in 1..5 |-> [n \in 1..5 |-> Eval(Basis[n], FitPoints[r])]]
\* determinant by Laplace expansion along the first row (5x5, rationals)
Minor(m, r, c) == LET n == Len(m) IN [i \in 1..(n - 1) |-> [j \in 1..(n - 1) |-> m[IF i < r THEN i ELSE i + 1][IF j < c THEN j ELSE j + 1]]]
RECURSIVE Det(_)
RECURSIVE DetSum(_, _)
DetSum(m, j) == IF j = 0 THEN RZero
                ELSE RAdd(DetSum(m, j - 1), RMul(RMul(R(IF j % 2 = 1 THEN 1 ELSE -1), m[1][j]), Det(Minor(m, 1, j))))
Det(m) == IF Len(m) = 1 THEN m[1][1] ELSE DetSum(m, Len(m))
ASSUME ~RIsZero(Det(M5))
ASSUME PrintT(<<"DET", Det(M5)>>)

Export == PrintT(<<"PT", pt, [n \in 1..5 |-> Six(Basis[n], pt)]>>)
=============================================================================
