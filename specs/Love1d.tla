------------------------------- MODULE Love1d -------------------------------
(***************************************************************************)
(* Homogeneous-body (one-layer) complex Love number, property C12, written  *)
(* from the Kelvin/Love closed form over Gaussian rationals:                *)
(*     m_l = (2 l^2 + 4 l + 3) / l * mu / (rho g R)                          *)
(*     k_l(J) = 3 / (2 (l - 1)) / (1 + m_l / (J mu))                         *)
(* TLC enumerates a lattice of exact inputs, checks the algebraic clauses    *)
(* and exports (inputs, m_l, k_l) for conformance of TidalPy.tides.love1d.   *)
(***************************************************************************)
EXTENDS CRat, TLC

CONSTANTS Degrees, Mus, RhoGRs, JRes, JIms     \* J = (jre + i jim) / mu ; jim <= 0 for passive material

VARIABLES l, mu, rgr, jre, jim
vars == <<l, mu, rgr, jre, jim>>

Init == /\ l \in Degrees /\ mu \in Mus /\ rgr \in RhoGRs /\ jre \in JRes /\ jim \in JIms
Next == UNCHANGED vars
Spec == Init /\ [][Next]_vars

\* ---- definitions (from the closed form, not from the code) ----
Coef(ll) == Norm(2 * ll * ll + 4 * ll + 3, ll)
EffRig(ll, m, p) == RMul(Coef(ll), RDiv(m, p))                      \* m_l
J(m, a, b) == CScale(RInv(m), C(a, b))                              \* complex compliance
FluidLove(ll) == Norm(3, 2 * (ll - 1))
\* J mu = a + b i, so  k = F / (1 + m_l / (J mu)) = F (J mu) / (J mu + m_l)
Love(ll, m, p, a, b) ==
  CScale(FluidLove(ll), CDiv(C(a, b), CAdd(C(a, b), CReal(EffRig(ll, m, p)))))
StaticLove(ll, m, p) == RMul(FluidLove(ll), RInv(RAdd(ROne, EffRig(ll, m, p))))

\* degree-2 helpers as documented: m_2 = 19 mu / (2 rho g R), k_2 = 3/2 / (1 + m_2 / (J mu))
EffRig2(m, p) == RMul(<<19, 2>>, RDiv(m, p))
Love2(m, p, a, b) == CScale(<<3, 2>>, CDiv(C(a, b), CAdd(C(a, b), CReal(EffRig2(m, p)))))

Out == [m_l |-> EffRig(l, mu, rgr), k |-> Love(l, mu, rgr, jre, jim), k_static |-> StaticLove(l, mu, rgr)]

\* ---- clauses of C12 decided exactly on every lattice point ----
C12_Degree2Coincide == l = 2 => /\ EffRig(2, mu, rgr) = EffRig2(mu, rgr)
                                /\ Love(2, mu, rgr, jre, jim) = Love2(mu, rgr, jre, jim)
C12_PassiveSign == RLe(jim, RZero) => RLe(CIm(Love(l, mu, rgr, jre, jim)), RZero)
C12_ElasticIsStatic == (jre = ROne /\ jim = RZero) => Love(l, mu, rgr, jre, jim) = CReal(StaticLove(l, mu, rgr))
C12_BelowFluidLimit == RLt(StaticLove(l, mu, rgr), FluidLove(l)) /\ RLt(RZero, StaticLove(l, mu, rgr))
\* softer body (larger rho g R / mu) => closer to the fluid limit
C12_MonotoneInRigidity == \A m2 \in Mus : RLt(mu, m2) => RLt(StaticLove(l, m2, rgr), StaticLove(l, mu, rgr))

Export == PrintT(<<"ROW", l, mu, rgr, jre, jim, Out.m_l, Out.k, Out.k_static>>)
=============================================================================
