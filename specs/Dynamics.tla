------------------------------ MODULE Dynamics ------------------------------
(***************************************************************************)
(* Spin-orbit evolution rates (Boue & Efroimsky 2019 as used by TidalPy)     *)
(* in exact rationals, property C11.  Objects 1 and 2 orbit each other;     *)
(* object i dissipates with potential derivatives dUdM_i, dUdw_i, dUdO_i     *)
(* (per unit mass of the perturber), spin rate W_i, polar moment C_i.       *)
(*   dR/dM = -(M1+M2)/(M1 M2) (M2 dUdM_1 + M1 dUdM_2),  same for w          *)
(*   da/dt = 2/(n a) dR/dM                                                   *)
(*   de/dt = sqrt(1-e^2)/(n a^2 e) (sqrt(1-e^2) dR/dM - dR/dw),  0 at e = 0  *)
(*   dW_i/dt = M_other / C_i dUdO_i                                          *)
(* Kepler III is imposed by DEFINING G = n^2 a^3 / (M1 + M2).               *)
(* TLC checks energy and (zero-obliquity) angular momentum balance on every  *)
(* lattice point and exports the rates for conformance of TidalPy.dynamics.  *)
(***************************************************************************)
EXTENDS Rat, TLC

CONSTANTS Masses, As, Ns, Eccs, DUs, Spins, Mois, Dual

VARIABLES m1, m2, a, n, ecc, u1, u2, w1, w2, c1, c2
\* ecc = <<e, sqrt(1 - e^2)>> both rational ; u_i = <<dUdM, dUdw, dUdO>> integers (u2 = zeros when ~Dual)
vars == <<m1, m2, a, n, ecc, u1, u2, w1, w2, c1, c2>>

Zero3 == <<0, 0, 0>>
Init == /\ m1 \in Masses /\ m2 \in Masses /\ a \in As /\ n \in Ns /\ ecc \in Eccs
        /\ u1 \in DUs /\ w1 \in Spins /\ c1 \in Mois
        /\ IF Dual THEN u2 \in DUs /\ w2 \in Spins /\ c2 \in Mois ELSE u2 = Zero3 /\ w2 = 0 /\ c2 = 1
Next == UNCHANGED vars
Spec == Init /\ [][Next]_vars

e == ecc[1]
s == ecc[2]                                 \* sqrt(1 - e^2)
BetaInv == Norm(m1 + m2, m1 * m2)
G == Norm(n * n * a * a * a, m1 + m2)       \* Kepler III
dRdM == RNeg(RMul(BetaInv, R(m2 * u1[1] + m1 * u2[1])))
dRdw == RNeg(RMul(BetaInv, R(m2 * u1[2] + m1 * u2[2])))
dadt == RMul(Norm(2, n * a), dRdM)
dedt == IF RIsZero(e) THEN RZero
        ELSE RMul(RDiv(s, RMul(R(n * a * a), e)), RSub(RMul(s, dRdM), dRdw))
dw1dt == RMul(Norm(m2, c1), R(u1[3]))
dw2dt == RMul(Norm(m1, c2), R(u2[3]))

\* tidal heating of each object (the identity C10 establishes for the mode sums)
Heat1 == R(m2 * (n * u1[1] - w1 * u1[3]))
Heat2 == R(m1 * (n * u2[1] - w2 * u2[3]))

\* d/dt of E_orb = -G M1 M2 / (2a)
dEorb == RMul(RMul(G, Norm(m1 * m2, 2 * a * a)), dadt)
dErot == RAdd(RMul(R(c1 * w1), dw1dt), RMul(R(c2 * w2), dw2dt))
C11_Energy == RAdd(dEorb, dErot) = RNeg(RAdd(Heat1, Heat2))

\* L_orb = beta sqrt(G (M1+M2) a (1-e^2)) = beta n a^2 s ;  dL/dt = L (da/dt/(2a) - e de/dt/(1-e^2))
Lorb == RMul(RMul(RInv(BetaInv), R(n * a * a)), s)
dLorb == RMul(Lorb, RSub(RMul(Norm(1, 2 * a), dadt), RMul(RDiv(e, RMul(s, s)), dedt)))
dLspin == RAdd(RMul(R(c1), dw1dt), RMul(R(c2), dw2dt))
ZeroObliquity == u1[2] = u1[3] /\ u2[2] = u2[3]
\* (on a circular orbit only q = 0 modes exist, for which dU/dM = dU/dw; the lattice is not restricted to that, the clause is)
CircularConsistent == RIsZero(e) => (u1[1] = u1[2] /\ u2[1] = u2[2])
C11_AngularMomentum == (ZeroObliquity /\ CircularConsistent) => RIsZero(RAdd(dLorb, dLspin))
C11_CircularEccRate == RIsZero(e) => RIsZero(dedt)

Export == PrintT(<<"ROW", m1, m2, a, n, ecc, u1, u2, w1, w2, c1, c2, dadt, dedt, dw1dt, dw2dt, Heat1, Heat2>>)
=============================================================================
