SPECIFICATION Spec
CONSTANTS
  P = 46337
  MaxLayers = 3
  Seeds = {1, 2, 3}
  Mutation = "forget_c3"
INVARIANT C02_Surface
INVARIANT C02_Interfaces
INVARIANT C02_Definedness
INVARIANT C02_AllCollapsed
INVARIANT ExportStack
INVARIANT ExportDegen
CHECK_DEADLOCK FALSE
