SPECIFICATION Spec
CONSTANTS
  StarHost = TRUE
  NVals = 3
  Bug = "stale_on_star_host"
INVARIANT TypeOK
INVARIANT C13_InsolationFresh
INVARIANT StarHostAlias
PROPERTY SettersStore
PROPERTY OwnOrbitUntouched
PROPERTY StellarOrbitUntouched
CHECK_DEADLOCK FALSE
