SPECIFICATION Spec
CONSTANTS
  Masses = {1, 3, 5}
  As = {1, 2, 3}
  Ns = {1, 2}
  Eccs <- MCEccs
  DUs <- MCDUs
  Spins <- MCSpins
  Mois = {1, 2}
  Dual = FALSE
INVARIANT C11_Energy
INVARIANT C11_AngularMomentum
INVARIANT C11_CircularEccRate
INVARIANT Export
CHECK_DEADLOCK FALSE
