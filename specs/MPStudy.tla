------------------------------- MODULE MPStudy -------------------------------
(***************************************************************************)
(* On-disk journal of TidalPy.utilities.multiprocessing.multiprocessing_run *)
(* (property C18).  One action per file operation of the code, in the code's *)
(* own order.  Three switches select between the code as it was found       *)
(* (all FALSE) and the repaired code (all TRUE); the shipped configs use the *)
(* repaired values, MPStudy_asis.cfg is the negative control.              *)
(*                                                                         *)
(* disk   : hdr, dir, marker, res, errf   (survive a Crash)                *)
(* memory : ppc, skip, wpc, ret, out      (lost by a Crash)                *)
(***************************************************************************)
EXTENDS Naturals, FiniteSets, TLC

CONSTANTS Cases,          \* set of case numbers 0..N-1
          MaxWorkers,     \* pool size (cases simultaneously in flight)
          MaxCrash,       \* number of SIGKILLs of the whole study
          MaxInc,         \* number of incarnations (runs of multiprocessing_run on the directory)
          FailSets,       \* set of subsets of Cases whose study function raises (TLC picks one)
          MustKinds,      \* subset of {"list","tuple","empty_tuple"} (TLC picks one)
          ResultFirst,    \* TRUE: result file written before the success marker (repaired order)
          OwnCaseNumber,  \* TRUE: returned record carries the worker's own case number
          ParserStripsParens, \* TRUE: restart header parser accepts tuple-formatted must_include
          CrashInHeader,  \* TRUE: the kill may also land inside the header write
          Transient       \* TRUE: the set of cases whose study function raises may differ from one incarnation to the next

VARIABLES hdr, dir, marker, res, errf,
          ppc, skip, wpc, ret, out,
          execs, crashes, inc, fail, kind, doneAtCrash

disk == <<hdr, dir, marker, res, errf>>
mem  == <<ppc, skip, wpc, ret, out>>
hist == <<execs, crashes, inc, fail, kind, doneAtCrash>>
vars == <<disk, mem, hist>>

ASSUME MaxInc > MaxCrash

LastCase == CHOOSE c \in Cases : \A d \in Cases : d <= c

WIdle == [c \in Cases |-> "idle"]
InFlight == {c \in Cases : wpc[c] \notin {"idle", "returned"}}

Rec(c, src) == [case |-> c,
                cn   |-> IF src = "load" \/ OwnCaseNumber THEN c ELSE LastCase,
                idx  |-> c,
                val  |-> IF c \in fail /\ src = "run" THEN "None" ELSE "F",
                src  |-> src]

Init ==
  /\ hdr = "none"
  /\ dir = [c \in Cases |-> FALSE]
  /\ marker = [c \in Cases |-> FALSE]
  /\ res = [c \in Cases |-> "none"]
  /\ errf = [c \in Cases |-> FALSE]
  /\ ppc = "init" /\ skip = {} /\ wpc = WIdle /\ ret = {} /\ out = {}
  /\ execs = [c \in Cases |-> 0] /\ crashes = 0 /\ inc = 1
  /\ fail \in FailSets /\ kind \in MustKinds
  /\ doneAtCrash = {}

(* ------------------------------ parent -------------------------------- *)

\* `os.path.isfile(tpy_mp.log)` decides between a fresh study and a restart (force_restart=False)
PStartFresh == /\ ppc = "init" /\ hdr = "none"
               /\ ppc' = "whdr" /\ hdr' = "partial"          \* open(log,'w'): file exists, nothing flushed yet
               /\ UNCHANGED <<dir, marker, res, errf, skip, wpc, ret, out, hist>>

PHeaderEnd == /\ ppc = "whdr"
              /\ hdr' = "full" /\ ppc' = "pool" /\ skip' = {}
              /\ UNCHANGED <<dir, marker, res, errf, wpc, ret, out, hist>>

HeaderReadable == /\ hdr = "full"
                  /\ (kind = "list" \/ ParserStripsParens)

PParse == /\ ppc = "init" /\ hdr # "none"
          /\ ppc' = IF HeaderReadable THEN "scan" ELSE "raised"
          /\ UNCHANGED <<disk, skip, wpc, ret, out, hist>>

PScan == /\ ppc = "scan"
         /\ skip' = {c \in Cases : marker[c]}
         /\ ppc' = "pool"
         /\ UNCHANGED <<disk, wpc, ret, out, hist>>

PPoolDone == /\ ppc = "pool"
             /\ \A c \in Cases \ skip : wpc[c] = "returned"
             /\ ppc' = "load"
             /\ UNCHANGED <<disk, skip, wpc, ret, out, hist>>

\* np.load of a previously completed case
PLoad(c) == /\ ppc = "load" /\ c \in skip /\ ~(\E r \in ret : r.case = c)
            /\ IF res[c] = "full"
                 THEN ret' = ret \cup {Rec(c, "load")} /\ ppc' = ppc
                 ELSE ret' = ret /\ ppc' = "raised"
            /\ UNCHANGED <<disk, skip, wpc, out, hist>>

PFinish == /\ ppc = "load"
           /\ \A c \in skip : \E r \in ret : r.case = c
           /\ out' = ret /\ ppc' = "done"
           /\ UNCHANGED <<disk, skip, wpc, ret, hist>>

(* ------------------------------ workers ------------------------------- *)

CanStart(c) == /\ ppc = "pool" /\ c \notin skip /\ wpc[c] = "idle"
               /\ Cardinality(InFlight) < MaxWorkers

WLog(c) == /\ CanStart(c)
           /\ wpc' = [wpc EXCEPT ![c] = "logged"]
           /\ UNCHANGED <<disk, ppc, skip, ret, out, hist>>

WMkDir(c) == /\ ppc = "pool" /\ wpc[c] = "logged"
             /\ dir' = [dir EXCEPT ![c] = TRUE]
             /\ wpc' = [wpc EXCEPT ![c] = "dir"]
             /\ UNCHANGED <<hdr, marker, res, errf, ppc, skip, ret, out, hist>>

WExec(c) == /\ ppc = "pool" /\ wpc[c] = "dir"
            /\ execs' = [execs EXCEPT ![c] = @ + 1]
            /\ wpc' = [wpc EXCEPT ![c] = IF c \in fail THEN "failed" ELSE "ran"]
            /\ UNCHANGED <<disk, ppc, skip, ret, out, crashes, inc, fail, kind, doneAtCrash>>

Return(c) == /\ wpc' = [wpc EXCEPT ![c] = "returned"]
             /\ ret' = ret \cup {Rec(c, "run")}

WErr(c) == /\ ppc = "pool" /\ wpc[c] = "failed"
           /\ errf' = [errf EXCEPT ![c] = TRUE]
           /\ Return(c)
           /\ UNCHANGED <<hdr, dir, marker, res, ppc, skip, out, hist>>

\* the success path: two orders
WMarker(c) == /\ ppc = "pool"
              /\ wpc[c] = IF ResultFirst THEN "res2" ELSE "ran"
              /\ marker' = [marker EXCEPT ![c] = TRUE]
              /\ wpc' = [wpc EXCEPT ![c] = "marker"]
              /\ UNCHANGED <<hdr, dir, res, errf, ppc, skip, ret, out, hist>>

WLogOk(c) == /\ ppc = "pool" /\ wpc[c] = "marker"
             /\ IF ResultFirst THEN Return(c) ELSE (wpc' = [wpc EXCEPT ![c] = "logok"] /\ ret' = ret)
             /\ UNCHANGED <<disk, ppc, skip, out, hist>>

WResBegin(c) == /\ ppc = "pool"
                /\ wpc[c] = IF ResultFirst THEN "ran" ELSE "logok"
                /\ res' = [res EXCEPT ![c] = "partial"]
                /\ wpc' = [wpc EXCEPT ![c] = "res1"]
                /\ UNCHANGED <<hdr, dir, marker, errf, ppc, skip, ret, out, hist>>

WResEnd(c) == /\ ppc = "pool" /\ wpc[c] = "res1"
              /\ res' = [res EXCEPT ![c] = "full"]
              /\ IF ResultFirst THEN (wpc' = [wpc EXCEPT ![c] = "res2"] /\ ret' = ret) ELSE Return(c)
              /\ UNCHANGED <<hdr, dir, marker, errf, ppc, skip, out, hist>>

(* --------------------------- environment ------------------------------ *)

Completed == {c \in Cases : marker[c] /\ res[c] = "full"}

Crash == /\ crashes < MaxCrash
         /\ ppc \in {"whdr", "scan", "pool", "load"}
         /\ (ppc = "whdr" => CrashInHeader)
         /\ crashes' = crashes + 1
         /\ ppc' = "dead" /\ skip' = {} /\ wpc' = WIdle /\ ret' = {} /\ out' = {}
         /\ doneAtCrash' = doneAtCrash \cup Completed
         /\ UNCHANGED <<disk, execs, inc, fail, kind>>

\* the user runs the same call again on the same directory (force_restart=False)
Rerun == /\ \/ ppc = "dead" /\ inc < MaxInc
            \/ ppc = "done" /\ inc + (MaxCrash - crashes) < MaxInc
         /\ inc' = inc + 1
         /\ ppc' = "init" /\ skip' = {} /\ wpc' = WIdle /\ ret' = {} /\ out' = {}
         /\ doneAtCrash' = doneAtCrash \cup Completed
         \* transient failures: a case that raised in one incarnation may succeed in a later one (its error.log stays on disk)
         /\ fail' \in (IF Transient THEN FailSets ELSE {fail})
         /\ UNCHANGED <<disk, execs, crashes, kind>>

Worker(c) == WLog(c) \/ WMkDir(c) \/ WExec(c) \/ WErr(c) \/ WMarker(c) \/ WLogOk(c) \/ WResBegin(c) \/ WResEnd(c)
Parent == PStartFresh \/ PHeaderEnd \/ PParse \/ PScan \/ PPoolDone \/ (\E c \in Cases : PLoad(c)) \/ PFinish

Next == Parent \/ (\E c \in Cases : Worker(c)) \/ Crash \/ Rerun

Fairness == /\ WF_vars(Parent) /\ \A c \in Cases : WF_vars(Worker(c))
            /\ WF_vars(Rerun)

Spec == Init /\ [][Next]_vars /\ Fairness

(* ------------------------------ properties ---------------------------- *)

TypeOK == /\ hdr \in {"none", "partial", "full"}
          /\ ppc \in {"init", "whdr", "scan", "pool", "load", "done", "dead", "raised"}
          /\ \A c \in Cases : wpc[c] \in {"idle", "logged", "dir", "ran", "failed", "marker", "logok", "res1", "res2", "returned"}
          /\ \A c \in Cases : res[c] \in {"none", "partial", "full"}

\* a restarted study never raises out of multiprocessing_run
C18_RestartCompletes == ppc # "raised"

\* ... and it does complete (liveness; checked under Spec with fairness)
C18_EventuallyDone == <>[](ppc = "done")

\* at the end every case has exactly one record, equal to the uninterrupted run's
\* (a case loaded from disk completed in an earlier incarnation: its value is the successful one whatever fails now)
Expected(c, src) == IF src = "run" /\ c \in fail THEN "None" ELSE "F"
C18_ExactlyOneResult ==
  ppc = "done" => \A c \in Cases : /\ Cardinality({r \in out : r.case = c}) = 1
                                   /\ \A r \in out : r.case = c => r.val = Expected(c, r.src)
                                   /\ (c \in doneAtCrash => \A r \in out : r.case = c => r.val = "F")

\* every reported result carries its own case number and grid index
C18_OwnIdentity == ppc = "done" => \A r \in out : r.cn = r.case /\ r.idx = r.case

\* cases that were complete when the study was interrupted / re-run are not executed again
C18_NoRedo == [][\A c \in Cases : c \in doneAtCrash => execs'[c] = execs[c]]_vars

\* the design invariant the repaired order relies on
MarkerImpliesResult == \A c \in Cases : marker[c] => res[c] = "full"

\* extra (not part of C18 as stated): a kill inside the header write
Extra_HeaderAtomic == ppc = "init" => hdr # "partial"

StateConstraint == \A c \in Cases : execs[c] <= MaxCrash + MaxInc
=============================================================================
