---------------------------- MODULE SolverControl ----------------------------
(***************************************************************************)
(* Control-flow / resource model of TidalPy.RadialSolver.radial_solver and   *)
(* cf_radial_solver (property C06): argument validation, in-place            *)
(* non-dimensionalisation of the caller's arrays, heap blocks, per-layer     *)
(* integration, failure branches, `finally`, and the result protocol.        *)
(* One pc location per statement group of solver.pyx, in the code's order.   *)
(*                                                                         *)
(* Guarded = FALSE is the code as found: the raises between the in-place     *)
(* non-dimensionalisation and the `try` skip the `finally` that restores the *)
(* caller's arrays.  Guarded = TRUE is the intended design (every raise      *)
(* after the scaling is covered by the `finally`); TLC checks the clauses of *)
(* C06 on it, and enumerates every exit of the as-found model so that the    *)
(* harness can realise each path on the real solver and compare.             *)
(***************************************************************************)
EXTENDS Integers, FiniteSets, TLC

CONSTANTS Guarded

\* the wrapper checks the length of EACH per-layer tuple against len(layer_types) (three separate tests)
LenFaults == {"len_is_static", "len_is_incompressible", "len_upper_radius"}
Faults == {"none", "solve_for_not_tuple", "unknown_layer_type", "unknown_integrator",
           "no_layers", "too_few_slices_total", "nan_after_nondim", "too_many_solve_for", "unknown_solve_for",
           "thin_layer", "start_not_implemented", "integration_fails", "surface_bc_fails"} \cup LenFaults

VARIABLES pc, fault, nondim, raiseOnFail,   \* configuration chosen at Init
          inputs,                            \* "orig" | "nondim"   (the caller's five arrays)
          heap,                              \* set of live heap blocks
          outcome                            \* <<kind, exception class>>, kind: running | raise | pending_raise | error_flag | no_error | returned_fail | returned_ok
vars == <<pc, fault, nondim, raiseOnFail, inputs, heap, outcome>>

Init == /\ pc = "wrapper_checks" /\ fault \in Faults /\ nondim \in BOOLEAN /\ raiseOnFail \in BOOLEAN
        /\ inputs = "orig" /\ heap = {} /\ outcome = <<"running", "">>

Raise(cls) == outcome' = <<"raise", cls>> /\ pc' = "exit"
Goto(l) == pc' = l /\ outcome' = outcome
Same == UNCHANGED <<fault, nondim, raiseOnFail>>

\* ---- radial_solver (Python-visible wrapper) ----
WrapperChecks == /\ pc = "wrapper_checks" /\ Same /\ UNCHANGED <<inputs, heap>>
                 /\ IF fault \in LenFaults THEN Raise("AttributeError")
                    \* (`tuple solve_for` is a typed argument: a non-tuple is rejected by the call itself, before the body's own check)
                    ELSE IF fault = "solve_for_not_tuple" THEN Raise("TypeError")
                    \* intended design: every validation precedes the first allocation
                    ELSE IF Guarded /\ fault \in {"unknown_layer_type", "unknown_integrator"} THEN Raise("UnknownModelError")
                    ELSE Goto("wrapper_alloc")
WrapperAlloc == /\ pc = "wrapper_alloc" /\ Same /\ UNCHANGED inputs
                /\ heap' = heap \cup {"layer_assumptions", "upper_radius"}
                \* the layer-type and integrator checks sit between the allocation and the wrapper's try
                /\ IF fault = "unknown_layer_type" THEN Raise("UnknownModelError")
                   ELSE IF fault = "unknown_integrator" THEN Raise("UnknownModelError")
                   ELSE Goto("cf_checks")
\* ---- cf_radial_solver ----
CfChecks == /\ pc = "cf_checks" /\ Same /\ UNCHANGED <<inputs, heap>>
            /\ IF fault = "no_layers" THEN Raise("AttributeError")
               ELSE IF fault = "too_few_slices_total" THEN Raise("AttributeError")
               ELSE Goto("nondim")
NonDim == /\ pc = "nondim" /\ Same /\ UNCHANGED heap
          /\ inputs' = IF nondim THEN "nondim" ELSE "orig"
          /\ Goto(IF Guarded THEN "try_enter" ELSE "pre_try")
\* statements between the scaling and the `try` in the code as found
PreTryBody(next) ==
  IF fault = "nan_after_nondim" /\ nondim THEN Raise("ValueError") /\ UNCHANGED heap
  ELSE IF fault = "too_many_solve_for" THEN Raise("AttributeError") /\ UNCHANGED heap
  ELSE IF fault = "unknown_solve_for" THEN Raise("NotImplementedError") /\ UNCHANGED heap
  ELSE IF fault = "thin_layer" THEN Raise("ValueError") /\ heap' = heap \cup {"layer_int_data"}
  ELSE Goto(next) /\ heap' = heap \cup {"layer_int_data", "main_storage"}
PreTry == pc = "pre_try" /\ Same /\ UNCHANGED inputs /\ PreTryBody("try_body")
\* intended design: the same statements, inside the try: a raise goes to the finally
TryEnter == /\ pc = "try_enter" /\ Same /\ UNCHANGED inputs
            /\ IF fault \in {"too_many_solve_for", "unknown_solve_for", "thin_layer"} \/ (fault = "nan_after_nondim" /\ nondim)
                 THEN /\ outcome' = <<"pending_raise", CASE fault = "too_many_solve_for" -> "AttributeError"
                                                        [] fault = "unknown_solve_for" -> "NotImplementedError"
                                                        [] OTHER -> "ValueError">>
                      /\ pc' = "finally" /\ heap' = heap \cup (IF fault = "thin_layer" THEN {"layer_int_data"} ELSE {})
                 ELSE Goto("try_body") /\ heap' = heap \cup {"layer_int_data", "main_storage"}
TryBody == /\ pc = "try_body" /\ Same /\ UNCHANGED <<inputs, heap>> /\ pc' = "finally"
           /\ outcome' = IF fault = "start_not_implemented" THEN <<"pending_raise", "NotImplementedError">>
                         ELSE IF fault \in {"integration_fails", "surface_bc_fails"}
                           THEN (IF raiseOnFail THEN <<"pending_raise", "RuntimeError">> ELSE <<"error_flag", "">>)
                         ELSE <<"no_error", "">>
Finally == /\ pc = "finally" /\ Same
           /\ inputs' = "orig"                                   \* cf_redimensionalize_physicals (if it was scaled)
           /\ heap' = heap \ {"layer_int_data", "main_storage"}
           /\ pc' = "after_finally" /\ outcome' = outcome
AfterFinally == /\ pc = "after_finally" /\ Same /\ UNCHANGED <<inputs, heap>> /\ pc' = "exit"
                /\ outcome' = IF outcome[1] = "pending_raise" THEN <<"raise", outcome[2]>>
                              ELSE IF outcome[1] = "error_flag" THEN <<"returned_fail", "">> ELSE <<"returned_ok", "">>
\* the wrapper's finally frees its two blocks whenever cf_radial_solver was entered
WrapperFinally == /\ pc = "exit" /\ heap \cap {"layer_assumptions", "upper_radius"} # {}
                  /\ outcome[1] # "running" /\ fault \notin {"unknown_layer_type", "unknown_integrator"}
                  /\ heap' = heap \ {"layer_assumptions", "upper_radius"} /\ UNCHANGED <<pc, fault, nondim, raiseOnFail, inputs, outcome>>

Next == WrapperChecks \/ WrapperAlloc \/ CfChecks \/ NonDim \/ PreTry \/ TryEnter \/ TryBody \/ Finally \/ AfterFinally \/ WrapperFinally
Spec == Init /\ [][Next]_vars

Done == pc = "exit" /\ ~ENABLED WrapperFinally
IsRaise == outcome[1] = "raise"

\* ---- clauses of C06 ----
C06_InputsRestored == Done => inputs = "orig"
C06_NoLeak == Done => heap = {}
C06_FailureProtocol == Done => outcome[1] \in {"raise", "returned_fail", "returned_ok"}
C06_RaiseOnFail == Done /\ raiseOnFail /\ fault \in {"integration_fails", "surface_bc_fails"} => IsRaise
C06_FailReported == Done /\ ~raiseOnFail /\ fault \in {"integration_fails", "surface_bc_fails"} => outcome[1] = "returned_fail"
C06_OkWithoutFault == Done /\ fault = "none" => outcome[1] = "returned_ok"

Export == Done => PrintT(<<"EXIT", fault, nondim, raiseOnFail, outcome, inputs, heap>>)
=============================================================================
