SPECIFICATION Spec
CONSTANTS
  MaxSteps = 10
  Bug = FALSE
INVARIANT C13_HostFresh
INVARIANT C13_MoonFresh
INVARIANT C13_OrbitFresh
CHECK_DEADLOCK FALSE
