SPECIFICATION Spec
CONSTRAINT Bound
INVARIANT C17_ClosedWalkIdentity
INVARIANT C17_InversePairs

CHECK_DEADLOCK FALSE
