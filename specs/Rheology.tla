------------------------------ MODULE Rheology ------------------------------
(***************************************************************************)
(* Complex shear modulus M = 1 / J of the rheology models (property C07).   *)
(* (a) kind "exact": the rational models - elastic, Newton, Maxwell,        *)
(*     Voigt-Kelvin, Burgers - from their published complex compliance J    *)
(*     over Gaussian rationals:                                             *)
(*        elastic J = 1/mu          Newton  J = -i/(eta w)                   *)
(*        Maxwell J = 1/mu - i/(eta w)                                       *)
(*        Voigt   J = 1/(mu_v + i w eta_v),  mu_v = s_m mu, eta_v = s_v eta  *)
(*        Burgers J = Maxwell + Voigt                                        *)
(*     TLC checks passivity (Re M >= 0, Im M >= 0) and |M| <= mu for the     *)
(*     Maxwell family, and exports M.                                        *)
(* (b) kind "region": which value every model (incl. Andrade and            *)
(*     Sundberg-Cooper) must return in the documented extreme-value          *)
(*     branches: |w| below MIN_FREQUENCY (incl. 0), above MAX_FREQUENCY     *)
(*     (incl. inf), modulus below MIN_MODULUS - the limit of the law there.  *)
(***************************************************************************)
EXTENDS CRat, TLC

CONSTANTS Ws, Mus, Etas, SMs, SVs
VARIABLE case
vars == <<case>>

I == C(RZero, ROne)
JElastic(mu) == CReal(RInv(mu))
JNewton(w, eta) == CScale(RNeg(RInv(RMul(eta, w))), I)
JMaxwell(w, mu, eta) == CAdd(JElastic(mu), JNewton(w, eta))
JVoigt(w, mu, eta, sm, sv) == CInv(C(RMul(sm, mu), RMul(w, RMul(sv, eta))))
JBurgers(w, mu, eta, sm, sv) == CAdd(JMaxwell(w, mu, eta), JVoigt(w, mu, eta, sm, sv))
JOf(model, w, mu, eta, sm, sv) ==
  CASE model = "elastic" -> JElastic(mu) [] model = "newton" -> JNewton(w, eta) [] model = "maxwell" -> JMaxwell(w, mu, eta)
    [] model = "voigt" -> JVoigt(w, mu, eta, sm, sv) [] model = "burgers" -> JBurgers(w, mu, eta, sm, sv)
ExactModels == {"elastic", "newton", "maxwell", "voigt", "burgers"}
AllModels == ExactModels \cup {"andrade", "sundberg"}
MaxwellFamily == {"maxwell", "burgers", "andrade", "sundberg"}

\* the limit of each law in the guarded regions (what the documented branches must return)
RegionValue(model, freg, mreg) ==
  IF freg = "low" THEN (IF model = "elastic" THEN "mu" ELSE IF model = "voigt" THEN "mu_v" ELSE "zero")            \* w -> 0
  ELSE IF freg = "high" THEN (IF model \in {"newton", "voigt"} THEN "i_inf" ELSE "mu")                             \* w -> inf
  ELSE IF mreg = "tiny" THEN (IF model = "elastic" THEN "mu" ELSE IF model = "newton" THEN "i_w_eta"
                              ELSE IF model = "voigt" THEN "i_w_eta_v" ELSE "zero")                               \* mu -> 0
  ELSE "law"

Init ==
  \/ \E model \in ExactModels, w \in Ws, mu \in Mus, eta \in Etas, sm \in SMs, sv \in SVs :
       /\ (model \notin {"voigt", "burgers"} => (sm = CHOOSE x \in SMs : TRUE) /\ (sv = CHOOSE x \in SVs : TRUE))
       \* Burgers: 1/J needs |J|^2 of a four-term sum; keep its lattice where TLC's 32-bit integers suffice
       /\ (model = "burgers" => w \in {<<1, 1>>, <<2, 1>>} /\ mu = <<1, 1>> /\ eta \in {<<1, 1>>, <<1, 2>>})
       /\ case = [kind |-> "exact", model |-> model, w |-> w, mu |-> mu, eta |-> eta, sm |-> sm, sv |-> sv,
                  M |-> CInv(JOf(model, w, mu, eta, sm, sv))]
  \/ \E model \in AllModels, freg \in {"low", "mid", "high"}, mreg \in {"tiny", "normal"} :
       case = [kind |-> "region", model |-> model, freg |-> freg, mreg |-> mreg, value |-> RegionValue(model, freg, mreg)]
Next == UNCHANGED vars
Spec == Init /\ [][Next]_vars

IsExact == case.kind = "exact"
C07_Reciprocal == IsExact => case.M = CInv(JOf(case.model, case.w, case.mu, case.eta, case.sm, case.sv))
C07_Passive == IsExact => RLe(RZero, CRe(case.M)) /\ RLe(RZero, CIm(case.M))
\* |M| <= mu  <=>  |J|^2 mu^2 >= 1   (J has the smaller numerators)
C07_BoundedByUnrelaxed == IsExact /\ case.model \in MaxwellFamily =>
    RLe(ROne, RMul(CNorm2(JOf(case.model, case.w, case.mu, case.eta, case.sm, case.sv)), RMul(case.mu, case.mu)))
\* the guarded branches return the limit of the law: frequency limits win over the modulus guard
C07_RegionsOrdered == case.kind = "region" =>
    /\ (case.freg = "high" /\ case.model \in MaxwellFamily => case.value = "mu")
    /\ (case.freg = "low" /\ case.model \in MaxwellFamily => case.value = "zero")
    /\ (case.freg = "mid" /\ case.mreg = "normal" => case.value = "law")
Export == PrintT(<<"ROW", case>>)
=============================================================================
