SPECIFICATION Spec
CONSTANTS
  MaxLayers = 3
  MaxR = 5
  Densities = {1, 3}
  ScaleNums = {1, 4, 6}
INVARIANT C16_Contiguous
INVARIANT C16_VolumesSum
INVARIANT C16_MassSum
INVARIANT C16_EnclosedMassMonotone
INVARIANT C16_ScaleKeepsFractions
CHECK_DEADLOCK FALSE
