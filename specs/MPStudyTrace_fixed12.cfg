SPECIFICATION TraceSpec
CONSTANTS
  Cases = {0, 1, 2, 3, 4, 5, 6, 7, 8, 9, 10, 11}
  MaxWorkers = 16
  MaxCrash = 6
  MaxInc = 60
  FailSets <- MCAllFailSets
  MustKinds <- MCAllKinds
  ResultFirst = TRUE
  OwnCaseNumber = TRUE
  ParserStripsParens = TRUE
  Transient = TRUE
  CrashInHeader = TRUE
INVARIANT C18_RestartCompletes
INVARIANT C18_ExactlyOneResult
INVARIANT C18_OwnIdentity
INVARIANT MarkerImpliesResult
PROPERTY C18_NoRedoT
CONSTRAINT Progress
CHECK_DEADLOCK FALSE
