SPECIFICATION Spec
CONSTANTS
  OrbKinds = {"n", "P", "a"}
  SpinKinds = {"f", "p"}
  AllowDeferred = FALSE
  SpinSync = FALSE
  ObliqOn = TRUE
  FixTerms = FALSE
  FixLove = FALSE
INVARIANT C13_Fresh
INVARIANT C17_Kepler
INVARIANT SyncHolds
CHECK_DEADLOCK FALSE
