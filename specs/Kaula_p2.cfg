SPECIFICATION Spec
CONSTANTS
  Degrees = {2, 3, 4, 5, 6, 7}
  P = 46337
  Ts = {1,2,3,4,5,6,7,8,9,10,11,12,13,14,15,16,17,18,19,20,21,22,23,24,25,26,27,28,29,30,31,32,33,34,35,36,37,38,39,40}
INVARIANT C09_FormsAgree
INVARIANT C09_AtZero
INVARIANT C09_UniversalFactors
CHECK_DEADLOCK FALSE
