------------------------------ MODULE WorldTides ------------------------------
(***************************************************************************)
(* Update cascade orbit -> world -> tides (global CPL/CTL model) with the   *)
(* memoised intermediate results and hand-passed "changed" flags of         *)
(*   structures/world_types/{basic,tidal}.py, structures/orbit/{base,       *)
(*   physics}.py, tides/methods/{base,global_approx}.py   (properties C13,  *)
(*   C17 history clause).                                                   *)
(*                                                                         *)
(* Inputs range over value ids: 0 = value from the world configuration,    *)
(* 1, 2 = two other values (spin: id i = the mean motion of orb id i; NoSpin = never set / None).  Every memoised    *)
(* result stores the ids of the inputs it was computed from, so "stale" is  *)
(* a state predicate.  One action per public API path; each action body     *)
(* raises exactly the flags the code raises on that path.                   *)
(*                                                                         *)
(* FixTerms / FixLove = TRUE model the repaired cascade (shipped configs);  *)
(* FALSE models the code as found (negative-control configs).              *)
(***************************************************************************)
EXTENDS Integers, TLC

CONSTANTS OrbKinds, SpinKinds,   \* which of the equivalent input kinds (n | P | a, frequency | period) the model distinguishes
          AllowDeferred,         \* include the call_updates=False / run_updates=False setters (one outstanding at a time)
          SpinSync,      \* world configured with force_spin_sync
          ObliqOn,       \* tides configured with obliquity_tides_on
          FixTerms,      \* TRUE: per-frequency terms are recomputed whenever the eccentricity/obliquity results were refreshed
          FixLove        \* TRUE: fixed_q_dt_changed rebuilds the CPL/CTL Love numbers before collapsing

VARIABLES e, obl, orb, spin, q,              \* inputs (value ids)
          orbA, orbN, orbP,                  \* the orbit's stored triple (id each was last derived from)
          eccRes, oblRes, sus, terms, love,  \* memoised intermediates of the tides object
          coll, deriv,                       \* exposed results: (heating, dUdM, dUdw, dUdO, k2) and (da/dt, de/dt, dn/dt)
          pending                            \* inputs changed with call_updates=False / run_updates=False and not yet propagated

inputs == <<e, obl, orb, spin, q>>
triple == <<orbA, orbN, orbP>>
memos  == <<eccRes, oblRes, sus, terms, love, coll, deriv>>
vars   == <<inputs, triple, memos, pending>>

None == <<>>
Vals == 0..2
NotGiven == -1
NoSpin == -2
Zero == 9          \* tag of the obliquity results computed from zero obliquity (obliquity tides off)

(* ---------------- the cascade, written as functions of a memo record ---------------- *)

Memo == [eccRes |-> eccRes, oblRes |-> oblRes, sus |-> sus, terms |-> terms, love |-> love,
         coll |-> coll, deriv |-> deriv]

\* PhysicsOrbit.dissipation_changed -> calculate_orbital_derivatives (needs dUdM)
OrbitDiss(m, ne, norb) ==
    IF m.coll # None THEN [m EXCEPT !.deriv = <<m.coll, ne, norb>>] ELSE m

\* GlobalApproxTides.collapse_modes (+ world.dissipation_changed -> orbit.dissipation_changed)
Collapse(m, ne, norb) ==
    IF m.terms # None /\ m.love # None
      THEN OrbitDiss([m EXCEPT !.coll = <<m.terms, m.love, m.sus>>], ne, norb)
      ELSE m

\* TidesBase.orbit_spin_changed + GlobalApproxTides.orbit_spin_changed, evaluated on the NEW inputs
TidesOSC(m, ne, nobl, norb, nspin, nq, eccCh, oblCh, orbCh, spinCh) ==
  LET m1 == IF orbCh THEN [m EXCEPT !.sus = norb] ELSE m
      eccUpd == eccCh \/ m1.eccRes = NotGiven
      m2 == IF eccUpd THEN [m1 EXCEPT !.eccRes = ne] ELSE m1
      oblUpd == IF ObliqOn THEN (oblCh \/ m2.oblRes = NotGiven) ELSE m2.oblRes = NotGiven
      m3 == IF oblUpd THEN [m2 EXCEPT !.oblRes = IF ObliqOn THEN nobl ELSE Zero] ELSE m2
      need0 == eccUpd \/ oblUpd
      doTerms == (spinCh \/ orbCh \/ (FixTerms /\ need0)) /\ nspin # NoSpin
      m4 == IF doTerms THEN [m3 EXCEPT !.terms = <<m3.eccRes, m3.oblRes, norb, nspin>>,
                                       !.love = <<norb, nspin, nq>>]
                       ELSE m3
  IN IF need0 \/ doTerms THEN Collapse(m4, ne, norb) ELSE m4

\* TidalWorld.orbit_spin_changed: tides, then (world path only) orbit.dissipation_changed
WorldOSC(m, ne, nobl, norb, nspin, nq, eccCh, oblCh, orbCh, spinCh) ==
  OrbitDiss(TidesOSC(m, ne, nobl, norb, nspin, nq, eccCh, oblCh, orbCh, spinCh), ne, norb)

\* is the memo record m fresh for the inputs (ne, nobl, norb, nspin, nq)?
FreshOf(m, ne, nobl, norb, nspin, nq) ==
  LET ec == << <<ne, IF ObliqOn THEN nobl ELSE Zero, norb, nspin>>, <<norb, nspin, nq>>, norb >>
  IN /\ m.sus = norb /\ m.eccRes = ne /\ m.oblRes = (IF ObliqOn THEN nobl ELSE Zero)
     /\ IF nspin # NoSpin THEN m.coll = ec /\ m.deriv = <<ec, ne, norb>> ELSE m.coll = None /\ m.deriv = None

\* store the memos; a deferred change stops being pending as soon as an update has propagated it
SetMemos(m) == /\ eccRes' = m.eccRes /\ oblRes' = m.oblRes /\ sus' = m.sus /\ terms' = m.terms
               /\ love' = m.love /\ coll' = m.coll /\ deriv' = m.deriv
               /\ pending' = IF FreshOf(m, e', obl', orb', spin', q') THEN {} ELSE pending

SetMemos0(m) == /\ eccRes = m.eccRes /\ oblRes = m.oblRes /\ sus = m.sus /\ terms = m.terms
                /\ love = m.love /\ coll = m.coll /\ deriv = m.deriv

(* --------------------------------- initial state --------------------------------- *)
\* PhysicsOrbit(star, tidal_host=star, tidal_bodies=world): the orbit reads e, a from the world's configuration,
\* post_orbit_initialize computes the susceptibility, orbit_changed(orbital_freq_changed, eccentricity_changed) runs
\* the cascade once with spin = None.
\* A forced-synchronous world copies the mean motion into its spin during construction, so its tides are
\* already computed when the constructor returns.
BlankMemo == [eccRes |-> NotGiven, oblRes |-> NotGiven, sus |-> 0, terms |-> None, love |-> None,
              coll |-> None, deriv |-> None]
Init ==
  /\ e = 0 /\ obl = 0 /\ orb = 0 /\ q = 0
  /\ spin = (IF SpinSync THEN 0 ELSE NoSpin)
  /\ orbA = 0 /\ orbN = 0 /\ orbP = 0
  /\ SetMemos0(WorldOSC(BlankMemo, 0, 0, 0, IF SpinSync THEN 0 ELSE NoSpin, 0, TRUE, FALSE, TRUE, SpinSync))
  /\ pending = {}

(* ------------------------------------ actions ------------------------------------ *)

Given(x) == x # NotGiven
New(x, old) == IF Given(x) THEN x ELSE old

\* world.set_state(spin_frequency|spin_period, obliquity, eccentricity, orbital_frequency|orbital_period|semi_major_axis)
WorldSetState(sp, spk, ob, ec, orv, ork) ==
  /\ Given(sp) \/ Given(ob) \/ Given(ec) \/ Given(orv)
  /\ (SpinSync => ~Given(sp))                     \* a forced-synchronous world is not given a spin by hand
  /\ LET ne == New(ec, e)  nobl == New(ob, obl)  norb == New(orv, orb)
         nspin == IF Given(orv) /\ SpinSync THEN norb ELSE New(sp, spin)
     IN /\ e' = ne /\ obl' = nobl /\ orb' = norb /\ spin' = nspin /\ q' = q
        /\ IF Given(orv) THEN orbA' = orv /\ orbN' = orv /\ orbP' = orv ELSE UNCHANGED triple
        /\ SetMemos(WorldOSC(Memo, ne, nobl, norb, nspin, q, Given(ec), Given(ob), Given(orv), Given(sp)))

\* world.spin_frequency = v / world.spin_period = v / world.set_spin_frequency(v) / set_spin_period(v)
WorldSetSpin(sp, spk) ==
  /\ ~SpinSync
  /\ spin' = sp /\ UNCHANGED <<e, obl, orb, q, triple>>
  /\ SetMemos(WorldOSC(Memo, e, obl, orb, sp, q, FALSE, FALSE, FALSE, TRUE))

\* world.obliquity = v / world.set_obliquity(v)
WorldSetObliquity(ob) ==
  /\ obl' = ob /\ UNCHANGED <<e, orb, spin, q, triple>>
  /\ SetMemos(WorldOSC(Memo, e, ob, orb, spin, q, FALSE, TRUE, FALSE, FALSE))

\* orbit.set_state(world, eccentricity, orbital_frequency|orbital_period|semi_major_axis)
OrbitSetState(ec, orv, ork) ==
  /\ Given(ec) \/ Given(orv)
  /\ LET ne == New(ec, e)  norb == New(orv, orb)
         nspin == IF Given(orv) /\ SpinSync THEN norb ELSE spin
     IN /\ e' = ne /\ orb' = norb /\ spin' = nspin /\ UNCHANGED <<obl, q>>
        /\ IF Given(orv) THEN orbA' = orv /\ orbN' = orv /\ orbP' = orv ELSE UNCHANGED triple
        \* orbit_changed: spin flag = orbital flag and is_spin_sync; then PhysicsOrbit calls dissipation_changed
        /\ SetMemos(WorldOSC(Memo, ne, obl, norb, nspin, q, Given(ec), FALSE, Given(orv), Given(orv) /\ SpinSync))

\* orbit.set_eccentricity(world, v)   ==  world.eccentricity = v
OrbitSetEcc(ec) == OrbitSetState(ec, NotGiven, CHOOSE k \in OrbKinds : TRUE)
\* orbit.set_orbital_frequency / set_orbital_period / set_semi_major_axis (world, v) == world.<property> = v
OrbitSetOrb(orv, ork) == OrbitSetState(NotGiven, orv, ork)

\* world.fixed_q = v, world.set_fixed_q(v), tides.set_fixed_q(v), tides.set_state(fixed_q=v)  (fixed_dt for CTL)
SetQ(nq, path) ==
  /\ q' = nq /\ UNCHANGED <<e, obl, orb, spin, triple>>
  /\ LET m1 == IF FixLove /\ love # None THEN [Memo EXCEPT !.love = <<orb, spin, nq>>] ELSE Memo
     IN SetMemos(Collapse(m1, e, orb))

\* ---- deferred changes: the setter stores the value and runs no update (call_updates=False / run_updates=False) ----
Keep == UNCHANGED <<triple, memos>>
WorldSetSpinDeferred(sp, spk) == /\ AllowDeferred /\ pending = {} /\ ~SpinSync /\ spin' = sp /\ pending' = (IF FreshOf(Memo, e, obl, orb, sp, q) THEN {} ELSE {"spin"}) /\ Keep /\ UNCHANGED <<e, obl, orb, q>>
WorldSetObliquityDeferred(ob) == /\ AllowDeferred /\ pending = {} /\ obl' = ob /\ pending' = (IF FreshOf(Memo, e, ob, orb, spin, q) THEN {} ELSE {"obl"}) /\ Keep /\ UNCHANGED <<e, orb, spin, q>>
SetQDeferred(nq) == /\ AllowDeferred /\ pending = {} /\ q' = nq /\ pending' = (IF FreshOf(Memo, e, obl, orb, spin, nq) THEN {} ELSE {"q"}) /\ Keep /\ UNCHANGED <<e, obl, orb, spin>>

SpinVals == 0..2
OptVals == {NotGiven} \cup Vals
OptSpin == {NotGiven} \cup SpinVals

\* guards that only normalise unused "kind" parameters
WSetState(sp, spk, ob, ec, orv, ork) ==
  /\ (sp = NotGiven => spk = CHOOSE k \in SpinKinds : TRUE) /\ (orv = NotGiven => ork = CHOOSE k \in OrbKinds : TRUE)
  /\ WorldSetState(sp, spk, ob, ec, orv, ork)
OSetState(ec, orv, ork) == Given(ec) /\ Given(orv) /\ OrbitSetState(ec, orv, ork)

Next ==
  \/ \E sp \in OptSpin, spk \in SpinKinds, ob \in OptVals, ec \in OptVals, orv \in OptVals, ork \in OrbKinds :
        WSetState(sp, spk, ob, ec, orv, ork)
  \/ \E sp \in SpinVals, spk \in SpinKinds : WorldSetSpin(sp, spk)
  \/ \E ob \in Vals : WorldSetObliquity(ob)
  \/ \E ec \in Vals, orv \in Vals, ork \in OrbKinds : OSetState(ec, orv, ork)
  \/ \E ec \in Vals : OrbitSetEcc(ec)
  \/ \E orv \in Vals, ork \in OrbKinds : OrbitSetOrb(orv, ork)
  \/ \E nq \in Vals, path \in {"world_prop", "world_set", "tides_set", "tides_state"} : SetQ(nq, path)
  \/ \E sp \in SpinVals, spk \in SpinKinds : WorldSetSpinDeferred(sp, spk)
  \/ \E ob \in Vals : WorldSetObliquityDeferred(ob)
  \/ \E nq \in Vals : SetQDeferred(nq)

Spec == Init /\ [][Next]_vars

(* ---------------------------------- properties ---------------------------------- *)

OblEff == IF ObliqOn THEN obl ELSE Zero
ExpectedColl == << <<e, OblEff, orb, spin>>, <<orb, spin, q>>, orb >>

\* C13: every exposed derived quantity is a function of the current inputs only
C13_Fresh == pending = {} =>
  /\ sus = orb
  /\ IF spin # NoSpin THEN coll = ExpectedColl /\ deriv = <<ExpectedColl, e, orb>>
                 ELSE coll = None /\ deriv = None
\* a deferred spin / fixed-Q change is completed by ANY later update that recomputes the tidal terms; a deferred
\* obliquity change by any later update that flags the obliquity (liveness of "pending" is not claimed, only this):
PendingMeansDeferred == pending # {} => ~FreshOf(Memo, e, obl, orb, spin, q)

\* C17 (history clause): semi-major axis, mean motion and period always come from the same update
C17_Kepler == orbA = orb /\ orbN = orb /\ orbP = orb

\* forced synchronous rotation keeps spin = mean motion once the mean motion has been set
SyncHolds == SpinSync /\ spin # NoSpin => spin = orb
=============================================================================
