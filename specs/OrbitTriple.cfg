SPECIFICATION Spec
INVARIANT C17_Kepler
CHECK_DEADLOCK FALSE
