---------------------------- MODULE MPStudyTrace ----------------------------
(***************************************************************************)
(* Trace validation for MPStudy: every recorded execution of the real      *)
(* multiprocessing_run (with SIGKILLs injected by harness/mp_driver.py)    *)
(* must be a behaviour of MPStudy; the C18 invariants are evaluated by TLC *)
(* in every state of every recorded behaviour.  Many traces per JVM: the   *)
(* initial states are the trace ids.                                       *)
(***************************************************************************)
EXTENDS MPStudy, Sequences, Json, IOUtils

Traces == JsonDeserialize(IOEnv.TRACE_FILE)

VARIABLES tid, l, sil
tvars == <<vars, tid, l, sil>>

Events == Traces[tid].events
Ev == Events[l]
ToSet(s) == {s[i] : i \in DOMAIN s}
BoolFn(seq) == [c \in Cases |-> seq[c + 1]]

TraceInit ==
  /\ tid \in 1..Len(Traces)
  /\ l = 1 /\ sil = {}
  /\ Init
  /\ fail = ToSet(Traces[tid].fail_by_inc[1])
  /\ kind = Traces[tid].kind

Is(e) == l <= Len(Events) /\ Ev.ev = e

\* harness-level events -----------------------------------------------------
\* "Start": first incarnation is the initial state; later ones are the user's re-run
TStart == /\ Is("Start")
          /\ IF Ev.inc = 1 THEN UNCHANGED vars ELSE (Rerun /\ fail' = ToSet(Traces[tid].fail_by_inc[Ev.inc]))

\* "Crash": the launcher saw the process group die from SIGKILL and read the disk
DiskMatches(e) == /\ hdr = e.hdr
                  /\ dir = BoolFn(e.dir) /\ marker = BoolFn(e.marker)
                  /\ errf = BoolFn(e.errf)
                  /\ res = [c \in Cases |-> e.res[c + 1]]

TCrash == /\ Is("Crash") /\ DiskMatches(Ev) /\ Crash

\* A SIGKILL lands between a file operation of some *other* worker and the log line of that operation: before the
\* crash each in-flight case may have performed at most one step that was never logged.
TSilent(c) == /\ Is("Crash") /\ ~DiskMatches(Ev)
              /\ c \in InFlight /\ c \notin sil
              /\ Worker(c)
              /\ sil' = sil \cup {c} /\ l' = l /\ tid' = tid

\* "End": the incarnation returned or raised; the disk must be what the model says
TEnd == /\ Is("End") /\ DiskMatches(Ev)
        /\ \/ Ev.status = "returned" /\ ppc = "done"
           \/ Ev.status = "raised" /\ ppc = "raised"
        /\ UNCHANGED vars

\* parent events --------------------------------------------------------------
THeaderBegin == Is("HeaderBegin") /\ PStartFresh
THeaderEnd == Is("HeaderEnd") /\ PHeaderEnd
TParseOk == Is("ParseOk") /\ PParse /\ ppc' = "scan"
TScan == Is("Scan") /\ PScan /\ skip' = ToSet(Ev.markers)
TPoolDone == Is("PoolDone") /\ PPoolDone
TLoad == Is("Load") /\ PLoad(Ev.c) /\ (Ev.ok <=> ppc' = "load")
\* an exception escaped multiprocessing_run: either the header parser or a failed load (already taken)
TRaised == /\ Is("Raised")
           /\ \/ ppc = "raised" /\ UNCHANGED vars
              \/ ppc = "init" /\ PParse /\ ppc' = "raised"

OutProj(o) == {<<o[i].cn, o[i].case, o[i].val>> : i \in DOMAIN o}
TFinish == /\ Is("Finish") /\ PFinish
           /\ Len(Ev.out) = Cardinality(out')
           /\ OutProj(Ev.out) = {<<r.cn, r.idx, r.val>> : r \in out'}

\* worker events ----------------------------------------------------------------
TWLog == Is("WLog") /\ WLog(Ev.c)
TWMkDir == Is("WMkDir") /\ WMkDir(Ev.c) /\ ~dir[Ev.c]
\* the code skips makedirs when the case directory already exists: no event, one composed step
ExecAfterSilentMkDir(c) ==
    /\ ppc = "pool" /\ wpc[c] = "logged" /\ dir[c]
    /\ execs' = [execs EXCEPT ![c] = @ + 1]
    /\ wpc' = [wpc EXCEPT ![c] = IF c \in fail THEN "failed" ELSE "ran"]
    /\ UNCHANGED <<disk, ppc, skip, ret, out, crashes, inc, fail, kind, doneAtCrash>>
TWExec == /\ Is("WExec")
          /\ (WExec(Ev.c) \/ ExecAfterSilentMkDir(Ev.c))
          /\ (Ev.ok <=> Ev.c \notin fail)
TWErr == Is("WErr") /\ WErr(Ev.c)
TWMarker == Is("WMarker") /\ WMarker(Ev.c)
TWLogOk == Is("WLogOk") /\ WLogOk(Ev.c)
TWResBegin == Is("WResBegin") /\ WResBegin(Ev.c)
TWResEnd == Is("WResEnd") /\ WResEnd(Ev.c)

TLogged ==
  /\ l <= Len(Events)
  /\ l' = l + 1 /\ tid' = tid /\ sil' = {}
  /\ \/ TStart \/ TCrash \/ TEnd
     \/ THeaderBegin \/ THeaderEnd \/ TParseOk \/ TScan \/ TPoolDone \/ TLoad \/ TRaised \/ TFinish
     \/ TWLog \/ TWMkDir \/ TWExec \/ TWErr \/ TWMarker \/ TWLogOk \/ TWResBegin \/ TWResEnd

TraceNext == TLogged \/ (\E c \in Cases : TSilent(c))

TraceSpec == TraceInit /\ [][TraceNext]_tvars

\* progress report: the harness takes the largest l per tid; accepted iff it reaches Len + 1
Progress == PrintT(<<"AT", tid, l, Len(Events) + 1>>)

C18_NoRedoT == [][\A c \in Cases : c \in doneAtCrash => execs'[c] = execs[c]]_tvars
=============================================================================
