SPECIFICATION Spec
CONSTANTS
  Masses = {1, 3}
  As = {1, 2}
  Ns = {1, 2}
  Eccs <- MCEccs
  DUs <- MCDUsDual
  Spins <- MCSpinsDual
  Mois = {1, 2}
  Dual = TRUE
INVARIANT C11_Energy
INVARIANT C11_AngularMomentum
INVARIANT C11_CircularEccRate
INVARIANT Export
CHECK_DEADLOCK FALSE
