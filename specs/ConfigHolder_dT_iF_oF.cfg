SPECIFICATION Spec
CONSTANTS
  Keys = {"a", "n", "p"}
  Vals = {1, 2}
  HasDefault = TRUE
  StoreInfo = FALSE
  InfoKey = "p"
  InfoVal = 9
  MaxSteps = 0
  WithOwner = FALSE
VIEW view
INVARIANT TypeOK
INVARIANT ClassDefaultUntouched
INVARIANT InstanceDefaultFixed
INVARIANT ConfigExists
INVARIANT NoConfigFromNothing
INVARIANT ReplacementWins
INVARIANT InfoPresent
INVARIANT UpdateIdempotent
PROPERTY KeysMonotone
PROPERTY ForcedIsHistoryFree
PROPERTY OldIsPrevious
PROPERTY CallerIsolated
PROPERTY OwnerIsolated
PROPERTY WriteBack
CHECK_DEADLOCK FALSE
