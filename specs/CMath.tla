------------------------------- MODULE CMath -------------------------------
(***************************************************************************)
(* Mathematical definitions of the compiled helpers of                      *)
(* TidalPy.utilities.math.complex / special_x (property C20):               *)
(*  (a) C99 Annex G special values of csqrt and clog on the class lattice   *)
(*      {-inf, -fin, -0, +0, +fin, +inf, nan}^2, derived from the rules of  *)
(*      G.6.4.2 / G.6.3.2 for the upper half plane and conjugate symmetry;  *)
(*  (b) exactly representable finite cases generated in integer arithmetic: *)
(*      principal square roots of Gaussian-integer squares, Pythagorean     *)
(*      triples, Gaussian-integer powers, powers of the units, and n!! as   *)
(*      prime-exponent vectors.                                             *)
(* Every state is one case; TLC checks the internal consistency of the      *)
(* definitions (root^2 = z, |z|^2 = x^2 + y^2, power recurrence, totality   *)
(* and conjugate symmetry of the tables) and exports the case.              *)
(***************************************************************************)
EXTENDS Integers, Sequences, FiniteSets, TLC

VARIABLE case
vars == <<case>>

Classes == {"-inf", "-fin", "-0", "+0", "+fin", "+inf", "nan"}
Neg(c) == CASE c = "-inf" -> "+inf" [] c = "-fin" -> "+fin" [] c = "-0" -> "+0" [] c = "+0" -> "-0"
            [] c = "+fin" -> "-fin" [] c = "+inf" -> "-inf" [] OTHER -> c
IsNegSigned(c) == c \in {"-inf", "-fin", "-0"}
IsFinite(c) == c \in {"-fin", "-0", "+0", "+fin"}
Mag(c) == IF IsNegSigned(c) THEN Neg(c) ELSE c          \* class of |y| (nan stays nan)

(* ---- csqrt, upper half plane (imaginary part not negatively signed); result <<re class, im class>> ----
   "any" = sign or value not specified by the standard;  "+fin*" = positive finite or +0 as the value demands *)
SqrtUpper(x, y) ==
  IF y = "+inf" THEN <<"+inf", "+inf">>                                    \* for all x, even nan
  ELSE IF x = "nan" THEN <<"nan", "nan">>                                   \* y finite or nan
  ELSE IF y = "nan" THEN (IF x = "-inf" THEN <<"nan", "inf-any-sign">>
                          ELSE IF x = "+inf" THEN <<"+inf", "nan">> ELSE <<"nan", "nan">>)
  ELSE IF x = "-inf" THEN <<"+0", "+inf">>                                  \* finite positive-signed y
  ELSE IF x = "+inf" THEN <<"+inf", "+0">>
  ELSE IF y = "+0" THEN (IF x \in {"+0", "-0"} THEN <<"+0", "+0">>
                         ELSE IF x = "+fin" THEN <<"+fin", "+0">> ELSE <<"+0", "+fin">>)   \* sqrt of a negative real: +i sqrt|x|
  ELSE <<"+fin", "+fin">>                                                   \* y = +fin: first quadrant, both parts positive
ConjRes(r) == <<r[1], IF r[2] = "inf-any-sign" THEN r[2] ELSE Neg(r[2])>>
SqrtClass(x, y) == IF IsNegSigned(y) THEN ConjRes(SqrtUpper(x, Neg(y))) ELSE SqrtUpper(x, y)

(* ---- clog, upper half plane; the imaginary part is an angle class ---- *)
LogUpper(x, y) ==
  IF x = "nan" THEN (IF y = "+inf" THEN <<"+inf", "nan">> ELSE <<"nan", "nan">>)
  ELSE IF y = "nan" THEN (IF x \in {"-inf", "+inf"} THEN <<"+inf", "nan">> ELSE <<"nan", "nan">>)
  ELSE IF y = "+inf" THEN (IF x = "-inf" THEN <<"+inf", "3pi/4">> ELSE IF x = "+inf" THEN <<"+inf", "pi/4">> ELSE <<"+inf", "pi/2">>)
  ELSE IF x = "-inf" THEN <<"+inf", "pi">>
  ELSE IF x = "+inf" THEN <<"+inf", "+0">>
  ELSE IF y = "+0" THEN (IF x = "-0" THEN <<"-inf", "pi">> ELSE IF x = "+0" THEN <<"-inf", "+0">>
                         ELSE IF x = "+fin" THEN <<"fin", "+0">> ELSE <<"fin", "pi">>)
  ELSE (IF x \in {"+0", "-0"} THEN <<"fin", "pi/2">> ELSE IF x = "+fin" THEN <<"fin", "(0,pi/2)">> ELSE <<"fin", "(pi/2,pi)">>)
NegAngle(a) == IF a = "nan" THEN a ELSE IF a = "+0" THEN "-0" ELSE "-" \o a
LogClass(x, y) == IF IsNegSigned(y) THEN <<LogUpper(x, Neg(y))[1], NegAngle(LogUpper(x, Neg(y))[2])>> ELSE LogUpper(x, y)

(* ---- exact finite cases ---- *)
GI == -6..6
Principal(a, b) == IF a > 0 \/ (a = 0 /\ b >= 0) THEN <<a, b>> ELSE <<-a, -b>>
Sq(a, b) == <<a * a - b * b, 2 * a * b>>
Triples == {<<3, 4, 5>>, <<5, 12, 13>>, <<8, 15, 17>>, <<7, 24, 25>>, <<20, 21, 29>>, <<9, 40, 41>>, <<1, 0, 1>>, <<0, 1, 1>>, <<0, 0, 0>>}
CMulI(u, v) == <<u[1] * v[1] - u[2] * v[2], u[1] * v[2] + u[2] * v[1]>>
RECURSIVE CPowI(_, _)
CPowI(u, k) == IF k = 0 THEN <<1, 0>> ELSE CMulI(u, CPowI(u, k - 1))
Units == {<<1, 0>>, <<-1, 0>>, <<0, 1>>, <<0, -1>>}
UnitPow(u, k) == CPowI(u, ((k % 4) + 4) % 4)          \* u^4 = 1: also the value for negative k (u^-1 = conj u = u^3)
Primes == {2, 3, 5, 7, 11, 13, 17, 19, 23, 29, 31, 37, 41, 43, 47, 53, 59, 61, 67, 71, 73, 79, 83, 89, 97, 101, 103, 107, 109, 113,
           127, 131, 137, 139, 149, 151, 157, 163, 167}
RECURSIVE Mult(_, _)
Mult(k, q) == IF k % q # 0 THEN 0 ELSE 1 + Mult(k \div q, q)        \* multiplicity of the prime q in k
RECURSIVE DFVec(_)
DFVec(k) == IF k <= 1 THEN [q \in Primes |-> 0] ELSE LET prev == DFVec(k - 2) IN [q \in Primes |-> Mult(k, q) + prev[q]]

Init ==
  \/ \E x \in Classes, y \in Classes : case = [kind |-> "csqrt_class", x |-> x, y |-> y, out |-> SqrtClass(x, y)]
  \/ \E x \in Classes, y \in Classes : case = [kind |-> "clog_class", x |-> x, y |-> y, out |-> LogClass(x, y)]
  \/ \E a \in GI, b \in GI : case = [kind |-> "csqrt_exact", z |-> Sq(a, b), root |-> Principal(a, b)]
  \/ \E t \in Triples : case = [kind |-> "hypot_exact", x |-> t[1], y |-> t[2], h |-> t[3]]
  \/ \E a \in -3..3, b \in -3..3, k \in 0..8 : case = [kind |-> "cipow_exact", base |-> <<a, b>>, k |-> k, out |-> CPowI(<<a, b>>, k)]
  \* negative exponents: the exact value is the reciprocal of the Gaussian integer `inv` (the harness forms the rational)
  \/ \E a \in -3..3, b \in -3..3, k \in 1..8 : (a # 0 \/ b # 0) /\ case = [kind |-> "cipow_neg", base |-> <<a, b>>, k |-> -k, inv |-> CPowI(<<a, b>>, k)]
  \/ \E u \in Units, k \in {-200, -199, -7, -5, -2, -1, 0, 1, 2, 3, 50, 101, 199, 200} :
        case = [kind |-> "unitpow_exact", base |-> u, k |-> k, out |-> UnitPow(u, k)]
  \/ \E k \in 0..170 : case = [kind |-> "double_factorial", n |-> k, vec |-> DFVec(k)]
Next == UNCHANGED vars
Spec == Init /\ [][Next]_vars

(* ---- consistency of the definitions ---- *)
C20_RootSquares == case.kind = "csqrt_exact" =>
    /\ Sq(case.root[1], case.root[2]) = case.z
    /\ (case.root[1] > 0 \/ (case.root[1] = 0 /\ case.root[2] >= 0))
C20_Pythagoras == case.kind = "hypot_exact" => case.x * case.x + case.y * case.y = case.h * case.h
C20_PowerRecurrence == case.kind = "cipow_exact" /\ case.k > 0 => case.out = CMulI(case.base, CPowI(case.base, case.k - 1))
C20_NegPower == case.kind = "cipow_neg" => /\ case.inv = CMulI(case.base, CPowI(case.base, -case.k - 1))
                                            /\ case.inv # <<0, 0>>              \* Gaussian integers have no zero divisors: the reciprocal exists
C20_UnitCycle == case.kind = "unitpow_exact" => CMulI(case.out, UnitPow(case.base, -case.k)) = <<1, 0>>
C20_TablesTotalAndConjugate ==
    /\ case.kind = "csqrt_class" => /\ case.out[1] \in {"+inf", "+fin", "+0", "nan"}                  \* real part never negative
                                     /\ (SqrtClass(case.x, Neg(case.y)) = ConjRes(SqrtClass(case.x, case.y)) \/ case.y = "nan")
    /\ case.kind = "clog_class" => case.out[1] \in {"+inf", "-inf", "fin", "nan"}
C20_DFRecurrence == case.kind = "double_factorial" /\ case.n >= 2 =>
    LET prev == DFVec(case.n - 2) IN \A q \in Primes : case.vec[q] = Mult(case.n, q) + prev[q]

Export == PrintT(<<"ROW", case>>)
=============================================================================
