----------------------------- MODULE DualHost -----------------------------
(***************************************************************************)
(* C13 for a DUAL-BODY system: a tidally active, non-stellar tidal host and *)
(* a tidally active moon in one PhysicsOrbit.  The host's tides are raised   *)
(* by the moon, so every change of the moon's orbit - through the moon, or   *)
(* through the orbit, one quantity at a time or batched - must reach the     *)
(* HOST's derived quantities as well (OrbitBase.orbit_changed updates the    *)
(* tidal host after its tide raiser), and a change of the host's spin must   *)
(* reach the orbit's dual-body derivatives.  Values are ids; each memo        *)
(* records the ids it was computed from (convention of WorldTides.tla).      *)
(***************************************************************************)
EXTENDS Integers, TLC
CONSTANTS MaxSteps, Bug     \* Bug = TRUE: the broken cascade (an eccentricity-only change made through the orbit never reaches the host) - negative control
VARIABLES per, ecc,       \* the moon's orbital period / eccentricity (value ids)
          hspin, mspin,   \* spin period ids of host and moon
          hostMemo,       \* [p, e, s]: what the host's heating / dU/d* / Love numbers were computed from
          moonMemo,       \* [p, e, s]: the same for the moon
          orbMemo,        \* [p, e, hs, ms]: what da/dt, de/dt, dn/dt were computed from
          last, steps
vars == <<per, ecc, hspin, mspin, hostMemo, moonMemo, orbMemo, last, steps>>
Vals == 0..1
Paths == {"world_set_state", "orbit_set_state", "world_prop", "orbit_setter"}
Step(l) == steps < MaxSteps /\ steps' = steps + 1 /\ last' = l
Cascade == /\ hostMemo' = [p |-> per', e |-> ecc', s |-> hspin']
           /\ moonMemo' = [p |-> per', e |-> ecc', s |-> mspin']
           /\ orbMemo' = [p |-> per', e |-> ecc', hs |-> hspin', ms |-> mspin']
Init == /\ per = 0 /\ ecc = 0 /\ hspin = 0 /\ mspin = 0 /\ last = <<"Init">> /\ steps = 0
        /\ hostMemo = [p |-> 0, e |-> 0, s |-> 0] /\ moonMemo = [p |-> 0, e |-> 0, s |-> 0] /\ orbMemo = [p |-> 0, e |-> 0, hs |-> 0, ms |-> 0]
SetE(v, path) == /\ Step(<<"SetE", v, path>>) /\ ecc' = v /\ UNCHANGED <<per, hspin, mspin>>
                 /\ IF Bug /\ path # "world_set_state"
                    THEN /\ hostMemo' = hostMemo /\ moonMemo' = [p |-> per', e |-> ecc', s |-> mspin']
                         /\ orbMemo' = [p |-> per', e |-> ecc', hs |-> hspin', ms |-> mspin']
                    ELSE Cascade
SetP(v, path) == Step(<<"SetP", v, path>>) /\ per' = v /\ UNCHANGED <<ecc, hspin, mspin>> /\ Cascade
\* batched: only set_state can take both
SetBoth(v, w, path) == path \in {"world_set_state", "orbit_set_state"} /\ Step(<<"SetBoth", v, w, path>>) /\ per' = v /\ ecc' = w
                       /\ UNCHANGED <<hspin, mspin>> /\ Cascade
HostSpin(v) == Step(<<"HostSpin", v>>) /\ hspin' = v /\ UNCHANGED <<per, ecc, mspin>> /\ Cascade
MoonSpin(v) == Step(<<"MoonSpin", v>>) /\ mspin' = v /\ UNCHANGED <<per, ecc, hspin>> /\ Cascade
Next == \/ \E v \in Vals, path \in Paths : SetE(v, path) \/ SetP(v, path)
        \/ \E v \in Vals, w \in Vals, path \in Paths : SetBoth(v, w, path)
        \/ \E v \in Vals : HostSpin(v) \/ MoonSpin(v)
Spec == Init /\ [][Next]_vars
C13_HostFresh == hostMemo = [p |-> per, e |-> ecc, s |-> hspin]
C13_MoonFresh == moonMemo = [p |-> per, e |-> ecc, s |-> mspin]
C13_OrbitFresh == orbMemo = [p |-> per, e |-> ecc, hs |-> hspin, ms |-> mspin]
=============================================================================
