------------------------------- MODULE Hansen -------------------------------
(***************************************************************************)
(* Squared Hansen coefficients G_lpq(e)^2 = [X^{-(l+1), l-2p}_{l-2p+q}(e)]^2 *)
(* as truncated power series in e over GF(P)  (property C08).              *)
(*                                                                         *)
(*   X^{n,m}_k = (1+b^2)^{-(n+1)} Sum_s J_s(k e) [z^{k-m-s}] (1-b z)^{n-m+1} (1-b/z)^{n+m+1} *)
(*   b = (1 - sqrt(1-e^2)) / e,   J_s = Bessel function of the first kind    *)
(*                                                                         *)
(* A series is a tuple of N+1 residues (coefficients of e^0 .. e^N).        *)
(* TLCEval forces every intermediate series to a concrete tuple (TLC's      *)
(* function values are otherwise re-evaluated on every access).             *)
(* Each state is one (l, p, q); TLC checks the closed-form anchors and the   *)
(* aliasing symmetry and exports the residues of G^2.  The harness compares  *)
(* them, for several primes, with the residues of its exact rational         *)
(* evaluation of the same definition, and that with the shipped tables.      *)
(***************************************************************************)
EXTENDS Integers, Sequences, FiniteSets, FiniteSetsExt, TLC

CONSTANTS P,          \* prime < 46341
          N,          \* highest power of e kept
          Degrees, QMax

VARIABLES l, p, q
vars == <<l, p, q>>
Init == l \in Degrees /\ p \in 0..l /\ q \in (-QMax)..QMax
Next == UNCHANGED vars
Spec == Init /\ [][Next]_vars

Idx == 1..(N + 1)
Md(x) == ((x % P) + P) % P
MMul(a, b) == (Md(a) * Md(b)) % P
RECURSIVE MPow(_, _)
MPow(a, k) == IF k = 0 THEN 1 ELSE IF k % 2 = 0 THEN MPow(MMul(a, a), k \div 2) ELSE MMul(a, MPow(MMul(a, a), k \div 2))
MInv(a) == MPow(a, P - 2)
RECURSIVE MFact(_)
MFact(k) == IF k <= 1 THEN 1 ELSE MMul(k, MFact(k - 1))
Half == MInv(2)

SZero == [i \in Idx |-> 0]
SOne == [i \in Idx |-> IF i = 1 THEN 1 ELSE 0]
SAdd(a, b) == TLCEval([i \in Idx |-> (a[i] + b[i]) % P])
SScale(c, a) == TLCEval([i \in Idx |-> MMul(c, a[i])])
SMul(a, b) == TLCEval([i \in Idx |-> FoldSet(LAMBDA j, acc : (acc + a[j] * b[i - j + 1]) % P, 0, 1..i)])
Mono(c, k) == [i \in Idx |-> IF i = k + 1 THEN Md(c) ELSE 0]          \* c e^k  (zero if k > N)
RECURSIVE SPowR(_, _)
SPowR(a, k) == IF k = 0 THEN SOne ELSE SMul(a, SPowR(a, k - 1))

\* generalised binomial C(A, a) for integer A (possibly negative), a >= 0
RECURSIVE Falling(_, _)
Falling(A, a) == IF a = 0 THEN 1 ELSE MMul(Falling(A, a - 1), A - a + 1)
GBinom(A, a) == MMul(Falling(A, a), MInv(MFact(a)))
\* C(1/2, k)
RECURSIVE FallingHalf(_)
FallingHalf(k) == IF k = 0 THEN 1 ELSE MMul(FallingHalf(k - 1), Md(Half - (k - 1)))
BinomHalf(k) == MMul(FallingHalf(k), MInv(MFact(k)))
Sgn(k) == IF k % 2 = 0 THEN 1 ELSE P - 1

\* sqrt(1 - e^2) and beta = (1 - sqrt(1-e^2)) / e      (constant-level: evaluated once)
SqrtSeries == TLCEval([i \in Idx |-> IF (i - 1) % 2 = 0 THEN MMul(BinomHalf((i - 1) \div 2), Sgn((i - 1) \div 2)) ELSE 0])
Beta == TLCEval([i \in Idx |-> IF i = N + 1 THEN 0 ELSE Md((IF i + 1 = 1 THEN 1 ELSE 0) - SqrtSeries[i + 1])])
RECURSIVE BetaPowR(_)
BetaPowR(j) == IF j = 0 THEN SOne ELSE SMul(Beta, BetaPowR(j - 1))
BetaPows == TLCEval([j \in 0..(N + 1) |-> BetaPowR(j)])
OnePlusB2 == SAdd(SOne, BetaPows[2])

\* Bessel J_s(k e) = Sum_j (-1)^j (k/2)^(2j+s) e^(2j+s) / (j! (j+s)!),  J_-s = (-1)^s J_s
BesselPos(s, k) == TLCEval([i \in Idx |->
    LET pw == i - 1 IN
    IF pw < s \/ (pw - s) % 2 # 0 THEN 0
    ELSE LET j == (pw - s) \div 2
         IN MMul(MMul(Sgn(j), MPow(MMul(k, Half), pw)), MInv(MMul(MFact(j), MFact(j + s))))])
Bessel(s, k) == IF s >= 0 THEN BesselPos(s, k) ELSE SScale(Sgn(-s), BesselPos(-s, k))

\* [z^t] (1 - b z)^A (1 - b/z)^B  =  Sum_{b' >= 0, a = b' + t >= 0} C(A,a) C(B,b') (-b)^(a+b')
Coef(A, B, t) ==
  LET terms == {bb \in 0..N : bb + t >= 0 /\ 2 * bb + t <= N}
  IN FoldSet(LAMBDA bb, acc : SAdd(acc, SScale(MMul(MMul(GBinom(A, bb + t), GBinom(B, bb)), Sgn(2 * bb + t)), BetaPows[2 * bb + t])), SZero, terms)

HansenX(n, m, k) ==
  LET A == n - m + 1
      B == n + m + 1
      tot == FoldSet(LAMBDA s, acc : SAdd(acc, SMul(Bessel(s, k), Coef(A, B, k - m - s))), SZero, (-N)..N)
      pref == SPowR(OnePlusB2, -(n + 1))            \* n = -(l+1): exponent l >= 2
  IN SMul(pref, tot)
G(ll, pp, qq) == HansenX(-(ll + 1), ll - 2 * pp, ll - 2 * pp + qq)
G2(ll, pp, qq) == LET x == G(ll, pp, qq) IN SMul(x, x)

\* (1 - e^2)^(-r/2) for odd r: binomial series  Sum_k C(-r/2, k) (-1)^k e^(2k)
RECURSIVE FallingNegHalf(_, _)
FallingNegHalf(r, k) == IF k = 0 THEN 1 ELSE MMul(FallingNegHalf(r, k - 1), Md(MMul(P - r, Half) - (k - 1)))
OneMinusE2Pow(r) == TLCEval([i \in Idx |-> IF (i - 1) % 2 = 0
                                          THEN LET k == (i - 1) \div 2 IN MMul(MMul(FallingNegHalf(r, k), MInv(MFact(k))), Sgn(k)) ELSE 0])

\* ---- clauses decided by TLC on every (l, p, q) (one invariant so that each series is computed once) ----
AbsQ == IF q < 0 THEN -q ELSE q
C08_All ==
  LET g == G(l, p, q)
      g2 == SMul(g, g)
      ga == G(l, l - p, -q)
  IN \* closed-form anchor: X^{-3,0}_0 = (1 - e^2)^(-3/2)
     /\ ((l = 2 /\ p = 1 /\ q = 0) => g = OneMinusE2Pow(3))
     \* aliasing symmetry G_{l,p,q} = G_{l,l-p,-q}
     /\ g = ga
     \* leading order: X^{n,m}_k starts at e^|m-k| = e^|q|, so G^2 starts at e^(2|q|) (or vanishes identically)
     /\ \A i \in Idx : i - 1 < AbsQ => g[i] = 0
     /\ PrintT(<<"ROW", l, p, q, g2>>)
=============================================================================
