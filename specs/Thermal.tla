------------------------------- MODULE Thermal -------------------------------
(***************************************************************************)
(* Thermal building blocks (property C19) on exact lattices.                *)
(*  kind "radio"  : radiogenic heating of a mix of isotopes at times that   *)
(*                  are whole numbers of half-lives away from the reference *)
(*                  time: every contribution is m f c q 2^-j, a rational.   *)
(*  kind "cool"   : parameterised convection / conduction with beta = 1/3   *)
(*                  and Ra/Ra_c a perfect cube, so Nu is rational; the       *)
(*                  guards (thin layer, Nu floor 2) are explicit regions.    *)
(*  kind "melt"   : region of the Henning / Spohn partial-melt laws a melt   *)
(*                  fraction falls in, and the exact value demanded there.   *)
(* TLC checks the clauses of C19 that are exact on these lattices and        *)
(* exports every case for the conformance check.                            *)
(***************************************************************************)
EXTENDS Rat, Sequences, FiniteSets, FiniteSetsExt, TLC

VARIABLE case
vars == <<case>>

(* ---------------- radiogenics ---------------- *)
\* isotope = [f (mass fraction num/den), c (concentration), hl (half-life, integer Myr), q (specific power)]
Iso1 == [f |-> <<1, 2>>, c |-> <<3, 1>>, hl |-> 2, q |-> <<5, 1>>]
Iso2 == [f |-> <<1, 4>>, c |-> <<1, 1>>, hl |-> 3, q |-> <<7, 2>>]
Iso3 == [f |-> <<1, 1>>, c |-> <<1, 8>>, hl |-> 6, q |-> <<2, 1>>]
\* the same nuclides (half-life, heat production) in other abundances, incl. none at all: heating is linear in each concentration
\* and mass fraction, whatever was evaluated before with the same nuclear constants
Iso1b == [f |-> <<1, 3>>, c |-> <<1, 1>>, hl |-> 2, q |-> <<5, 1>>]
Iso1z == [f |-> <<1, 2>>, c |-> <<0, 1>>, hl |-> 2, q |-> <<5, 1>>]
Iso2b == [f |-> <<1, 4>>, c |-> <<4, 1>>, hl |-> 3, q |-> <<7, 2>>]
IsoSets == {<<Iso1>>, <<Iso2>>, <<Iso3>>, <<Iso1, Iso2>>, <<Iso1, Iso2, Iso3>>, <<Iso3, Iso1>>, <<Iso1b>>, <<Iso1z, Iso2>>, <<Iso1b, Iso2b>>}
RECURSIVE Pow2R(_)
Pow2R(j) == IF j = 0 THEN ROne ELSE IF j > 0 THEN RMul(<<1, 2>>, Pow2R(j - 1)) ELSE RMul(<<2, 1>>, Pow2R(j + 1))   \* 2^-j
\* dt = t - t_ref must be a multiple of every half-life in the set (multiples of 6 are)
Contribution(iso, dt) == RMul(RMul(iso.f, RMul(iso.c, iso.q)), Pow2R(dt \div iso.hl))
RECURSIVE SumIso(_, _)
SumIso(isos, dt) == IF isos = <<>> THEN RZero ELSE RAdd(Contribution(Head(isos), dt), SumIso(Tail(isos), dt))
Radio(isos, dt, m) == RMul(R(m), SumIso(isos, dt))

(* ---------------- cooling ---------------- *)
\* Ra / Ra_c = cube^3 ; alpha rational ; Nu = max(2, alpha * cube) for a thick layer with dT > 0
MinThickness == 50
NuOf(alpha, cube) == LET nu == RMul(alpha, R(cube)) IN IF RLe(nu, R(2)) THEN R(2) ELSE nu
\* flux in units of k * dT / thickness
ConvFluxFactor(alpha, cube, thick, dTpos) ==
  IF ~dTpos THEN RZero
  ELSE IF thick <= MinThickness THEN ROne                 \* thin layer: boundary layer = the layer itself
  ELSE NuOf(alpha, cube)

(* ---------------- partial melt regions ---------------- *)
\* melt fraction and critical fraction / width in units of 1/100
HenningRegion(phi, crit, width) ==
  IF phi <= 0 THEN "premelt" ELSE IF phi < crit THEN "below_critical"
  ELSE IF phi <= crit + width THEN "breakdown_window" ELSE "liquid"

Init ==
  \/ \E isos \in IsoSets, j \in {-12, -6, 0, 6, 12, 18}, m \in {1, 3} :
        case = [kind |-> "radio", isos |-> isos, dt |-> j, m |-> m, out |-> Radio(isos, j, m)]
  \/ \E alpha \in {<<1, 1>>, <<1, 2>>, <<3, 2>>}, cube \in {0, 1, 2, 3, 5, 8}, thick \in {10, 50, 51, 400}, dTpos \in BOOLEAN :
        case = [kind |-> "cool", alpha |-> alpha, cube |-> cube, thick |-> thick, dTpos |-> dTpos,
                factor |-> ConvFluxFactor(alpha, cube, thick, dTpos)]
  \/ \E phi \in {0, 1, 25, 49, 50, 52, 55, 56, 80, 100}, crit \in {50, 30}, width \in {5, 10} :
        case = [kind |-> "melt", phi |-> phi, crit |-> crit, width |-> width, region |-> HenningRegion(phi, crit, width)]
Next == UNCHANGED vars
Spec == Init /\ [][Next]_vars

(* ---------------- clauses ---------------- *)
IsRadio == case.kind = "radio"
\* one more half-life of the longest-lived isotope never increases the heating; a single isotope exactly halves per half-life
C19_RadioHalves == IsRadio /\ Len(case.isos) = 1 =>
    Radio(case.isos, case.dt + case.isos[1].hl, case.m) = RMul(<<1, 2>>, case.out)
C19_RadioAdditive == IsRadio =>
    case.out = FoldSet(LAMBDA i, acc : RAdd(Radio(<<case.isos[i]>>, case.dt, case.m), acc), RZero, DOMAIN case.isos)
C19_RadioLinearInMass == IsRadio => Radio(case.isos, case.dt, 2 * case.m) = RMul(R(2), case.out)
C19_RadioReference == IsRadio /\ case.dt = 0 =>
    case.out = RMul(R(case.m), FoldSet(LAMBDA i, acc : RAdd(RMul(case.isos[i].f, RMul(case.isos[i].c, case.isos[i].q)), acc), RZero, DOMAIN case.isos))
C19_RadioDecays == IsRadio => RLe(Radio(case.isos, case.dt + 6, case.m), case.out)

IsCool == case.kind = "cool"
\* convection never carries less than conduction (factor 1), is positive for dT > 0, and is monotone in Ra (i.e. in dT and in 1/viscosity)
C19_ConvectionAtLeastConduction == IsCool /\ case.dTpos => RLe(ROne, case.factor)
C19_ConvectionMonotoneInRa == IsCool /\ case.dTpos =>
    \A c2 \in {0, 1, 2, 3, 5, 8} : c2 >= case.cube => RLe(case.factor, ConvFluxFactor(case.alpha, c2, case.thick, TRUE))
C19_NoFluxWithoutContrast == IsCool /\ ~case.dTpos => RIsZero(case.factor)

IsMelt == case.kind = "melt"
C19_MeltRegionsOrdered == IsMelt => /\ (case.phi = 0 => case.region = "premelt")
                                    /\ (case.phi > case.crit + case.width => case.region = "liquid")

Export == PrintT(<<"ROW", case>>)
=============================================================================
