SPECIFICATION Spec
CONSTANTS
  Y1s <- MCY1s
  Y2s <- MCY2s
  Y3s <- MCY3s
  Y4s <- MCY4s
  Mus <- MCMus
  Ks <- MCKs
  Rs = {1, 2}
  Ls = {2, 3}
  Thetas <- MCThetas
  Us <- MCUs
  Uths <- MCUths
  Uphs <- MCUphs
  Uthphs <- MCUthphs
  Uphphs <- MCUphphs
INVARIANT C15_All
CHECK_DEADLOCK FALSE
