-------------------------------- MODULE CRat --------------------------------
(* Gaussian rationals: <<re, im>> with re, im normalised rationals of module Rat. *)
EXTENDS Rat

C(re, im) == <<re, im>>
CReal(r) == <<r, RZero>>
CZero == <<RZero, RZero>>
COne == <<ROne, RZero>>
CRe(z) == z[1]
CIm(z) == z[2]
CAdd(a, b) == <<RAdd(a[1], b[1]), RAdd(a[2], b[2])>>
CSub(a, b) == <<RSub(a[1], b[1]), RSub(a[2], b[2])>>
CNeg(a) == <<RNeg(a[1]), RNeg(a[2])>>
CMul(a, b) == <<RSub(RMul(a[1], b[1]), RMul(a[2], b[2])), RAdd(RMul(a[1], b[2]), RMul(a[2], b[1]))>>
CConj(a) == <<a[1], RNeg(a[2])>>
CNorm2(a) == RAdd(RMul(a[1], a[1]), RMul(a[2], a[2]))
CScale(r, a) == <<RMul(r, a[1]), RMul(r, a[2])>>
CInv(a) == CScale(RInv(CNorm2(a)), CConj(a))
CDiv(a, b) == CMul(a, CInv(b))
CIsZero(a) == RIsZero(a[1]) /\ RIsZero(a[2])
=============================================================================
