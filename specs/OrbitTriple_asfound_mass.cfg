SPECIFICATION Spec
CONSTANT StarHost = FALSE
INVARIANT C17_Kepler
INVARIANT KeplerCurrentAlways
CHECK_DEADLOCK FALSE
