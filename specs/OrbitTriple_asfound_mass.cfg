SPECIFICATION Spec
INVARIANT C17_Kepler
INVARIANT KeplerCurrentAlways
CHECK_DEADLOCK FALSE
