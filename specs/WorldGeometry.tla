---------------------------- MODULE WorldGeometry ----------------------------
(***************************************************************************)
(* Layer-stack geometry and mass bookkeeping of a layered world in exact    *)
(* integers (property C16).  A configuration gives each layer its geometry  *)
(* in one of the forms the configuration parser accepts (outer radius |     *)
(* thickness | nothing for the top layer) and its mass as density | mass |   *)
(* mass fraction; the spec derives inner radii, volumes (in units of 4pi/3) *)
(* and masses (same units) and states the bookkeeping clauses.  TLC          *)
(* enumerates the lattice; every state is exported and built with the real  *)
(* build_world, then radius-scaled with the real scale_from_world.          *)
(***************************************************************************)
EXTENDS Integers, Sequences, FiniteSets, TLC

CONSTANTS MaxLayers, MaxR, Densities, ScaleNums    \* scale factors are ScaleNums / 2

VARIABLES nl, R, gform, mform, rho, worldMassGiven, k2   \* k2 = twice the scale factor applied (2 = unscaled)
vars == <<nl, R, gform, mform, rho, worldMassGiven, k2>>

Layers == 1..nl
Rin(i) == IF i = 1 THEN 0 ELSE R[i - 1]
Thick(i) == R[i] - Rin(i)
Cube(x) == x * x * x
Vol3(i) == Cube(R[i]) - Cube(Rin(i))                  \* 3V/(4 pi)
Mass3(i) == rho[i] * Vol3(i)                          \* 3M/(4 pi)
RECURSIVE SumTo(_, _)
SumTo(f(_), n) == IF n = 0 THEN 0 ELSE f(n) + SumTo(f, n - 1)
TotalVol3 == SumTo(Vol3, nl)
TotalMass3 == SumTo(Mass3, nl)
RECURSIVE MassBelow3(_)
MassBelow3(i) == IF i = 1 THEN 0 ELSE Mass3(i - 1) + MassBelow3(i - 1)

StrictlyIncreasing(s) == \A i \in 1..(Len(s) - 1) : s[i] < s[i + 1]

Init ==
  /\ nl \in 1..MaxLayers
  /\ R \in [1..nl -> 1..MaxR] /\ StrictlyIncreasing(R)
  /\ gform \in [1..nl -> {"radius", "thickness", "top_default"}]
  /\ \A i \in 1..nl : gform[i] = "top_default" => (i = nl /\ nl > 1)   \* only the top layer may omit its geometry
  /\ mform \in [1..nl -> {"density", "mass", "mass_frac"}]
  /\ rho \in [1..nl -> Densities]
  /\ worldMassGiven \in BOOLEAN
  /\ (\E i \in 1..nl : mform[i] = "mass_frac") => worldMassGiven          \* a mass fraction needs the world mass
  /\ k2 = 2

\* scale_from_world(world, radius_scale = s/2)
Scale(s) == /\ k2 = 2 /\ s # 2 /\ k2' = s
            /\ UNCHANGED <<nl, R, gform, mform, rho, worldMassGiven>>
Next == \E s \in ScaleNums : Scale(s)
Spec == Init /\ [][Next]_vars

\* ---- bookkeeping clauses on the derived geometry (lengths in units of k2/2) ----
C16_Contiguous == /\ \A i \in Layers : Rin(i) = (IF i = 1 THEN 0 ELSE R[i - 1])
                  /\ \A i \in Layers : Thick(i) > 0
C16_VolumesSum == TotalVol3 = Cube(R[nl])
C16_MassSum == TotalMass3 = MassBelow3(nl) + Mass3(nl)
C16_EnclosedMassMonotone == \A i \in 2..nl : MassBelow3(i) >= MassBelow3(i - 1)
\* scaling by k multiplies every length by k and every volume by k^3: volume fractions Vol3(i)/TotalVol3 are unchanged
C16_ScaleKeepsFractions == \A i \in Layers : (Cube(k2) * Vol3(i)) * TotalVol3 = Vol3(i) * (Cube(k2) * TotalVol3)
=============================================================================
