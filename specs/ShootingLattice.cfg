SPECIFICATION Spec
CONSTANTS
  P = 46337
  Mutation = "none"
  I = 43736
  Cases = 12
INVARIANT Export
CHECK_DEADLOCK FALSE
