----------------------------- MODULE ShootingRules -----------------------------
(***************************************************************************)
(* The pure (state-free) rules of the shooting protocol over GF(P):          *)
(* interface rules (interfaces.pyx), surface linear solve (boundaries.pyx),  *)
(* constants top-to-bottom (reversed.pyx), collapse (collapse.pyx).          *)
(* Used by Shooting.tla (the protocol as a behaviour) and by                  *)
(* ShootingLattice.tla (exact cases for the one routine that is exposed to    *)
(* Python, solve_upper_y_at_interface).                                      *)
(***************************************************************************)
EXTENDS Integers, Sequences, FiniteSets, TLC

CONSTANTS P,          \* prime, P*P < 2^31
          Mutation    \* "none", or the name of a deliberately wrong rule (negative controls)

Kinds == {"S", "LD", "LS"}
NSol(k) == CASE k = "S" -> 3 [] k = "LD" -> 2 [] k = "LS" -> 1
NY(k) == 2 * NSol(k)
Undef == -1          \* NaN marker in collapsed solutions
Computed == -2       \* y3 of a dynamic liquid: derived from the others at collapse (value not modelled)

\* ------------------------------ GF(P) ------------------------------
Add(a, b) == (a + b) % P
Sub(a, b) == (a - b) % P
Neg(a) == (P - a) % P
Mul(a, b) == (a * b) % P
RECURSIVE PowM(_, _)
PowM(a, n) == IF n = 0 THEN 1 ELSE LET h == PowM(a, n \div 2) IN IF n % 2 = 0 THEN Mul(h, h) ELSE Mul(Mul(h, h), a)
Inv(a) == PowM(a, P - 2)
Div(a, b) == Mul(a, Inv(b))
\* generic non-zero elements
\* (the exponent is quadratic in the arguments: a hash that is linear in (b, c) would make every "generic" matrix rank one)
Hash(s, a, b, c) == (s * 7919 + a * 104729 + b * 1299709 + c * 3571 + 12345) % P
Gen(s, a, b, c) == PowM(5, 1 + ((Hash(s, a, b, c) * Hash(s, a, b, c) + 3 * Hash(s, a, b, c)) % (P - 2)))

RECURSIVE SumTo(_, _)
SumTo(f, n) == IF n = 0 THEN 0 ELSE Add(SumTo(f, n - 1), f[n])
\* L: solutions at the top of the lower layer; result: starting solutions of the upper layer; <<matrix, division by zero?>>
UpRule(a, b, L, g, rho, g4) ==
  IF (a = "S" /\ b = "S") \/ (a = "LD" /\ b = "LD") \/ (a = "LS" /\ b = "LS") THEN <<L, FALSE>>
  ELSE IF a = "LS" /\ b = "LD" THEN
     <<  << <<0, Neg(Mul(rho, L[1][1])), L[1][1], Add(L[1][2], Mul(Div(Mul(g4, rho), g), L[1][1]))>>,
            <<1, Mul(rho, g), 0, Neg(Mul(g4, rho))>> >>, FALSE >>
  ELSE IF a = "LD" /\ b = "LS" THEN
     LET lam(j) == Sub(L[j][2], Mul(rho, Sub(Mul(g, L[j][1]), L[j][3])))
         c2 == IF Mutation = "wrong_sign_c2" THEN Div(lam(1), lam(2)) ELSE Neg(Div(lam(1), lam(2)))
         k3 == Add(L[1][4], Div(Mul(g4, L[1][2]), g))
         k4 == Add(L[2][4], Div(Mul(g4, L[2][2]), g))
     IN << << <<Add(L[1][3], Mul(c2, L[2][3])), Add(k3, Mul(c2, k4))>> >>, lam(2) = 0 >>
  ELSE IF a = "LD" /\ b = "S" THEN
     << << <<L[1][1], L[1][2], 0, 0, L[1][3], L[1][4]>>, <<L[2][1], L[2][2], 0, 0, L[2][3], L[2][4]>>, <<0, 0, 1, 0, 0, 0>> >>, FALSE >>
  ELSE IF a = "LS" /\ b = "S" THEN
     << << <<0, Neg(Mul(rho, L[1][1])), 0, 0, L[1][1], Add(L[1][2], Mul(Div(Mul(g4, rho), g), L[1][1]))>>,
           <<1, Mul(rho, g), 0, 0, 0, Neg(Mul(g4, rho))>>,
           <<0, 0, 1, 0, 0, 0>> >>, FALSE >>
  ELSE IF a = "S" /\ b = "LD" THEN
     LET c(j) == IF Mutation = "no_y4_elimination" THEN 0 ELSE Div(L[j][4], L[3][4])
         row(j) == <<Sub(L[j][1], Mul(c(j), L[3][1])), Sub(L[j][2], Mul(c(j), L[3][2])),
                     Sub(L[j][5], Mul(c(j), L[3][5])), Sub(L[j][6], Mul(c(j), L[3][6]))>>
     IN << <<row(1), row(2)>>, L[3][4] = 0 >>
  ELSE \* a = "S" /\ b = "LS"
     LET f(j) == Neg(Div(L[j][4], L[3][4]))
         lam(j) == Sub(Add(L[j][2], Mul(f(j), L[3][2])),
                       Mul(rho, Sub(Mul(g, Add(L[j][1], Mul(f(j), L[3][1]))), Add(L[j][5], Mul(f(j), L[3][5])))))
         c1 == 1
         c2 == Neg(Div(lam(1), lam(2)))
         c3 == Add(Mul(f(1), c1), Mul(f(2), c2))
         k(j) == Add(L[j][6], Mul(Div(g4, g), L[j][2]))
     IN << << <<Add(Add(Mul(c1, L[1][5]), Mul(c2, L[2][5])), Mul(c3, L[3][5])),
                Add(Add(Mul(c1, k(1)), Mul(c2, k(2))), Mul(c3, k(3)))>> >>, L[3][4] = 0 \/ lam(2) = 0 >>

Det2(a, b, c, d) == Sub(Mul(a, d), Mul(b, c))
Det3(m) == Add(Sub(Mul(m[1][1], Det2(m[2][2], m[2][3], m[3][2], m[3][3])),
                   Mul(m[1][2], Det2(m[2][1], m[2][3], m[3][1], m[3][3]))),
               Mul(m[1][3], Det2(m[2][1], m[2][2], m[3][1], m[3][2])))
ReplaceCol(m, j, v) == [r \in 1..3 |-> [c \in 1..3 |-> IF c = j THEN v[r] ELSE m[r][c]]]
\* solve A x = v (Cramer); <<x, singular?>>
Solve3(A, v) == LET d == Det3(A) IN << [j \in 1..3 |-> Div(Det3(ReplaceCol(A, j, v)), d)], d = 0 >>
Solve2(A, v) == LET d == Det2(A[1][1], A[1][2], A[2][1], A[2][2]) IN
                << <<Div(Det2(v[1], A[1][2], v[2], A[2][2]), d), Div(Det2(A[1][1], v[1], A[2][1], v[2]), d)>>, d = 0 >>
SurfaceRule(k, T, bc, g, g4) ==
  IF k = "S" THEN    \* rows y2, y4, y6; unknowns the three constants
     Solve3([r \in 1..3 |-> [s \in 1..3 |-> T[s][2 * r]]], bc)
  ELSE IF k = "LD" THEN   \* rows y2, y6 (slots 2, 4)
     Solve2([r \in 1..2 |-> [s \in 1..2 |-> T[s][2 * r]]], <<bc[1], bc[3]>>)
  ELSE   \* y7 = y6 + (4 pi G / g) y2
     << <<Div(Add(bc[3], Mul(bc[1], Div(g4, g))), T[1][2])>>, T[1][2] = 0 >>
DownRule(k, ka, Ca, T, g, rho) ==
  IF k = "S" THEN
     IF ka = "S" THEN <<Ca, FALSE>>
     ELSE LET f(j) == Neg(Div(T[j][4], T[3][4])) IN
          IF ka = "LS" THEN
             LET gam(j) == Sub(Add(T[j][2], Mul(f(j), T[3][2])),
                               Mul(rho, Sub(Mul(g, Add(T[j][1], Mul(f(j), T[3][1]))), Add(T[j][5], Mul(f(j), T[3][5])))))
                 c1 == Ca[1]
                 c2 == Mul(Neg(Div(gam(1), gam(2))), c1)
             IN << <<c1, c2, Add(Mul(f(1), c1), Mul(f(2), c2))>>, T[3][4] = 0 \/ gam(2) = 0 >>
          ELSE << <<Ca[1], Ca[2], IF Mutation = "forget_c3" THEN 0 ELSE Add(Mul(f(1), Ca[1]), Mul(f(2), Ca[2]))>>, T[3][4] = 0 >>
  ELSE IF k = "LS" THEN << <<Ca[1]>>, FALSE >>
  ELSE \* LD
     IF ka = "LS" THEN
        LET lam(j) == Sub(T[j][2], Mul(rho, Sub(Mul(g, T[j][1]), T[j][3]))) IN
        << <<Ca[1], Mul(Neg(Div(lam(1), lam(2))), Ca[1])>>, lam(2) = 0 >>
     ELSE << <<Ca[1], Ca[2]>>, FALSE >>
\* slot of y_n (n = 1..7) in a layer of kind k, 0 if that y is not carried
Slot(k, n) == IF k = "S" THEN (IF n <= 6 THEN n ELSE 0)
              ELSE IF k = "LD" THEN (CASE n = 1 -> 1 [] n = 2 -> 2 [] n = 5 -> 3 [] n = 6 -> 4 [] OTHER -> 0)
              ELSE (CASE n = 5 -> 1 [] n = 7 -> 2 [] OTHER -> 0)
Collapsed(k, C, M) == [n \in 1..7 |->
   IF Slot(k, n) = 0 THEN (IF k = "LD" /\ n = 3 THEN Computed ELSE Undef)
   ELSE SumTo([s \in 1..NSol(k) |-> Mul(C[s], M[s][Slot(k, n)])], NSol(k))]
=============================================================================
