SPECIFICATION Spec
CONSTANTS
  Ws <- MCWs
  Mus <- MCMus
  Etas <- MCEtas
  SMs <- MCSMs
  SVs <- MCSVs
INVARIANT C07_Reciprocal
INVARIANT C07_Passive
INVARIANT C07_BoundedByUnrelaxed
INVARIANT C07_RegionsOrdered
INVARIANT Export
CHECK_DEADLOCK FALSE
