SPECIFICATION Spec
CONSTANTS
  Degrees = {2, 3, 4, 5, 6, 7}
  Mus <- MCMus
  RhoGRs <- MCRhoGRs
  JRes <- MCJRes
  JIms <- MCJIms
INVARIANT C12_Degree2Coincide
INVARIANT C12_PassiveSign
INVARIANT C12_ElasticIsStatic
INVARIANT C12_BelowFluidLimit
INVARIANT C12_MonotoneInRigidity
INVARIANT Export
CHECK_DEADLOCK FALSE
