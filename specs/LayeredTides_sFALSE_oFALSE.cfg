SPECIFICATION Spec
CONSTANTS
  SpinSync = FALSE
  ObliqOn = FALSE
  NVals = 2
INVARIANT C13_Fresh_Layered
INVARIANT SyncHolds
CHECK_DEADLOCK FALSE
