SPECIFICATION Spec
CONSTANTS
  Cases = {0, 1, 2}
  MaxWorkers = 2
  MaxCrash = 1
  MaxInc = 3
  FailSets <- MCFewFailSets
  MustKinds <- MCAllKinds
  ResultFirst = TRUE
  OwnCaseNumber = TRUE
  ParserStripsParens = TRUE
  Transient = TRUE
  CrashInHeader = FALSE
INVARIANT TypeOK
INVARIANT C18_RestartCompletes
INVARIANT C18_ExactlyOneResult
INVARIANT C18_OwnIdentity
INVARIANT MarkerImpliesResult
PROPERTY C18_NoRedo
CHECK_DEADLOCK FALSE
