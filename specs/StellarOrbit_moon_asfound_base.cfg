SPECIFICATION Spec
CONSTANTS
  StarHost = FALSE
  NVals = 3
  Bug = "base_ecc_on_moon"
INVARIANT TypeOK
INVARIANT C13_InsolationFresh
INVARIANT StarHostAlias
PROPERTY SettersStore
PROPERTY OwnOrbitUntouched
PROPERTY StellarOrbitUntouched
CHECK_DEADLOCK FALSE
