---------------------------- MODULE MC_MPStudy ----------------------------
EXTENDS MPStudy
MCAllFailSets == SUBSET Cases
MCNoFail == {{}}
MCFewFailSets == {{}, {0}, {0, 1}}
MCOneFail == {{}, {1}}
MCAllKinds == {"list", "tuple", "empty_tuple"}
MCListOnly == {"list"}
=============================================================================
