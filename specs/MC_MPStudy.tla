---------------------------- MODULE MC_MPStudy ----------------------------
EXTENDS MPStudy
MCAllFailSets == SUBSET Cases
MCNoFail == {{}}
MCOneFail == {{}, {1}}
MCAllKinds == {"list", "tuple", "empty_tuple"}
MCListOnly == {"list"}
=============================================================================
