---------------------------- MODULE OrbitTriple ----------------------------
(***************************************************************************)
(* The orbit object's stored (semi-major axis, mean motion, period) triples  *)
(* (property C17, history clause) for a moon around a non-stellar tidal host *)
(* ("moon" orbit: masses host + moon) and for the host around the star       *)
(* ("stellar" orbit: masses star + host).  Every update, through any API     *)
(* path and given as any one of the three quantities, must leave all three   *)
(* members of that orbit's triple derived from the SAME update (Kepler III   *)
(* for the current masses) and must not touch the other orbit.               *)
(***************************************************************************)
EXTENDS Integers, TLC

VARIABLES moon, stellar          \* each: [a |-> id, n |-> id, P |-> id], id = the update (value id) it was derived from
vars == <<moon, stellar>>
Vals == 0..2
T(v) == [a |-> v, n |-> v, P |-> v]

Init == moon = T(0) /\ stellar = T(0)

\* orbit.set_state(moon, <kind>=v) | orbit.set_<kind>(moon, v) | moon.<kind> = v | moon.set_state(<kind>=v)
MoonSet(kind, v, path) == moon' = T(v) /\ UNCHANGED stellar
\* orbit.set_state(host, <kind>=v, set_stellar_orbit=True) | orbit.set_<kind>(host, v, set_stellar_orbit=True)
StellarSet(kind, v, path) == stellar' = T(v) /\ UNCHANGED moon
\* orbit.set_stellar_distance(host | moon, v): "a world shares its stellar distance with its tidal host"
StellarDistance(v, via) == stellar' = T(v) /\ UNCHANGED moon

Next == \/ \E kind \in {"a", "n", "P"}, v \in Vals, path \in {"orbit_set_state", "orbit_setter", "world_prop", "world_set_state"} : MoonSet(kind, v, path)
        \/ \E kind \in {"a", "n", "P"}, v \in Vals, path \in {"orbit_set_state", "orbit_setter"} : StellarSet(kind, v, path)
        \/ \E v \in Vals, via \in {"host", "moon"} : StellarDistance(v, via)
Spec == Init /\ [][Next]_vars

C17_Kepler == /\ moon.a = moon.n /\ moon.n = moon.P
              /\ stellar.a = stellar.n /\ stellar.n = stellar.P
=============================================================================
