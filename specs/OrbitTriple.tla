---------------------------- MODULE OrbitTriple ----------------------------
(***************************************************************************)
(* The orbit object's stored (semi-major axis, mean motion, period) triples  *)
(* (property C17, history clause) for a moon around a non-stellar tidal host *)
(* ("moon" orbit: masses host + moon) and for the host around the star       *)
(* ("stellar" orbit: masses star + host).  Every update, through any API     *)
(* path and given as any one of the three quantities, must leave all three   *)
(* members of that orbit's triple derived from the SAME update (Kepler III   *)
(* for the current masses) and must not touch the other orbit.               *)
(* Masses can change under the orbit (world.set_geometry(radius, mass)):     *)
(* MoonMass / HostMass.  Each triple carries the mass ids it was derived     *)
(* with (field m); every update must derive the triple with the CURRENT      *)
(* masses (UpdateUsesCurrentMasses).  As found, a mass change itself does    *)
(* not re-derive anything: until the next update the triple is Keplerian for *)
(* the OLD masses - KeplerCurrentAlways is the expected violation of         *)
(* OrbitTriple_asfound_mass.cfg (known finding C17-mass-change-stale-triple).*)
(***************************************************************************)
EXTENDS Integers, TLC

\* StarHost = TRUE: the star itself is the tidal host (star / planet): the planet's own orbit ("moon" here) IS its stellar orbit, so
\* set_stellar_distance updates that triple; there is no separate stellar orbit and no non-stellar host whose mass could change
CONSTANT StarHost

VARIABLES moon, stellar,         \* each: [a |-> id, n |-> id, P |-> id, m |-> mass ids], id = the update (value id) it was derived from
          mm, hm                 \* current mass ids of the moon and of the (non-stellar) tidal host
vars == <<moon, stellar, mm, hm>>
Vals == 0..2
MassIds == 0..1
T(v, m) == [a |-> v, n |-> v, P |-> v, m |-> m]

Init == mm = 0 /\ hm = 0 /\ moon = T(0, <<0, 0>>) /\ stellar = T(0, <<0>>)

\* orbit.set_state(moon, <kind>=v) | orbit.set_<kind>(moon, v) | moon.<kind> = v | moon.set_state(<kind>=v)
MoonSet(kind, v, path) == moon' = T(v, <<mm, hm>>) /\ UNCHANGED <<stellar, mm, hm>>
\* orbit.set_state(host, <kind>=v, set_stellar_orbit=True) | orbit.set_<kind>(host, v, set_stellar_orbit=True)
StellarSet(kind, v, path) == ~StarHost /\ stellar' = T(v, <<hm>>) /\ UNCHANGED <<moon, mm, hm>>
\* orbit.set_stellar_distance(host | moon, v): "a world shares its stellar distance with its tidal host"
StellarDistance(v, via) == IF StarHost THEN moon' = T(v, <<mm, hm>>) /\ UNCHANGED <<stellar, mm, hm>>
                                       ELSE stellar' = T(v, <<hm>>) /\ UNCHANGED <<moon, mm, hm>>
\* moon.set_geometry(radius, mass id v) / host.set_geometry(radius, mass id v): as found, nothing in the orbit is re-derived
MoonMass(v) == v # mm /\ mm' = v /\ UNCHANGED <<moon, stellar, hm>>
HostMass(v) == ~StarHost /\ v # hm /\ hm' = v /\ UNCHANGED <<moon, stellar, mm>>

Next == \/ \E kind \in {"a", "n", "P"}, v \in Vals, path \in {"orbit_set_state", "orbit_setter", "world_prop", "world_set_state"} : MoonSet(kind, v, path)
        \/ \E kind \in {"a", "n", "P"}, v \in Vals, path \in {"orbit_set_state", "orbit_setter"} : StellarSet(kind, v, path)
        \/ \E v \in Vals, via \in {"host", "moon"} : StellarDistance(v, via)
        \/ \E v \in MassIds : MoonMass(v) \/ HostMass(v)
Spec == Init /\ [][Next]_vars

C17_Kepler == /\ moon.a = moon.n /\ moon.n = moon.P
              /\ stellar.a = stellar.n /\ stellar.n = stellar.P
MoonCurrent == moon.m = <<mm, hm>>
StellarCurrent == stellar.m = <<hm>>
\* every update of a triple derives it with the masses the worlds have at that moment
UpdateUsesCurrentMasses == [][/\ (mm' = mm /\ hm' = hm /\ moon' # moon => moon'.m = <<mm', hm'>>)
                              /\ (mm' = mm /\ hm' = hm /\ stellar' # stellar => stellar'.m = <<hm'>>)]_vars
\* a mass change touches no stored orbit
MassChangeStoresNothing == [][(mm' # mm \/ hm' # hm) => moon' = moon /\ stellar' = stellar]_vars
\* the property as stated ("always ... for the current masses"): expected violation (OrbitTriple_asfound_mass.cfg)
KeplerCurrentAlways == MoonCurrent /\ StellarCurrent
=============================================================================
