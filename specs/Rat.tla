-------------------------------- MODULE Rat --------------------------------
(* Exact rationals as normalised pairs <<num, den>> with den > 0 (TLC integers are 32 bit: keep lattices small). *)
EXTENDS Integers

RECURSIVE GCD(_, _)
GCD(a, b) == IF b = 0 THEN a ELSE GCD(b, a % b)
Abs(x) == IF x < 0 THEN -x ELSE x

Norm(n, d) == LET s == IF d < 0 THEN -1 ELSE 1
                  g == GCD(Abs(n), Abs(d))
              IN IF n = 0 THEN <<0, 1>> ELSE <<(s * n) \div g, (s * d) \div g>>

R(n) == <<n, 1>>
RZero == <<0, 1>>
ROne == <<1, 1>>
\* reduce before multiplying: TLC integers are 32 bit
RAdd(a, b) == LET g == GCD(a[2], b[2]) IN Norm(a[1] * (b[2] \div g) + b[1] * (a[2] \div g), (a[2] \div g) * b[2])
RNeg(a) == <<-a[1], a[2]>>
RSub(a, b) == RAdd(a, RNeg(b))
RMul(a, b) == LET g1 == GCD(Abs(a[1]), b[2])  g2 == GCD(Abs(b[1]), a[2])
              IN IF a[1] = 0 \/ b[1] = 0 THEN <<0, 1>>
                 ELSE Norm((a[1] \div g1) * (b[1] \div g2), (a[2] \div g2) * (b[2] \div g1))
RInv(a) == Norm(a[2], a[1])
RDiv(a, b) == RMul(a, RInv(b))

RIsZero(a) == a[1] = 0
RSign(a) == IF a[1] > 0 THEN 1 ELSE IF a[1] < 0 THEN -1 ELSE 0
RLt(a, b) == RSign(RSub(a, b)) < 0
RLe(a, b) == RSign(RSub(a, b)) <= 0
RECURSIVE RPow(_, _)
RPow(a, k) == IF k = 0 THEN ROne ELSE IF k < 0 THEN RPow(RInv(a), -k) ELSE RMul(a, RPow(a, k - 1))
=============================================================================
