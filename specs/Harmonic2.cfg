SPECIFICATION Spec
INVARIANT C14_Laplace
INVARIANT C14_MixedSymmetric
INVARIANT C14_Order
INVARIANT Export
CHECK_DEADLOCK FALSE
