----------------------------- MODULE ConfigHolder -----------------------------
(***************************************************************************)
(* TidalPy.utilities.classes.config.ConfigHolder - the base class of every   *)
(* world, layer and physics model - and the write-back that                   *)
(* LayerConfigHolder / WorldConfigHolder perform into their owner's           *)
(* configuration.  One action per public entry point, written the way the     *)
(* code is written (update_config is the single critical section):            *)
(*                                                                         *)
(*   New(r)            ConfigHolder.__init__(replacement_config=r)            *)
(*   Replace(r, f)     replace_config(r, force_default_merge=f)               *)
(*   SetRepl(r)        the replacement_config property setter                 *)
(*   Update(f)         update_config(force_default_merge=f)                   *)
(*   ExtMutate(k, v)   the CALLER changes the dictionary it passed in         *)
(*   CfgAssign(k, v)   the caller writes obj.config[k] = v (config is handed  *)
(*                     out by reference: the write is a state change)         *)
(*   GetParam(k)       get_param(k) (observation only)                        *)
(*   Attach            LayerConfigHolder/WorldConfigHolder.__init__: the      *)
(*                     holder is built from owner.config[key] and its merged  *)
(*                     configuration is written back (previous -> OLD_key)    *)
(*   OwnerMutate(k,v)  the owner's stored copy is changed afterwards          *)
(*                                                                         *)
(* A dictionary is a function Keys -> Vals \cup {Absent}; an optional          *)
(* dictionary is [some, d].  The harness maps key "n" to a NESTED dictionary  *)
(* {"x": v} so that deep-copy isolation is exercised, and key "p" to the       *)
(* 'pyclass' entry written by store_py_info.                                  *)
(*                                                                         *)
(* Named deviations from the "obvious" design, modelled as the code behaves:  *)
(*  - a non-forced update merges into the CURRENT configuration, so keys of   *)
(*    earlier replacements persist: the configuration depends on the history  *)
(*    (HistoryFree is violated: ConfigHolder_neg_historyfree.cfg);            *)
(*  - the owner's written-back copy is a snapshot: later replacements on the  *)
(*    holder do not reach it.                                                 *)
(* This extends the specification beyond the listed properties (it is the    *)
(* mechanism behind C16's "deriving a world never mutates its inputs").       *)
(***************************************************************************)
EXTENDS Naturals, FiniteSets, TLC

CONSTANTS Keys, Vals, HasDefault, StoreInfo, InfoKey, InfoVal, MaxSteps, WithOwner

\* the class default of the test class (a record cannot be written in a cfg file): {a: 1, n: {x: 1}}
Default == [k \in Keys |-> IF k \in {"a", "n"} THEN 1 ELSE 0]

Absent == 0
Dict == [Keys -> Vals \cup {Absent, InfoVal}]
EmptyD == [k \in Keys |-> Absent]
None == [some |-> FALSE, d |-> EmptyD]
Some(d) == [some |-> TRUE, d |-> d]
Opt == {None} \cup {Some(d) : d \in Dict}
UserDict == [Keys -> Vals \cup {Absent}]          \* what a caller passes (the caller may set the info key too)
UserOpt == {None} \cup {Some(d) : d \in UserDict}

Merge(b, r) == [k \in Keys |-> IF r[k] # Absent THEN r[k] ELSE b[k]]
Dom(d) == {k \in Keys : d[k] # Absent}

VARIABLES clsdef,   \* the CLASS attribute default_config
          made,     \* the instance exists
          def, cfg, old, repl,   \* the instance's default_config, config, old_config, replacement_config
          synced,   \* no CfgAssign since the last update_config
          owner,    \* LayerConfigHolder: the owner's config entry [cur, prev] (prev is OLD_<key>); attached flag
          attached,
          last, steps
vars == <<clsdef, made, def, cfg, old, repl, synced, owner, attached, last, steps>>
view == <<clsdef, made, def, cfg, old, repl, synced, owner, attached>>      \* exhaustive runs: the label and the step counter are not state

ClassDefault == IF HasDefault THEN Some(Default) ELSE None
InstDefault == IF HasDefault /\ StoreInfo THEN Some([Default EXCEPT ![InfoKey] = InfoVal]) ELSE ClassDefault

Init == /\ clsdef = ClassDefault /\ made = FALSE
        /\ def = None /\ cfg = None /\ old = None /\ repl = None /\ synced = TRUE
        /\ owner = [cur |-> None, has |-> FALSE, prev |-> None, hasprev |-> FALSE] /\ attached = FALSE
        /\ last = <<"Init">> /\ steps = 0

\* update_config, line by line
Updated(c, o, r, f) ==
  LET noDefault0 == ~def.some
      useCfg == ~f /\ c.some
      base == IF useCfg THEN c.d ELSE (IF def.some THEN def.d ELSE EmptyD)
      noDefault == IF useCfg THEN FALSE ELSE noDefault0
      noRepl == ~r.some
      rd == IF r.some THEN r.d ELSE EmptyD
      o2 == IF c.some THEN c ELSE o
      c2 == IF noDefault /\ noRepl THEN c ELSE Some(Merge(base, rd))
      c3 == IF c2.some /\ StoreInfo /\ c2.d[InfoKey] = Absent THEN Some([c2.d EXCEPT ![InfoKey] = InfoVal]) ELSE c2
  IN [cfg |-> c3, old |-> o2]

\* MaxSteps = 0: unbounded (exhaustive runs, under VIEW view); otherwise a behaviour has at most MaxSteps labelled steps (simulation)
Step(name) == /\ (MaxSteps = 0 \/ steps < MaxSteps) /\ steps' = (IF MaxSteps = 0 THEN 0 ELSE steps + 1) /\ last' = name

New(r) ==
  /\ ~made /\ ~WithOwner /\ Step(<<"New", r>>)
  /\ made' = TRUE /\ def' = InstDefault /\ repl' = r
  /\ LET u == [cfg |-> None, old |-> None] IN
       \* def' is what update_config reads: inline with the new default
       LET base == IF InstDefault.some THEN InstDefault.d ELSE EmptyD
           rd == IF r.some THEN r.d ELSE EmptyD
           c2 == IF ~InstDefault.some /\ ~r.some THEN None ELSE Some(Merge(base, rd))
           c3 == IF c2.some /\ StoreInfo /\ c2.d[InfoKey] = Absent THEN Some([c2.d EXCEPT ![InfoKey] = InfoVal]) ELSE c2
       IN cfg' = c3 /\ old' = None
  /\ synced' = TRUE /\ UNCHANGED <<clsdef, owner, attached>>

Replace(r, f) ==
  /\ made /\ r.some /\ Step(<<"Replace", r, f>>)
  /\ repl' = r
  /\ LET u == Updated(cfg, old, r, f) IN cfg' = u.cfg /\ old' = u.old
  /\ synced' = TRUE /\ UNCHANGED <<clsdef, made, def, owner, attached>>

SetRepl(r) ==
  /\ made /\ r.some /\ Step(<<"SetRepl", r>>)
  /\ repl' = r
  /\ LET u == Updated(cfg, old, r, FALSE) IN cfg' = u.cfg /\ old' = u.old
  /\ synced' = TRUE /\ UNCHANGED <<clsdef, made, def, owner, attached>>

Update(f) ==
  /\ made /\ Step(<<"Update", f>>)
  /\ LET u == Updated(cfg, old, repl, f) IN cfg' = u.cfg /\ old' = u.old
  /\ synced' = TRUE /\ UNCHANGED <<clsdef, made, def, repl, owner, attached>>

\* the caller's own dictionary changes: nothing of the instance may follow (deep copies at the boundary)
\* (the harness holds that dictionary; in the model the step changes nothing)
ExtMutate(k, v) ==
  /\ made /\ repl.some /\ ~WithOwner /\ Step(<<"ExtMutate", k, v>>)      \* (with an owner the passed dictionary IS the owner's entry: OwnerMutate)
  /\ UNCHANGED <<clsdef, made, def, cfg, old, repl, synced, owner, attached>>

\* obj.config[k] = v: config is handed out by reference
CfgAssign(k, v) ==
  /\ made /\ cfg.some /\ cfg.d[k] # v /\ Step(<<"CfgAssign", k, v>>)
  /\ cfg' = Some([cfg.d EXCEPT ![k] = v]) /\ synced' = FALSE
  /\ UNCHANGED <<clsdef, made, def, old, repl, owner, attached>>

GetParam(k) ==
  /\ made /\ cfg.some /\ Step(<<"GetParam", k>>)
  /\ UNCHANGED <<clsdef, made, def, cfg, old, repl, synced, owner, attached>>

\* ---- LayerConfigHolder / WorldConfigHolder ----
\* the owner's configuration either lacks the key, holds None, or holds a dictionary
\* (Attach without a preceding OwnerInit: the key is missing)
OwnerInit(o) ==
  /\ WithOwner /\ ~made /\ ~attached /\ ~owner.has /\ Step(<<"OwnerInit", o>>)
  /\ owner' = [owner EXCEPT !.cur = o, !.has = TRUE]
  /\ UNCHANGED <<clsdef, made, def, cfg, old, repl, synced, attached>>

\* constructor: raises ParameterMissingError when there is neither an entry nor a default (then nothing is built)
Attach ==
  /\ WithOwner /\ ~made /\ ~attached /\ Step(<<"Attach">>)
  /\ IF ~owner.cur.some /\ ~HasDefault
       THEN /\ attached' = TRUE /\ UNCHANGED <<made, def, cfg, old, repl, synced, owner>>     \* raised
       ELSE /\ made' = TRUE /\ attached' = TRUE /\ def' = InstDefault /\ repl' = owner.cur
            /\ LET base == IF InstDefault.some THEN InstDefault.d ELSE EmptyD
                   rd == IF owner.cur.some THEN owner.cur.d ELSE EmptyD
                   c2 == Some(Merge(base, rd))
                   c3 == IF StoreInfo /\ c2.d[InfoKey] = Absent THEN Some([c2.d EXCEPT ![InfoKey] = InfoVal]) ELSE c2
               IN /\ cfg' = c3 /\ old' = None
                  /\ owner' = [cur |-> c3, has |-> TRUE, prev |-> (IF owner.has THEN owner.cur ELSE owner.prev), hasprev |-> owner.has]
            /\ synced' = TRUE
  /\ UNCHANGED clsdef

\* somebody edits the owner's stored copy: the holder must not follow (it was written back as a deep copy)
OwnerMutate(k, v) ==
  /\ WithOwner /\ made /\ owner.cur.some /\ owner.cur.d[k] # v /\ Step(<<"OwnerMutate", k, v>>)
  /\ owner' = [owner EXCEPT !.cur = Some([owner.cur.d EXCEPT ![k] = v])]
  /\ UNCHANGED <<clsdef, made, def, cfg, old, repl, synced, attached>>

Next ==
  \/ \E r \in UserOpt : New(r)
  \/ \E r \in UserOpt, f \in BOOLEAN : Replace(r, f)
  \/ \E r \in UserOpt : SetRepl(r)
  \/ \E f \in BOOLEAN : Update(f)
  \/ \E k \in Keys, v \in Vals \cup {Absent} : ExtMutate(k, v)
  \/ \E k \in Keys, v \in Vals : CfgAssign(k, v)
  \/ \E k \in Keys : GetParam(k)
  \/ \E o \in UserOpt : OwnerInit(o)
  \/ Attach
  \/ \E k \in Keys, v \in Vals : OwnerMutate(k, v)

Spec == Init /\ [][Next]_vars

(* ------------------------------ properties ------------------------------ *)
TypeOK == /\ clsdef \in Opt /\ def \in Opt /\ cfg \in Opt /\ old \in Opt /\ repl \in UserOpt
          /\ made \in BOOLEAN /\ synced \in BOOLEAN /\ attached \in BOOLEAN

\* the class attribute and the instance's own copy of the defaults never change
ClassDefaultUntouched == clsdef = ClassDefault
InstanceDefaultFixed == made => def = InstDefault

\* a configuration exists as soon as there is a default or a replacement
ConfigExists == made /\ (def.some \/ repl.some) => cfg.some
NoConfigFromNothing == made /\ ~def.some /\ ~repl.some /\ ~old.some => ~cfg.some

\* right after update_config (no direct assignment since), the replacement wins on every key it has, the information entry is
\* present when asked for, and a second non-forced update would change nothing (idempotence)
ReplacementWins == made /\ synced /\ repl.some => \A k \in Dom(repl.d) : cfg.d[k] = repl.d[k]
InfoPresent == made /\ synced /\ StoreInfo /\ cfg.some => cfg.d[InfoKey] # Absent
UpdateIdempotent == made /\ synced => Updated(cfg, old, repl, FALSE).cfg = cfg

\* keys are never lost by a non-forced update; a forced update forgets the history
IsUpdate == last'[1] \in {"Replace", "SetRepl", "Update"}
Forced == (last'[1] = "Replace" /\ last'[3]) \/ (last'[1] = "Update" /\ last'[2])
KeysMonotone == [][IsUpdate /\ ~Forced /\ cfg.some => Dom(cfg.d) \subseteq Dom(cfg'.d)]_vars
ForcedIsHistoryFree == [][IsUpdate /\ Forced /\ (def.some \/ repl'.some) =>
                            LET m == Merge(IF def.some THEN def.d ELSE EmptyD, IF repl'.some THEN repl'.d ELSE EmptyD)
                            IN cfg'.d = (IF StoreInfo /\ m[InfoKey] = Absent THEN [m EXCEPT ![InfoKey] = InfoVal] ELSE m)]_vars
OldIsPrevious == [][IsUpdate /\ cfg.some => old' = cfg]_vars
\* the caller's dictionary and the owner's copy are isolated from the instance
CallerIsolated == [][last'[1] = "ExtMutate" => <<def, cfg, old, repl>>' = <<def, cfg, old, repl>>]_vars
OwnerIsolated == [][last'[1] = "OwnerMutate" => <<def, cfg, old, repl>>' = <<def, cfg, old, repl>>]_vars
\* the owner's entry right after Attach is the holder's configuration, and the previous entry is kept under OLD_<key>
WriteBack == [][last'[1] = "Attach" /\ made' => /\ owner'.cur = cfg'
                                                 /\ (owner.has => owner'.hasprev /\ owner'.prev = owner.cur)
                                                 /\ (~owner.has => ~owner'.hasprev)]_vars

\* NOT a property of the code (named deviation): the configuration is not a function of (default, last replacement)
HistoryFree == made /\ synced /\ cfg.some =>
    LET m == Merge(IF def.some THEN def.d ELSE EmptyD, IF repl.some THEN repl.d ELSE EmptyD)
    IN cfg.d = (IF StoreInfo /\ m[InfoKey] = Absent THEN [m EXCEPT ![InfoKey] = InfoVal] ELSE m)
=============================================================================
