------------------------------- MODULE Shooting -------------------------------
(***************************************************************************)
(* The shooting protocol of TidalPy.RadialSolver (property C02) in exact     *)
(* arithmetic over the prime field GF(P).                                     *)
(*                                                                           *)
(* Every condition of C02 is a polynomial identity in the layer solutions, so *)
(* it holds over any field in which the divisions are defined; TLC decides    *)
(* the ALGORITHM (interface rules bottom-to-top, surface linear solve,        *)
(* constants top-to-bottom, collapse) for every ordering of solid (S),        *)
(* dynamic-liquid (LD) and static-liquid (LS) layers, with generic field      *)
(* elements standing for starting vectors, propagators, densities, gravities. *)
(* One action per stage of solver.pyx:cf_radial_solver; the rules are         *)
(* transcribed from interfaces.pyx, reversed.pyx, boundaries.pyx,             *)
(* collapse.pyx (1-based indices here).  The invariants are the PHYSICAL      *)
(* conditions (TS72, S74), written independently of the rules.               *)
(*                                                                           *)
(* Slots: S has 3 solutions x (y1..y6); LD has 2 x (y1,y2,y5,y6);             *)
(* LS has 1 x (y5,y7).                                                        *)
(***************************************************************************)
EXTENDS ShootingRules

CONSTANTS MaxLayers,  \* stacks of 1..MaxLayers layers
          Seeds       \* set of seeds of the generic-element generator

\* ------------------------------ configuration ------------------------------
VARIABLES stack, seed, ytype,      \* fixed per behaviour
          pc,                      \* <<stage, layer>>
          bot, top,                \* per layer: solutions at the bottom / top slice (matrix [solution][slot]); <<>> = not yet
          cvec,                    \* per layer: constants of integration; <<>> = not yet
          fbot, ftop,              \* per layer: collapsed solution at the bottom / top slice: 7 slots y1..y7
          degen                    \* TRUE if a division by zero was met (the real solver would produce inf/nan)
vars == <<stack, seed, ytype, pc, bot, top, cvec, fbot, ftop, degen>>

NL == Len(stack)
Rho(i) == Gen(seed, 50, i, 0)            \* density of layer i (uniform per layer, different between layers)
GI(i) == Gen(seed, 51, i, 0)             \* gravity at the interface above layer i (i = NL: surface)
G4 == Gen(seed, 52, 0, 0)                \* 4 pi G
BC(t) == CASE t = "tidal" -> <<0, 0, Gen(seed, 53, 3, 0)>>
           [] t = "loading" -> <<Gen(seed, 53, 1, 0), 0, Gen(seed, 53, 3, 0)>>
           [] t = "free" -> <<0, 0, 0>>
Prop(i, y, yy) == Gen(seed, 10 + i, y, yy)   \* linear propagator of layer i (the ODE is linear: the same map for every solution)

RECURSIVE Stacks(_)
Stacks(n) == IF n = 0 THEN {<<>>} ELSE {Append(s, k) : s \in Stacks(n - 1), k \in Kinds}
AllStacks == UNION {Stacks(n) : n \in 1..MaxLayers}

Unset == <<>>
Init == /\ stack \in AllStacks /\ seed \in Seeds /\ ytype \in {"tidal", "loading", "free"}
        /\ pc = <<"start", 1>>
        /\ bot = [i \in 1..Len(stack) |-> Unset] /\ top = [i \in 1..Len(stack) |-> Unset]
        /\ cvec = [i \in 1..Len(stack) |-> Unset]
        /\ fbot = [i \in 1..Len(stack) |-> Unset] /\ ftop = [i \in 1..Len(stack) |-> Unset]
        /\ degen = FALSE

\* ------------------------------ stage 1: starting vectors ------------------------------
Start == /\ pc = <<"start", 1>>
         /\ bot' = [bot EXCEPT ![1] = [s \in 1..NSol(stack[1]) |-> [y \in 1..NY(stack[1]) |-> Gen(seed, 1, s, y)]]]
         /\ pc' = <<"integrate", 1>>
         /\ UNCHANGED <<stack, seed, ytype, top, cvec, fbot, ftop, degen>>

\* ------------------------------ stage 2: integrate layer i ------------------------------
Integrate(i) == /\ pc = <<"integrate", i>>
                /\ LET k == stack[i] IN
                   top' = [top EXCEPT ![i] = [s \in 1..NSol(k) |-> [y \in 1..NY(k) |->
                              SumTo([yy \in 1..NY(k) |-> Mul(Prop(i, y, yy), bot[i][s][yy])], NY(k))]]]
                /\ pc' = IF i < NL THEN <<"interface", i>> ELSE <<"surface", NL>>
                /\ UNCHANGED <<stack, seed, ytype, bot, cvec, fbot, ftop, degen>>

\* ------------------------------ stage 3: interface i -> i+1 (interfaces.pyx) ------------------------------
\* density handed to the interface routine (solver.pyx, "static_liquid_density")
RhoUp(i) == LET a == stack[i] b == stack[i + 1] IN
            IF a = "S" /\ b = "S" THEN 0
            ELSE IF b # "S" /\ a = "S" THEN Rho(i + 1)
            ELSE IF b = "S" /\ a # "S" THEN Rho(i)
            ELSE IF b = "LS" THEN Rho(i + 1)            \* both static, or this static / below dynamic
            ELSE IF a = "LS" THEN Rho(i)                \* this dynamic, below static
            ELSE 0
InterfaceUp(i) == /\ pc = <<"interface", i>>
                  /\ LET r == UpRule(stack[i], stack[i + 1], top[i], GI(i), RhoUp(i), G4) IN
                     /\ bot' = [bot EXCEPT ![i + 1] = r[1]]
                     /\ degen' = (degen \/ r[2])
                  /\ pc' = <<"integrate", i + 1>>
                  /\ UNCHANGED <<stack, seed, ytype, top, cvec, fbot, ftop>>

\* ------------------------------ stage 4: surface boundary condition (boundaries.pyx) ------------------------------
Surface == /\ pc = <<"surface", NL>>
           /\ LET r == SurfaceRule(stack[NL], top[NL], BC(ytype), GI(NL), G4) IN
              /\ cvec' = [cvec EXCEPT ![NL] = r[1]]
              /\ degen' = (degen \/ r[2])
           /\ pc' = <<"collapse", NL>>
           /\ UNCHANGED <<stack, seed, ytype, bot, top, fbot, ftop>>

\* ------------------------------ stage 5: constants of layer i from layer i+1 (reversed.pyx) ------------------------------
RhoDown(i) == LET k == stack[i] ka == stack[i + 1] IN
              IF k # "S" THEN (IF k = "LS" THEN Rho(i) ELSE IF ka = "LS" THEN Rho(i + 1) ELSE Rho(i))
              ELSE IF ka # "S" THEN Rho(i + 1) ELSE 0
ConstantsDown(i) == /\ pc = <<"down", i>>
                    /\ LET r == DownRule(stack[i], stack[i + 1], cvec[i + 1], top[i], GI(i), RhoDown(i)) IN
                       /\ cvec' = [cvec EXCEPT ![i] = r[1]]
                       /\ degen' = (degen \/ r[2])
                    /\ pc' = <<"collapse", i>>
                    /\ UNCHANGED <<stack, seed, ytype, bot, top, fbot, ftop>>

\* ------------------------------ stage 6: collapse layer i (collapse.pyx) ------------------------------
\* what the solver RETURNS has six rows: y7 of a static liquid is internal
Collapse(i) == /\ pc = <<"collapse", i>>
               /\ fbot' = [fbot EXCEPT ![i] = Collapsed(stack[i], cvec[i], bot[i])]
               /\ ftop' = [ftop EXCEPT ![i] = Collapsed(stack[i], cvec[i], top[i])]
               /\ pc' = IF i > 1 THEN <<"down", i - 1>> ELSE <<"done", 0>>
               /\ UNCHANGED <<stack, seed, ytype, bot, top, cvec, degen>>

Next == Start \/ (\E i \in 1..NL : Integrate(i) \/ Collapse(i)) \/ (\E i \in 1..(NL - 1) : InterfaceUp(i) \/ ConstantsDown(i)) \/ Surface
Spec == Init /\ [][Next]_vars

Done == pc = <<"done", 0>> /\ ~degen

\* ------------------------------ the physical conditions (C02) ------------------------------
Y(v, n) == v[n]
\* surface: exactly the requested boundary vector
C02_Surface == Done =>
   LET v == ftop[NL] k == stack[NL] bc == BC(ytype) IN
   IF k = "S" THEN Y(v, 2) = bc[1] /\ Y(v, 4) = bc[2] /\ Y(v, 6) = bc[3]
   ELSE IF k = "LD" THEN Y(v, 2) = bc[1] /\ Y(v, 6) = bc[3]
   ELSE Y(v, 7) = Add(bc[3], Mul(bc[1], Div(G4, GI(NL))))
\* interface i between layer i (lower, L = its collapsed top) and i+1 (upper, U = its collapsed bottom)
Lambda(v, rho, g) == Sub(Y(v, 2), Mul(rho, Sub(Mul(g, Y(v, 1)), Y(v, 5))))      \* normal stress minus the hydrostatic one
Y7of(v, g) == Add(Y(v, 6), Mul(Div(G4, g), Y(v, 2)))
StaticSide(ls, x, kx, rhoLS, g) ==      \* ls: collapsed static-liquid vector, x: the vector on the other side (kind kx # "LS")
   /\ Y(x, 5) = Y(ls, 5)                 \* potential carried continuously
   /\ Y7of(x, g) = Y(ls, 7)              \* potential-gradient term
   /\ Lambda(x, rhoLS, g) = 0            \* the boundary is an equipotential of the static fluid
   /\ (kx = "S" => Y(x, 4) = 0)
InterfaceOK(i) ==
   LET a == stack[i] b == stack[i + 1] L == ftop[i] U == fbot[i + 1] g == GI(i) IN
   IF a = "S" /\ b = "S" THEN \A n \in 1..6 : Y(L, n) = Y(U, n)
   ELSE IF a = "LS" /\ b = "LS" THEN Y(L, 5) = Y(U, 5) /\ Y(L, 7) = Y(U, 7)
   ELSE IF a = "LS" THEN StaticSide(L, U, b, Rho(i), g)
   ELSE IF b = "LS" THEN StaticSide(U, L, a, Rho(i + 1), g)
   ELSE \* solid / dynamic liquid in any order, or two dynamic liquids
        /\ \A n \in {1, 2, 5, 6} : Y(L, n) = Y(U, n)
        /\ (a = "S" => Y(L, 4) = 0) /\ (b = "S" => Y(U, 4) = 0)
C02_Interfaces == Done => \A i \in 1..(NL - 1) : InterfaceOK(i)
\* definedness pattern of the returned rows y1..y6
DefinedSlots(k) == CASE k = "S" -> {1, 2, 3, 4, 5, 6} [] k = "LD" -> {1, 2, 3, 5, 6} [] k = "LS" -> {5}
C02_Definedness == Done => \A i \in 1..NL : \A n \in 1..6 :
                      /\ ((ftop[i][n] # Undef) <=> (n \in DefinedSlots(stack[i])))
                      /\ ((fbot[i][n] # Undef) <=> (n \in DefinedSlots(stack[i])))
\* the protocol terminates with every layer collapsed
C02_AllCollapsed == pc = <<"done", 0>> => \A i \in 1..NL : fbot[i] # Unset /\ ftop[i] # Unset

\* export: which predicates apply to which interface (consumed by the harness for the whole-solver residuals)
Clauses(i) == LET a == stack[i] b == stack[i + 1] IN
   IF a = "S" /\ b = "S" THEN {"cont_y1", "cont_y2", "cont_y3", "cont_y4", "cont_y5", "cont_y6"}
   ELSE IF a = "LS" /\ b = "LS" THEN {"cont_y5"}
   ELSE IF a = "LS" THEN {"cont_y5", "lambda_upper_rho_lower"} \cup (IF b = "S" THEN {"y4_zero_upper"} ELSE {})
   ELSE IF b = "LS" THEN {"cont_y5", "lambda_lower_rho_upper"} \cup (IF a = "S" THEN {"y4_zero_lower"} ELSE {})
   ELSE {"cont_y1", "cont_y2", "cont_y5", "cont_y6"} \cup (IF a = "S" THEN {"y4_zero_lower"} ELSE {}) \cup (IF b = "S" THEN {"y4_zero_upper"} ELSE {})
ExportStack == (pc = <<"done", 0>> /\ seed = (CHOOSE s \in Seeds : TRUE) /\ ytype = "tidal") =>
                  PrintT(<<"STACK", stack, [i \in 1..(NL - 1) |-> Clauses(i)], [i \in 1..NL |-> DefinedSlots(stack[i])], degen>>)
ExportDegen == (pc = <<"done", 0>> /\ degen) => PrintT(<<"DEGEN", stack, seed, ytype>>)
=============================================================================
