----------------------------- MODULE StressStrain -----------------------------
(***************************************************************************)
(* Tidal strain / stress tensors from the radial functions y1..y4 and a     *)
(* degree-l potential (Takeuchi & Saito 1972; property C15), over Gaussian   *)
(* rationals.  U_thth is DEFINED by the surface Laplace identity             *)
(*   U_thth + cot(th) U_th + U_phph / sin^2(th) = -l(l+1) U                  *)
(* so every lattice point is a legitimate degree-l potential sample.         *)
(*   e_rr   = dy1/dr U,  dy1/dr = (y2 - (lam/r)(2 y1 - l(l+1) y3)) / (lam + 2 mu) *)
(*   e_thth = (y3 U_thth + y1 U)/r                                           *)
(*   e_phph = (y1 U + y3 (U_phph/sin^2 + cot U_th))/r                        *)
(*   e_rth  = y4 U_th / (2 mu),  e_rph = y4 U_ph / (2 mu sin)                 *)
(*   e_thph = y3 (U_thph - cot U_ph) / (r sin)                               *)
(*   s = 2 mu e + lam tr(e) I,   lam = K - 2 mu / 3                          *)
(* TLC checks the traction identities, Hooke's law and the sign of the       *)
(* dissipation on every lattice point and exports the tensors.              *)
(***************************************************************************)
EXTENDS CRat, TLC

CONSTANTS Y1s, Y2s, Y3s, Y4s, Mus, Ks, Rs, Ls, Thetas, Us, Uths, Uphs, Uthphs, Uphphs

VARIABLES y1, y2, y3, y4, mu, kb, r, l, th, u, uth, uph, uthph, uphph
vars == <<y1, y2, y3, y4, mu, kb, r, l, th, u, uth, uph, uthph, uphph>>
Init == /\ y1 \in Y1s /\ y2 \in Y2s /\ y3 \in Y3s /\ y4 \in Y4s /\ mu \in Mus /\ kb \in Ks /\ r \in Rs /\ l \in Ls
        /\ th \in Thetas /\ u \in Us /\ uth \in Uths /\ uph \in Uphs /\ uthph \in Uthphs /\ uphph \in Uphphs
Next == UNCHANGED vars
Spec == Init /\ [][Next]_vars

sn == th[1]                      \* sin(theta)
cs == th[2]                      \* cos(theta)
Cs(q, z) == CScale(q, z)
Term(s, e) == RSub(RMul(CIm(s), CRe(e)), RMul(CRe(s), CIm(e)))

\* everything is computed once inside one LET (TLC caches LET definitions; module-level state operators are re-evaluated on every use)
All ==
  LET cot == RDiv(cs, sn)
      LL == R(l * (l + 1))
      Rr == R(r)
      s2inv == RInv(RMul(sn, sn))
      lam == CSub(kb, Cs(<<2, 3>>, mu))
      twomu == Cs(R(2), mu)
      \* Laplace identity
      uthth == CSub(CSub(CNeg(Cs(LL, u)), Cs(cot, uth)), Cs(s2inv, uphph))
      dy1dr == CDiv(CSub(y2, CMul(Cs(RInv(Rr), lam), CSub(Cs(R(2), y1), Cs(LL, y3)))), CAdd(lam, twomu))
      err == CMul(dy1dr, u)
      ethth == Cs(RInv(Rr), CAdd(CMul(y3, uthth), CMul(y1, u)))
      ephph == Cs(RInv(Rr), CAdd(CMul(y1, u), CMul(y3, CAdd(Cs(s2inv, uphph), Cs(cot, uth)))))
      erth == CDiv(CMul(y4, uth), twomu)
      erph == CDiv(CMul(y4, Cs(RInv(sn), uph)), twomu)
      ethph == Cs(RInv(RMul(Rr, sn)), CMul(y3, CSub(uthph, Cs(cot, uph))))
      tr == CAdd(err, CAdd(ethth, ephph))
      ltr == CMul(lam, tr)
      srr == CAdd(CMul(twomu, err), ltr)
      sthth == CAdd(CMul(twomu, ethth), ltr)
      sphph == CAdd(CMul(twomu, ephph), ltr)
      srth == CMul(twomu, erth)
      srph == CMul(twomu, erph)
      sthph == CMul(twomu, ethph)
      heat == RAdd(RAdd(Term(srr, err), RAdd(Term(sthth, ethth), Term(sphph, ephph))),
                   RMul(R(2), RAdd(Term(srth, erth), RAdd(Term(srph, erph), Term(sthph, ethph)))))
  IN [strain |-> <<err, ethth, ephph, erth, erph, ethph>>, stress |-> <<srr, sthth, sphph, srth, srph, sthph>>,
      heat |-> heat, uthth |-> uthth]
Strain == All.strain
Stress == All.stress
Heat == All.heat

\* ---- clauses of C15 ----
Passive == RLe(RZero, CIm(mu)) /\ RLe(RZero, CIm(kb))
\* one invariant evaluates All once and checks every clause (named sub-formulas for the reader)
C15_All == LET a == All IN
  /\ a.stress[1] = CMul(y2, u)                          \* C15_TractionRR
  /\ a.stress[4] = CMul(y4, uth)                        \* C15_TractionRTheta
  /\ a.stress[5] = CMul(y4, Cs(RInv(sn), uph))          \* C15_TractionRPhi
  /\ (Passive => RLe(RZero, a.heat))                    \* C15_HeatNonNegative
  /\ ((RIsZero(CIm(mu)) /\ RIsZero(CIm(kb))) => RIsZero(a.heat))     \* C15_ElasticNoHeat
  /\ PrintT(<<"ROW", <<y1, y2, y3, y4>>, mu, kb, r, l, th, <<u, uth, uph, a.uthth, uphph, uthph>>, a.strain, a.stress, a.heat>>)
=============================================================================
