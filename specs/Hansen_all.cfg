SPECIFICATION Spec
CONSTANTS
  P = 32749
  N = 20
  Degrees = {2, 3, 4, 5, 6, 7}
  QMax = 11
INVARIANT C08_All
CHECK_DEADLOCK FALSE
