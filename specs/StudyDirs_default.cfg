SPECIFICATION Spec
CONSTANTS
  MaxDirs = 3
  MaxInc = 4
  MaxCrash = 2
  ForceRestartChoices = {TRUE, FALSE}
  RerunChoices = {TRUE}
INVARIANT TypeOK
INVARIANT NoClobber
INVARIANT FreshIsFresh
INVARIANT CompletedAllCases
INVARIANT CompletedPostProcessed
INVARIANT ReturnedMeansCompleted
INVARIANT NoGaps
CHECK_DEADLOCK FALSE
