--------------------------- MODULE ShootingLattice ---------------------------
(***************************************************************************)
(* Exact cases for TidalPy.RadialSolver.interfaces.solve_upper_y_at_interface *)
(* (the one stage of the shooting protocol that is callable from Python).     *)
(* Inputs are small Gaussian integers (complex numbers a + b i); they are     *)
(* embedded in GF(P) with i |-> I, I*I = -1 (P = 1 mod 4).  The expected      *)
(* output is UpRule of ShootingRules.tla, the same operator whose composition *)
(* with the other stages Shooting.tla model-checks.  The harness feeds the    *)
(* same Gaussian integers to the compiled routine, converts every complex     *)
(* result to the rational it is (limit_denominator) and compares residues.    *)
(***************************************************************************)
EXTENDS ShootingRules

CONSTANTS I,        \* square root of -1 in GF(P)
          Cases     \* number of input matrices per ordered kind pair
ASSUME Mul(I, I) = P - 1

VARIABLE lat        \* <<lower kind, upper kind, case number>>
Init == lat \in Kinds \X Kinds \X (1..Cases)
Next == UNCHANGED lat
Spec == Init /\ [][Next]_lat

H(n, s, y, t) == (n * 7919 + s * 104729 + y * 1299709 + t * 3571 + 977) % 1009
\* small Gaussian integer, never 0
SG(n, s, y) == LET re == (H(n, s, y, 1) % 5) - 2
                   im == (H(n, s, y, 2) % 5) - 2
               IN IF re = 0 /\ im = 0 THEN <<1, 0>> ELSE <<re, im>>
Res(z) == (z[1] + z[2] * I) % P
LowerG(a, n) == [s \in 1..NSol(a) |-> [y \in 1..NY(a) |-> SG(n, s, y)]]
Grav(n) == 1 + (H(n, 7, 7, 3) % 3)
RhoL(n) == 1 + (H(n, 8, 8, 4) % 3)
G4L(n) == 1 + (H(n, 9, 9, 5) % 2)

Export == LET a == lat[1] b == lat[2] n == lat[3]
              Lg == LowerG(a, n)
              L == [s \in 1..NSol(a) |-> [y \in 1..NY(a) |-> Res(Lg[s][y])]]
              r == UpRule(a, b, L, Grav(n), RhoL(n), G4L(n))
          IN PrintT(<<"IFACE", a, b, n, Lg, Grav(n), RhoL(n), G4L(n), r[1], r[2], NSol(b), NY(b)>>)
=============================================================================
