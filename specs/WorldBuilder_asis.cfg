SPECIFICATION Spec
CONSTANTS
  MaxChain = 4
  MaxI = 4
  Incr = FALSE
INVARIANT C16_DistinctName
INVARIANT LoopBounded
PROPERTY C16_Terminates
CHECK_DEADLOCK FALSE
