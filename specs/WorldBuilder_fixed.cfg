SPECIFICATION Spec
CONSTANTS
  MaxChain = 4
  MaxI = 4
  Incr = TRUE
INVARIANT C16_DistinctName
INVARIANT LoopBounded
PROPERTY C16_Terminates
CHECK_DEADLOCK FALSE
