SPECIFICATION Spec
CONSTANTS
  SpinSync = FALSE
  ObliqOn = TRUE
  NVals = 2
  NLayers = 1
  Bug = "no_collapse_on_strength"
INVARIANT C13_Fresh_Layered
INVARIANT SyncHolds
CHECK_DEADLOCK FALSE
