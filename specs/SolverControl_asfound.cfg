SPECIFICATION Spec
CONSTANTS
  Guarded = FALSE
INVARIANT C06_FailureProtocol
INVARIANT C06_RaiseOnFail
INVARIANT C06_FailReported
INVARIANT C06_OkWithoutFault
INVARIANT Export
CHECK_DEADLOCK FALSE
